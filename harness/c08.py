"""C08: Woehler curve algebra (cycles/load inverses, knee, slopes, Miner variants, failure-probability
transforms, TN/TS quantile ratios, scatter range <-> std, broadcast = element-wise scalar).

Implementation side (real pylife, in-process), generators, correspondence with the Lean model
(`wc …` protocol lines, lean/Driver/Woehler.lean) and the direct property oracle."""
import json
import math

import numpy as np
import pandas as pd

from . import core
from .core import Prop, f2h, h2f, close

INF = math.inf
C_RANGE = 0.39015207303618954


def _wc():
    import pylife.materiallaws.woehlercurve  # noqa: F401  (registers the accessor)
    import pylife.strength.fatigue  # noqa: F401
    from pylife.utils import functions
    return functions


# ------------------------------------------------------------------ case <-> objects
def k2_of(c):
    """the second slope as the MODEL sees it: a missing k_2 and a NaN k_2 (a frame assembled from curves with and without
    the key has NaN there) both mean `no second slope` = infinity (class docstring of WoehlerCurve)"""
    k2 = c.get("k2")
    if k2 is None or k2 in ("inf", "nan"):
        return INF
    return float(k2)


def int_fields_possible(c):
    """the curve can be written with Python ints only (then `pd.Series({...})` is an int64 Series, a frame has int64 columns)"""
    vals = [c["k1"], c["ND"], c["SD"]] + [c[k] for k in ("TN", "TS") if c.get(k) is not None]
    if c.get("k2") is not None:
        if c["k2"] in ("inf", "nan"):
            return False
        vals.append(c["k2"])
    return c.get("pf0") is None and all(float(v).is_integer() and abs(v) < 2 ** 53 for v in vals)


def curve_series(c):
    num = (lambda x: int(x)) if (c.get("int_fields") and int_fields_possible(c)) else float
    d = {"k_1": num(c["k1"]), "ND": num(c["ND"]), "SD": num(c["SD"])}
    if c.get("k2") is not None:
        d["k_2"] = math.nan if c["k2"] == "nan" else k2_of(c) if c["k2"] == "inf" else num(k2_of(c))
    if c.get("TN") is not None:
        d["TN"] = num(c["TN"])
    if c.get("TS") is not None:
        d["TS"] = num(c["TS"])
    if c.get("pf0") is not None:
        d["failure_probability"] = float(c["pf0"])
    return pd.Series(d)


def as_arg(case, x):
    """a scalar argument of a call: a Python int when the case asks for integer-typed calls and the value is integral"""
    if case.get("ints") and float(x).is_integer() and abs(x) < 2 ** 62:
        return int(x)
    return x


def curve_tokens(c):
    def opt(x):
        return "-" if x is None else f2h(x)
    return " ".join([f2h(c["k1"]), f2h(k2_of(c)), f2h(c["SD"]), f2h(c["ND"]),
                     opt(c.get("TN")), opt(c.get("TS")), opt(c.get("pf0"))])


def accessor(c, obj):
    return obj.fatigue if c.get("acc") == "fatigue" else obj.woehler


FIELDS = ["k_1", "k_2", "SD", "ND", "TN", "TS", "failure_probability"]


def canon_curve(p):
    """the seven fields; a NaN k_2 (= the curve has no second slope) is read as infinity, as the model holds it"""
    return " ".join(f2h(INF if (f == "k_2" and float(p[f]) != float(p[f])) else float(p[f])) for f in FIELDS)


def fl(x):
    return float(np.asarray(x, dtype=np.float64).reshape(-1)[0])


def guarded(f):
    try:
        return f()
    except Exception as e:  # canonical error text; the model has no errors, so this shows up as a disagreement
        return "error:" + type(e).__name__



def pandas_diff(a, b):
    """None if the two pandas objects are the same in type, index (values, dtype, names), columns / name,
    dtypes and values bit for bit; else a short description of the first difference."""
    if type(a) is not type(b):
        return f"type {type(b).__name__} -> {type(a).__name__}"
    if not (a.index.equals(b.index) and a.index.dtype == b.index.dtype and list(a.index) == list(b.index)):
        return f"index {list(b.index)!r} -> {list(a.index)!r}"
    if list(a.index.names) != list(b.index.names):
        return f"index names {list(b.index.names)!r} -> {list(a.index.names)!r}"
    if isinstance(a, pd.DataFrame):
        if list(a.columns) != list(b.columns):
            return f"columns {list(b.columns)!r} -> {list(a.columns)!r}"
        if list(a.dtypes) != list(b.dtypes):
            return f"dtypes {list(b.dtypes)!r} -> {list(a.dtypes)!r}"
        for col in a.columns:
            for lab, x, y in zip(a.index, a[col].to_numpy(), b[col].to_numpy()):
                if f2h(x) != f2h(y):
                    return f"{col}[{lab!r}] {float(y)!r} -> {float(x)!r}"
        return None
    if a.name != b.name:
        return f"name {b.name!r} -> {a.name!r}"
    if a.dtype != b.dtype:
        return f"dtype {b.dtype!r} -> {a.dtype!r}"
    for lab, x, y in zip(a.index, a.to_numpy(), b.to_numpy()):
        if f2h(x) != f2h(y):
            return f"{lab} {float(y)!r} -> {float(x)!r}"
    return None


def content_diff(a, b):
    """None if two pandas objects hold the same VALUES (bit for bit) under the same INDEX labels in the same order (and the same
    columns): what a later call with the object computes from.  Names / dtypes are not part of this (see pandas_diff)."""
    if type(a) is not type(b) or list(a.index) != list(b.index):
        return f"index {list(b.index)!r} -> {list(a.index)!r}"
    if isinstance(a, pd.DataFrame) and list(a.columns) != list(b.columns):
        return f"columns {list(b.columns)!r} -> {list(a.columns)!r}"
    xa, xb = np.asarray(a, dtype=np.float64).reshape(-1), np.asarray(b, dtype=np.float64).reshape(-1)
    for i, (x, y) in enumerate(zip(xa, xb)):
        if f2h(x) != f2h(y):
            return f"value {i}: {float(y)!r} -> {float(x)!r}"
    return None


def bits(r):
    """bit pattern(s) of a scalar / array / Series result, with the index of a Series"""
    if isinstance(r, pd.Series):
        return (tuple(r.index.names), tuple(r.index), tuple(f2h(x) for x in r.to_numpy()))
    if isinstance(r, pd.DataFrame):
        return (tuple(r.index), tuple(r.columns), tuple(f2h(x) for x in r.to_numpy().reshape(-1)))
    return tuple(f2h(x) for x in np.asarray(r, dtype=np.float64).reshape(-1))


def evaluation_leaves_signal_alone(make, ops, what):
    """The clause 'an evaluation does not alter the curve': `make()` builds (user object, accessor) afresh;
    for every (label, op) in ops: deep copies of the user's pandas object and of the accessor's curve are taken,
    op(accessor) is evaluated, both must be the same afterwards (values bit for bit, index, names, dtype), a second
    evaluation on the SAME accessor and one on a FRESH signal must be bit-identical to the first."""
    for label, op in ops:
        user, w = make()
        user0 = user.copy(deep=True)
        own0 = w.to_pandas().copy(deep=True)
        fp0 = bits(w.failure_probability)
        r1 = bits(op(w))
        d = pandas_diff(user, user0)
        if d is not None:
            return (f"{label} altered the pandas object the accessor was created from ({d}); {what}", "signal-altered")
        d = pandas_diff(w.to_pandas(), own0)
        if d is not None:
            return (f"{label} altered the curve held by the accessor ({d}); {what}", "signal-altered")
        if bits(w.failure_probability) != fp0:
            return (f"{label} altered the accessor's failure_probability; {what}", "signal-altered")
        r2 = bits(op(w))
        if r2 != r1:
            return (f"{label}: a second evaluation on the same accessor differs from the first ({r1[-1] if isinstance(r1[-1], tuple) else r1} vs {r2[-1] if isinstance(r2[-1], tuple) else r2}, bit patterns); {what}", "evaluation-not-repeatable")
        r3 = bits(op(make()[1]))
        if r3 != r1:
            return (f"{label}: the evaluation on a fresh signal differs from the one on a used accessor; {what}", "evaluation-not-repeatable")
    return None

# ------------------------------------------------------------------ generators
def loguni(rng, lo, hi):
    return 10.0 ** rng.uniform(math.log10(lo), math.log10(hi))


def gen_pf(rng):
    r = rng.random()
    if r < 0.35:
        return rng.choice([0.5, 0.1, 0.9, 0.025, 0.975, 0.01, 0.99, 0.3])
    if r < 0.5:
        return rng.choice([1e-6, 1 - 1e-6, 1e-12, 1 - 1e-12, 2.3e-4])
    if r < 0.6:
        return loguni(rng, 1e-10, 0.4)
    return rng.uniform(0.001, 0.999)


def gen_curve(rng):
    r = rng.random()
    if r < 0.3:
        k1 = rng.choice([3.0, 5.0, 7.0, 1.5, 12.0, 1.0000001, 30.0])
    else:
        k1 = loguni(rng, 1.02, 25.0)
    r = rng.random()
    if r < 0.15:
        k2 = None
    elif r < 0.31:
        k2 = "inf"
    elif r < 0.35:
        k2 = "nan"           # the key is there but holds NaN (row of a frame whose other rows have a second slope)
    elif r < 0.5:
        k2 = k1
    elif r < 0.65:
        k2 = 2.0 * k1 - 1.0
    elif r < 0.9:
        k2 = k1 + loguni(rng, 0.01, 30.0)
    else:
        k2 = rng.choice([50.0, 100.0]) + k1
    SD = rng.choice([100.0, 300.0, 1.0, 0.5, 1250.0]) if rng.random() < 0.3 else loguni(rng, 1e-2, 1e4)
    ND = rng.choice([1e6, 2e6, 1e7, 5e5, 1000.0]) if rng.random() < 0.4 else loguni(rng, 1e3, 1e8)
    pat = rng.choice(["none", "none", "TN", "TS", "both", "both", "consistent", "one"])
    TN = TS = None
    if pat == "TN":
        TN = rng.choice([1.0, 1.0 + loguni(rng, 1e-3, 20.0)])
    elif pat == "TS":
        TS = rng.choice([1.0, 1.0 + loguni(rng, 1e-3, 1.5)])
    elif pat == "both":
        TN = 1.0 + loguni(rng, 1e-3, 20.0)
        TS = 1.0 + loguni(rng, 1e-3, 1.5)
    elif pat == "consistent":
        TS = 1.0 + loguni(rng, 1e-3, 0.6)
        TN = TS ** k1
    elif pat == "one":
        TN = 1.0
        TS = 1.0
    pf0 = None if rng.random() < 0.45 else gen_pf(rng)
    return {"k1": k1, "k2": k2, "SD": SD, "ND": ND, "TN": TN, "TS": TS, "pf0": pf0}


def gen_loads(rng, SD, n):
    out = [SD]
    out.append(float(np.nextafter(SD, INF)))
    out.append(float(np.nextafter(SD, 0.0)))
    for _ in range(n):
        r = rng.random()
        if r < 0.35:
            out.append(SD * 10.0 ** (rng.randrange(-4, 5) / 4.0))
        elif r < 0.5:
            out.append(SD * (1.0 + rng.choice([-1, 1]) * loguni(rng, 1e-12, 1e-2)))
        else:
            out.append(SD * loguni(rng, 0.2, 5.0))
    return out


def native_pf(c):
    return 0.5 if c.get("pf0") is None else c["pf0"]


def gen_int_curve(rng):
    """a curve whose SD, ND (and mostly k_1, k_2, TN) are integral, as users type them: {'k_1': 5, 'ND': 10**6, 'SD': 100}"""
    c = gen_curve(rng)
    c["k1"] = float(rng.choice([3, 5, 7, 12, 4]))
    r = rng.random()
    c["k2"] = None if r < 0.25 else "inf" if r < 0.5 else c["k1"] if r < 0.6 else 2.0 * c["k1"] - 1.0 if r < 0.8 else c["k1"] + rng.randrange(1, 20)
    c["SD"] = float(rng.choice([100, 300, 7, 1250, rng.randrange(2, 5000)]))
    c["ND"] = float(rng.choice([10 ** 6, 2 * 10 ** 6, 1000, 10 ** 7, rng.randrange(1000, 10 ** 8)]))
    if rng.random() < 0.6:
        c["TS"] = None
        c["TN"] = None if rng.random() < 0.5 else float(rng.choice([1, 2, 4, 10]))
    if rng.random() < 0.6:
        c["pf0"] = None
    return c


def gen_int_values(rng, ref, n, hi_factor):
    """integers around the integral reference value: exactly at it, its two neighbours, random ones below and above"""
    ref = int(ref)
    out = [ref, ref + 1, max(1, ref - 1)]
    for _ in range(n):
        out.append(rng.randrange(1, max(2, ref)) if rng.random() < 0.5 else rng.randrange(ref, hi_factor * ref + 2))
    return [float(v) for v in out]


BC_MODES = ["series", "array", "list", "cross", "zip_series", "zip_array", "lseries", "larray", "llist",
            "lcross", "lzip_series", "lzip_array", "zip_series", "lzip_series"]
FRAME_MODES = ("cross", "zip_series", "zip_array", "lcross", "lzip_series", "lzip_array")
LOAD_MODES = ("lseries", "larray", "llist", "lcross", "lzip_series", "lzip_array")      # load(cycles): values are cycle numbers
# findings recorded on the unchanged tree that this module classifies; both are fixed today (K_UNSIGNED by /repo commit
# c9a3e4d, K_NOCURVE by 7867a83; see KNOWN_FINDINGS.jsonl)
K_UNSIGNED = "load-unsigned-cycles-wraparound"
K_NOCURVE = "cycles-label-without-curve-infinite-life"


SEQ_PROPS = ["SD", "ND", "k_1", "k_2", "TN", "TS", "failure_probability", "to_pandas"]
SEQ_MINER = ["miner_original", "miner_elementary", "miner_haibach"]


def gen_seq(rng):
    """a random sequence of calls on ONE kept WoehlerCurve object and on the objects it hands out (Miner variants, also
    chained; transformed curves), interleaved.  "obj" = -1: the accessor built from the data, i >= 0: the object returned by
    op i.  Few distinct failure probabilities and loads (repeats are what a stale cache needs), loads mostly below the knee,
    cycle numbers mostly beyond ND."""
    m = rng.choice([1, 1, 2, 3])
    base = gen_curve(rng)
    curves = []
    for _ in range(m):
        c = gen_curve(rng)
        for key in ("TN", "TS", "pf0", "k2"):
            if base.get(key) is None:
                c[key] = None
            elif c.get(key) is None:
                c[key] = base[key]
        curves.append(c)
    if m == 1 and rng.random() < 0.3:
        curves[0]["acc"] = "fatigue"
    ref = curves[0]
    pfs = [rng.choice([0.5, native_pf(ref)]), gen_pf(rng)]
    loads = [ref["SD"] * f for f in (0.5, rng.uniform(0.2, 0.95), 1.0, rng.uniform(1.05, 3.0))]
    cycs = [ref["ND"] * f for f in (10.0, loguni(rng, 1.5, 1e3), 1.0, loguni(rng, 1e-3, 0.7))]
    ops, pool = [], [-1]
    for i in range(rng.randrange(5, 16)):
        obj = rng.choice(pool) if rng.random() < 0.6 else rng.choice([-1, pool[-1]])
        r = rng.random()
        if r < 0.3:
            op = {"obj": obj, "op": "cycles", "x": rng.choice(loads[:2] if rng.random() < 0.7 else loads), "pf": rng.choice(pfs)}
        elif r < 0.5:
            op = {"obj": obj, "op": "load", "x": rng.choice(cycs[:2] if rng.random() < 0.7 else cycs), "pf": rng.choice(pfs)}
        elif r < 0.62:
            op = {"obj": obj, "op": "transform", "pf": rng.choice(pfs)}
            pool.append(i)
        elif r < 0.85:
            op = {"obj": obj, "op": rng.choice(SEQ_MINER)}
            pool.append(i)
        else:
            op = {"obj": obj, "op": rng.choice(SEQ_PROPS)}
        if op["op"] in ("cycles", "load") and rng.random() < 0.25:
            op["container"] = rng.choice(["array", "series"]) if m == 1 else "series"      # an argument object whose integrity is checked
            op["x"] = [op["x"], rng.choice(loads if op["op"] == "cycles" else cycs)]
        ops.append(op)
    return {"t": "seq", "curves": curves, "ops": ops}


class C08(Prop):
    ID = "C08"
    PARALLEL = 8          # impl_lines / oracle are sharded over forked processes by core.pmap
    SOURCES = ["src/pylife/materiallaws/woehlercurve.py", "src/pylife/utils/functions.py",
               "src/pylife/strength/fatigue.py"]
    LEAN_MODULES = ["Proofs.C08", "Proofs.BridgeC08"]
    THEOREMS = [
        "PylifeVerif.C08.load_cycles_inverse",
        "PylifeVerif.C08.cycles_load_inverse",
        "PylifeVerif.C08.cycles_load_endurance",
        "PylifeVerif.C08.knee_branch_consistency",
        "PylifeVerif.C08.cycles_antitone",
        "PylifeVerif.C08.continuous_at_knee",
        "PylifeVerif.C08.cycles_tendsto_knee",
        "PylifeVerif.C08.slope_k1_above",
        "PylifeVerif.C08.slope_k2_below",
        "PylifeVerif.C08.k2_inf_endurance",
        "PylifeVerif.C08.miner_variants",
        "PylifeVerif.C08.miner_variants_above_knee",
        "PylifeVerif.C08.cycles_monotone_in_pf",
        "PylifeVerif.C08.N90_over_N10",
        "PylifeVerif.C08.N90_over_N10_below_knee",
        "PylifeVerif.C08.N90_over_N10_between_knees",
        "PylifeVerif.C08.SD90_over_SD10",
        "PylifeVerif.C08.transform_compose",
        "PylifeVerif.C08.transform_native_id",
        "PylifeVerif.C08.std_range_inverse",
        "PylifeVerif.C08.std_range_literals",
        "PylifeVerif.C08.validate_scatter_consistent",
        "PylifeVerif.C08.broadcast_elementwise",
    ] + ["PylifeVerif.Bridge." + t for t in [      # generated (translated) definitions = hand model
        "scattering_range_to_std_eq", "std_to_scattering_range_eq", "miner_k2_eq"]]
    PARTIAL = {}
    RULE = ("case kinds: 'curve' = one curve (k_1>1; k_2 missing/inf/=k_1/=2k_1-1/>k_1; SD, ND log-uniform or round; "
            "TN/TS missing, one given, both, consistent; native failure probability missing or in (0,1)) x 2-4 target "
            "probabilities (always incl. the native one) x loads (exactly SD, its two neighbours, log grid, near-knee, "
            "random) x cycle numbers (exactly ND, neighbours, grid, random): transform, cycles, load, two-step transform, "
            "the three Miner modifiers, all as scalar calls, a part of them with INTEGER-typed arguments (Python ints) and "
            "integer-typed curve fields (int64 Series); cycles()/load() without a failure probability = 0.5; "
            "'bc' = cycles() AND load() with list / array / Series against one curve and against a DataFrame of curves "
            "(rows of a frame may hold NaN in k_2 = no second slope = infinite life, as a missing k_2; Fatigue.damage of a "
            "labelled load collective against the frame) "
            "(cross product on another index name; aligned on the same index name with the labels in the frame's order, "
            "PERMUTED, a SUBSET, or with a label the frame does not have; positional for arrays), float64 / int64 / int32 / "
            "uint64 / uint32 / Python-int values, one failure probability and one per row of the frame; every broadcast is "
            "compared with the model's map / cross / zip functions AND element by element with the scalar model under the "
            "pairing that label alignment has to produce; 'sc' = scatter conversions and the numeric constants; "
            "'seq' (oracle only) = ONE WoehlerCurve object (Series or frame of curves) kept across a random sequence of cycles / load / "
            "transform_to_failure_probability (few scalar probabilities, repeated) / miner_original / _elementary / _haibach "
            "(chained; calls on the variants interleaved with calls on the original) / SD ND k_1 k_2 TN TS to_pandas(): every "
            "result bit-equal to the same call on a FRESH object built from the original data by the same chain of "
            "constructors, in every order, data and argument objects unchanged; "
            "'ppf' = the driver's normal quantile against scipy. Doubles compared with rtol 1e-11 (inf/NaN exactly). "
            "non-trivial = a target probability differs from the native one or a load lies below the knee; "
            "distinct by full case content")
    ASSUMPTIONS = [
        "C08: scipy.stats.norm.ppf is an abstract function in the theorems (strictly increasing on (0,1), ppf(1-p) = -ppf(p) where a theorem needs it); the driver uses its own Float quantile (A&S 26.2.23 start + Newton on series/continued-fraction CDF), agreement with scipy is measured (<= 1e-13) on every run",
        "C08: the theorems are over the reals with Real.rpow / Real.log; the code's doubles agree with the same formulas in Float to rtol 1e-11 on this run's inputs; float overflow/underflow of ND*(L/SD)^(-k) (result inf or 0 with finite k) is not modelled by the real-number theorems",
        "C08: the literal 0.39015207303618954 is not exactly 1/(2*Phi^-1(0.9)): the TN/TS quantile theorems give the exact exponent 2*z90*c and the identity under the hypothesis 2*z90*c = 1; |2*ppf(0.9)*c - 1| < 1e-15 is checked numerically (scipy and driver), |c*c2 - 1| < 1e-16 for the two literals is proved in Lean",
        "C08: pandas glue (accessor copy, _validate, broadcast to Series/DataFrame, index alignment) is modelled as element-wise map / cross product / zip; alignment BY LABEL is computed by the harness (which value meets which curve) and the paired scalar evaluations are compared with the model and, in the oracle, with scalar calls of the real code; a curve without a value gives NaN; a value whose label has no curve must give NaN (repaired behaviour, finding cycles-label-without-curve-infinite-life)",
        "C08: integer-typed loads / cycle numbers / curve fields mean the same numbers as floats (the oracle demands bit-equal results); unsigned cycle numbers into load() were a recorded defect (load-unsigned-cycles-wraparound, fixed by /repo commit c9a3e4d): the finding being fixed, those inputs go through the correspondence like every other input (only while the class has status open would they be judged by the oracle alone, which then tolerates exactly the reproduced defective value)",
        "C08 'seq' clause: judged are the RESULTS (a kept object against a fresh one, bit for bit) and the values / index labels and order of the data and argument objects; changes that alter no later result (a renamed Series, a dtype, the optional keys that _validate fills into the accessor's own copy) are outside the property and only counted (seq_cosmetic_changes_not_judged)",
        "C08: loads and cycle numbers are positive; for load <= 0 the code returns inf/NaN without raising (outside the theorems' guards)",
        "C08 HARNESS-SIDE READING (k_2 = NaN): a NaN in k_2 (a frame assembled from curves with and without the key holds NaN there) is read as 'no second slope' = infinity, like a missing k_2 (class docstring of WoehlerCurve): the harness function `k2_of` maps a missing, an 'inf' and a 'nan' k_2 to +inf BEFORE the curve reaches the model, so the Lean model never sees a NaN slope and the theorems say nothing about one; the real code is fed the NaN itself, and correspondence and oracle demand the infinite life of a curve without second slope below the knee (finding cycles-nan-k2-not-infinite, a regression of 7867a83 repaired by /repo commit c54eae5)",
    ]

    # tie T (DESIGN 1.1): lean/Generated/<name>.lean are regenerated from the current python source before the build;
    # Proofs.BridgeC08 proves them equal to the hand model the property theorems are about
    TRANSLATED = ["Functions", "WoehlerCurve"]

    def setup(self, log):
        import os
        import sys
        tdir = os.path.join(core.VERIF, "translate")
        sys.path.insert(0, tdir)
        try:
            import translate as T
            ok, msg = T.run_modules(self.TRANSLATED, core.REPO, core.LEAN)
        except Exception as e:      # the translator itself is broken: every bridge obligation counts as broken
            ok, msg = False, f"translator crashed: {type(e).__name__}: {e}"
            for n in self.TRANSLATED:
                with open(os.path.join(core.LEAN, "Generated", n + "Status.lean"), "w") as f:
                    f.write('#eval (throw (IO.userError "translator crashed") : IO Unit)\n')
        finally:
            sys.path.remove(tdir)
        self.stats["translator"] = msg
        log(("translator: " + msg) if ok else ("TRANSLATOR FAILED (broken proof obligation): " + msg))
        if not ok:
            log("the translator cannot express the current source of scattering_range_to_std / std_to_scattering_range / the "
                "Miner modifiers: the bridge theorems (generated = hand model) are NOT checked; the correspondence run uses the "
                "hand-written Model/Woehler.lean (never a stale generated file) and, like the direct oracle, still judges the code")

    def __init__(self):
        self.exhaustive = False
        self.stats = {"kinds": {}, "k2": {}, "scatter_keys": {}, "native_pf_missing": 0, "loads_at_SD": 0,
                      "loads_below_knee": 0, "loads_above_knee": 0, "cycles_at_ND": 0, "infinite_life_results": 0,
                      "bc_modes": {}, "bc_dtypes": {}, "bc_label_order": {}, "known_finding_hits": {}, "impl_errors": {}, "overflow_or_underflow_skipped": 0, "pf_extreme": 0,
                      "accessor": {}}
        self._fn = None
        self._unsigned_open = any(e.get("class") == K_UNSIGNED and e.get("status") == "open" for e in core.load_known("C08"))

    # -------------------------------------------------------------- generation
    def _count(self, key, sub):
        d = self.stats[key]
        d[sub] = d.get(sub, 0) + 1

    def generate(self, rng, tier):
        quick = tier == "quick"
        # deterministic log grid (curves x probabilities x loads incl. exactly SD and ND)
        for k1 in ([3.0, 5.0] if quick else [1.5, 3.0, 5.0, 8.0]):
            for k2 in ["inf", k1, 2 * k1 - 1]:
                for (TN, TS) in [(None, None), (4.0, None), (None, 1.25), (4.0, 1.25)]:
                    for pf0 in [None, 0.1]:
                        SD, ND = 100.0, 1e6
                        yield {"t": "curve", "k1": k1, "k2": k2, "SD": SD, "ND": ND, "TN": TN, "TS": TS, "pf0": pf0,
                               "pfs": [0.1, 0.5, 0.9], "loads": [SD * 10.0 ** (j / 4.0) for j in range(-4, 5)],
                               "cycles": [ND * 10.0 ** (j / 2.0) for j in range(-4, 5)], "src": "grid"}
        n_curve = 240 if quick else 2000
        for i in range(n_curve):
            c = gen_curve(rng)
            c["t"] = "curve"
            c["src"] = "random"
            if rng.random() < 0.25:
                c["acc"] = "fatigue"
            pfs = [native_pf(c)]
            for _ in range(rng.choice([1, 2, 3])):
                pfs.append(gen_pf(rng))
            rng.shuffle(pfs)
            c["pfs"] = pfs
            c["loads"] = gen_loads(rng, c["SD"], rng.choice([2, 4, 6]))
            c["cycles"] = gen_loads(rng, c["ND"], rng.choice([2, 4]))
            yield c
        # the same evaluation with integer-typed arguments (Python ints) and integer-typed curve fields: the code has a
        # conversion of its own for them (`ensure_float_to_prevent_int_overflow`)
        for i in range(40 if quick else 300):
            c = gen_int_curve(rng)
            c.update({"t": "curve", "src": "ints", "ints": True, "int_fields": rng.random() < 0.6})
            pfs = [native_pf(c)] + [gen_pf(rng) for _ in range(rng.choice([1, 2]))]
            rng.shuffle(pfs)
            c["pfs"] = pfs
            c["loads"] = gen_int_values(rng, c["SD"], rng.choice([2, 4]), 5)
            c["cycles"] = gen_int_values(rng, c["ND"], rng.choice([2, 3]), 100)
            yield c
        n_bc = 150 if quick else 900
        for i in range(n_bc):
            mode = rng.choice(BC_MODES)
            n = rng.choice([1, 2, 3, 4])
            ints = rng.random() < 0.3
            mk_curve = gen_int_curve if ints else gen_curve
            if mode in FRAME_MODES:
                m = rng.choice([1, 2, 3])
                base = mk_curve(rng)
                curves = []
                for _ in range(m):
                    c = mk_curve(rng)
                    # a frame has the same columns in every row
                    for key in ("TN", "TS", "pf0", "k2"):
                        if base.get(key) is None:
                            c[key] = None
                        elif c.get(key) is None:
                            c[key] = base[key]
                    if c.get("k2") is not None and m > 1 and rng.random() < 0.3:
                        c["k2"] = "nan"      # this row has no second slope: NaN in the frame's k_2 column = infinite life
                    curves.append(c)
                if mode not in ("cross", "lcross"):
                    n = m
            else:
                curves = [mk_curve(rng)]
            ref = curves[rng.randrange(len(curves))]
            if mode in LOAD_MODES:
                if ints:
                    vals = gen_int_values(rng, ref["ND"], n, 100)
                else:
                    vals = gen_loads(rng, ref["ND"], n) if rng.random() < 0.5 else \
                        [ref["ND"] * loguni(rng, 0.01, 100.0) for _ in range(n + 3)]
            else:
                vals = gen_int_values(rng, ref["SD"], n, 5) if ints else gen_loads(rng, ref["SD"], n)
            rng.shuffle(vals)
            vals = vals[:max(n, 1)]
            pf = rng.choice([0.5, native_pf(ref), gen_pf(rng)])
            case = {"t": "bc", "mode": mode, "curves": curves, "vals": vals, "pf": pf}
            if ints:
                big = max(vals) >= 2 ** 31
                case["dtype"] = rng.choice(["int64", "int64", "pyint", "uint64"] + ([] if big else ["int32", "uint32"]))
                for c in curves:
                    c["int_fields"] = case["dtype"] != "uint64" and rng.random() < 0.5
            if mode in ("zip_series", "lzip_series"):
                # the loads carry the labels of the frame's index: in the frame's order, permuted, only some of them,
                # or with a label the frame does not have (aligned by label, never by position)
                labels = [3 * j + 2 for j in range(len(curves))]
                how = rng.choice(["same", "permuted", "permuted", "subset", "superset"])
                if how != "same":
                    rng.shuffle(labels)
                if how == "subset" and len(labels) > 1:
                    labels = labels[:rng.randrange(1, len(labels))]
                elif how == "superset":
                    labels.insert(rng.randrange(len(labels) + 1), 3 * len(curves) + 2)
                scale = ref["ND"] if mode == "lzip_series" else ref["SD"]
                while len(vals) < len(labels):
                    vals.append(float(int(scale * rng.uniform(0.3, 3.0)) + 1) if ints else scale * loguni(rng, 0.3, 3.0))
                case["vals"] = vals[:len(labels)]
                case["labels"] = labels
                case["label_order"] = how
            if mode in FRAME_MODES and mode not in ("cross", "lcross"):
                # a failure probability per row of the frame (array parameter against a DataFrame signal)
                case["pf_rows"] = [rng.choice([pf, gen_pf(rng)]) for _ in curves]
            yield case
        n_sc = 40 if quick else 400
        for i in range(n_sc):
            yield {"t": "sc", "T": rng.choice([1.0, 1.0 + loguni(rng, 1e-6, 100.0)]),
                   "s": rng.choice([0.0, loguni(rng, 1e-6, 2.0)])}
        # ONE accessor object kept across a sequence of calls (oracle only): see _oracle_seq
        for i in range(120 if quick else 1200):
            yield gen_seq(rng)
        n_ppf = 60 if quick else 2000
        for i in range(n_ppf):
            yield {"t": "ppf", "p": gen_pf(rng) if rng.random() < 0.5 else rng.choice(
                [loguni(rng, 1e-15, 0.5), 1.0 - loguni(rng, 1e-15, 0.5)])}

    # -------------------------------------------------------------- correspondence: model side
    def model_lines(self, case):
        t = case["t"]
        if t == "curve":
            tok = curve_tokens(case)
            pfs, loads, cyc = case["pfs"], case["loads"], case["cycles"]
            lines = [f"wc tr {tok} {f2h(p)}" for p in pfs]
            lines += [f"wc cyc {tok} {f2h(p)} {f2h(L)}" for p in pfs for L in loads]
            lines += [f"wc load {tok} {f2h(p)} {f2h(N)}" for p in pfs for N in cyc]
            lines += [f"wc tr2 {tok} {f2h(p)} {f2h(q)}" for p, q in zip(pfs, pfs[1:])]
            lines += [f"wc miner {k} {tok}" for k in ("orig", "elem", "haib")]
            return lines
        if t == "bc":
            toks = " ".join(curve_tokens(c) for c in case["curves"])
            vals = " ".join(f2h(v) for v in case["vals"])
            mode = case["mode"]
            if self._bc_known_defect_input(case):
                return []          # oracle only while K_UNSIGNED is open (it is fixed by c9a3e4d: never taken today)
            lines = []
            # the model's own broadcast functions (element-wise map / cross product / zip)
            if mode in ("series", "array", "list"):
                lines.append(f"wc cycs {toks} {f2h(case['pf'])} {vals}")
            elif mode in ("lseries", "larray", "llist"):
                lines.append(f"wc loads {toks} {f2h(case['pf'])} {vals}")
            elif mode == "cross":
                lines.append(f"wc cross {len(case['curves'])} {toks} {f2h(case['pf'])} {vals}")
            elif mode == "zip_array" or (mode == "zip_series" and case.get("label_order", "same") == "same"):
                lines.append(f"wc zip {len(case['curves'])} {toks} {f2h(case['pf'])} {vals}")
            # ... and element by element, with the pairing (curve, value) that label alignment has to produce
            op = "load" if mode in LOAD_MODES else "cyc"
            for _key, ci, v in self._bc_elements(case):
                if ci is not None and v is not None:
                    lines.append(f"wc {op} {curve_tokens(case['curves'][ci])} {f2h(case['pf'])} {f2h(v)}")
            if case.get("pf_rows"):
                for _key, ci, v in self._bc_elements(case):
                    if ci is not None and v is not None:
                        lines.append(f"wc {op} {curve_tokens(case['curves'][ci])} {f2h(case['pf_rows'][ci])} {f2h(v)}")
            return lines
        if t == "sc":
            return [f"wc r2s {f2h(case['T'])}", f"wc s2r {f2h(case['s'])}", "wc consts"]
        if t == "ppf":
            return [f"wc ppf {f2h(case['p'])}"]
        return []

    # -------------------------------------------------------------- correspondence: implementation side
    def _frame(self, curves):
        rows = [curve_series(c) for c in curves]
        df = pd.DataFrame(rows, index=pd.Index([3 * i + 2 for i in range(len(rows))], name="curve"))
        if all(c.get("int_fields") and int_fields_possible(c) for c in curves):
            df = df.astype("int64")      # a frame typed in as integers
        return df

    def _bc_signal(self, case):
        """(pandas object the user holds, accessor) of a broadcast case, built afresh."""
        curves = case["curves"]
        if case["mode"] not in FRAME_MODES:
            obj = curve_series(curves[0])
            return obj, accessor(curves[0], obj)
        df = self._frame(curves)
        return df, df.woehler

    @staticmethod
    def _bc_container(case):
        """the values in the container type / dtype the case asks for"""
        vals, dt = case["vals"], case.get("dtype")
        if dt == "pyint":
            return [int(v) for v in vals]
        if dt:
            return np.array([int(v) for v in vals], dtype=dt)
        return [float(v) for v in vals]

    def _bc_known_defect_input(self, case):
        """unsigned cycle numbers into load(): a recorded defect of the unchanged tree (K_UNSIGNED, fixed by /repo commit
        c9a3e4d).  While the finding is OPEN these inputs are judged by the oracle only (it reproduces the defective
        computation and tolerates exactly that); KNOWN_FINDINGS.jsonl says `fixed` today, so this returns False and they
        run through the correspondence like every other input."""
        return self._unsigned_open and str(case.get("dtype", "")).startswith("uint") and case["mode"] in LOAD_MODES

    def _bc_raw(self, case, w, pf=None):
        """The broadcast call on the real code: the raw result."""
        mode, vals = case["mode"], self._bc_container(case)
        pf = float(case["pf"]) if pf is None else pf
        fn = w.load if mode in LOAD_MODES else w.cycles
        idx = pd.Index([10 + 2 * i for i in range(len(vals))], name="x")
        if mode in ("series", "cross", "lseries", "lcross"):
            return fn(pd.Series(vals, index=idx), pf)
        if mode in ("array", "zip_array", "larray", "lzip_array"):
            return fn(np.asarray(vals), pf)
        if mode in ("list", "llist"):
            return fn([x.item() if hasattr(x, "item") else x for x in vals], pf)
        if mode in ("zip_series", "lzip_series"):
            labels = case.get("labels") or [3 * i + 2 for i in range(len(case["curves"]))]
            return fn(pd.Series(vals, index=pd.Index(labels, name="curve")), pf)
        raise ValueError(mode)

    @staticmethod
    def _bc_elements(case):
        """What the call means element by element: [(key in the result, position of the curve or None, value or None)]
        in a canonical order.  Series against a frame on the same index name are paired BY LABEL; a curve without a value
        and a value without a curve have no element-wise evaluation."""
        mode, vals, m = case["mode"], case["vals"], len(case["curves"])
        xs = [10 + 2 * i for i in range(len(vals))]
        frame = [3 * i + 2 for i in range(m)]
        if mode in ("series", "lseries"):
            return [(x, 0, v) for x, v in zip(xs, vals)]
        if mode in ("array", "list", "larray", "llist"):
            return [(i, 0, v) for i, v in enumerate(vals)]
        if mode in ("cross", "lcross"):
            return [((c, x), ci, v) for ci, c in enumerate(frame) for x, v in zip(xs, vals)]
        if mode in ("zip_array", "lzip_array"):
            return [(i, i, v) for i, v in enumerate(vals)]
        labels = case.get("labels") or frame
        out = [(c, ci, vals[labels.index(c)] if c in labels else None) for ci, c in enumerate(frame)]
        out += [(l, None, v) for l, v in zip(labels, vals) if l not in frame]
        return out

    def _bc_flat(self, case, w, r):
        """the result's numbers in the order of `_bc_elements`; raises AssertionError (with a description) when the
        result does not have the container type / index the call has to produce"""
        mode = case["mode"]
        keys = [k for k, _ci, _v in self._bc_elements(case)]
        if mode in ("series", "lseries", "cross", "lcross", "zip_series", "lzip_series"):
            assert isinstance(r, pd.Series), f"the result is a {type(r).__name__}, not a Series"
            assert len(r) == len(keys) and set(r.index) == set(keys), \
                f"the result's index is {list(r.index)!r}, expected the labels {keys!r}"
            want_names = {"series": ["x"], "lseries": ["x"], "cross": ["curve", "x"], "lcross": ["curve", "x"]}.get(mode, ["curve"])
            assert list(r.index.names) == want_names, f"the result's index names are {list(r.index.names)!r}, expected {want_names!r}"
            assert r.dtype == np.float64, f"the result's dtype is {r.dtype}"
            return [float(r[k]) for k in keys]
        a = np.asarray(r)
        assert not isinstance(r, (pd.Series, pd.DataFrame)), f"the result is a {type(r).__name__}, not an array"
        assert a.dtype == np.float64, f"the result's dtype is {a.dtype}"
        assert a.size == len(keys), f"the result has {a.size} entries, the call {len(keys)} elements"
        return [float(x) for x in a.reshape(-1)]

    def _bc_impl(self, case, pf=None):
        _user, w = self._bc_signal(case)
        return self._bc_flat(case, w, self._bc_raw(case, w, pf))

    def impl_lines(self, case):
        fn = _wc()
        t = case["t"]
        self._count("kinds", t)
        if t == "curve":
            self._count("k2", "missing" if case.get("k2") is None else "inf" if case["k2"] == "inf" else "nan" if case["k2"] == "nan" else
                        "=k1" if case["k2"] == case["k1"] else "haibach" if case["k2"] == 2 * case["k1"] - 1 else "other")
            self._count("scatter_keys", ("TN" if case.get("TN") is not None else "") + ("TS" if case.get("TS") is not None else "") or "none")
            self._count("accessor", case.get("acc", "woehler"))
            if case.get("pf0") is None:
                self.stats["native_pf_missing"] += 1
            s = curve_series(case)
            w = accessor(case, s)
            pfs, loads, cyc = case["pfs"], case["loads"], case["cycles"]
            self.stats["loads_at_SD"] += sum(1 for L in loads if L == case["SD"])
            self.stats["cycles_at_ND"] += sum(1 for N in cyc if N == case["ND"])
            self.stats["pf_extreme"] += sum(1 for p in pfs if p < 1e-5 or p > 1 - 1e-5)
            out = [guarded(lambda: canon_curve(w.transform_to_failure_probability(p).to_pandas())) for p in pfs]
            if case.get("ints"):
                self.stats["curve_cases_integer_typed"] = self.stats.get("curve_cases_integer_typed", 0) + 1
                if s.dtype.kind == "i":
                    self.stats["curve_cases_int64_series"] = self.stats.get("curve_cases_int64_series", 0) + 1
            for p in pfs:
                for L in loads:
                    r = guarded(lambda: f2h(fl(w.cycles(as_arg(case, L), p))))
                    out.append(r)
                    if r == f2h(INF):
                        self.stats["infinite_life_results"] += 1
            out += [guarded(lambda: f2h(fl(w.load(as_arg(case, N), p)))) for p in pfs for N in cyc]
            out += [guarded(lambda: canon_curve(
                w.transform_to_failure_probability(p).transform_to_failure_probability(q).to_pandas()))
                for p, q in zip(pfs, pfs[1:])]
            out += [guarded(lambda: canon_curve(getattr(w, m)().to_pandas()))
                    for m in ("miner_original", "miner_elementary", "miner_haibach")]
            for o in out:
                if o.startswith("error:"):
                    self._count("impl_errors", o)
            return out
        if t == "bc":
            self._count("bc_modes", case["mode"])
            self._count("bc_dtypes", case.get("dtype") or "float64")
            if case.get("labels") is not None:
                self._count("bc_label_order", case.get("label_order", "same"))
            if self._bc_known_defect_input(case):
                return []
            n_model = len(self.model_lines(case))
            try:
                got = self._bc_impl(case)
            except Exception as e:
                r = "error:" + type(e).__name__
                self._count("impl_errors", r)
                return [r] * n_model
            els = self._bc_elements(case)
            paired = [g for g, (_k, ci, v) in zip(got, els) if ci is not None and v is not None]
            mode = case["mode"]
            out = []
            if mode in ("series", "array", "list", "lseries", "larray", "llist", "cross", "zip_array") or \
                    (mode == "zip_series" and case.get("label_order", "same") == "same"):
                out.append(" ".join(f2h(x) for x in got))
            out += [f2h(x) for x in paired]
            if case.get("pf_rows"):
                try:
                    got2 = self._bc_impl(case, np.array(case["pf_rows"], dtype=np.float64))
                    out += [f2h(g) for g, (_k, ci, v) in zip(got2, els) if ci is not None and v is not None]
                except Exception as e:
                    out += ["error:" + type(e).__name__] * len(paired)
            return out
        if t == "sc":
            import scipy.stats as st
            z90 = float(st.norm.ppf(0.9))
            return [f2h(fn.scattering_range_to_std(case["T"])), f2h(fn.std_to_scattering_range(case["s"])),
                    " ".join(f2h(x) for x in (2.0 * z90 * C_RANGE - 1.0, C_RANGE * 2.5631031310892007 - 1.0,
                                               2.5631031310892007 - 2.0 * z90))]
        if t == "ppf":
            import scipy.stats as st
            return [f2h(float(st.norm.ppf(case["p"])))]
        return []

    def compare(self, case, model_out, impl_out):
        if len(model_out) != len(impl_out):
            return f"length {len(model_out)} vs {len(impl_out)}"
        t = case["t"]
        for i, (a, b) in enumerate(zip(model_out, impl_out)):
            if a == b:
                continue
            ta, tb = a.split(), b.split()
            if len(ta) != len(tb):
                return f"line {i}: model={a[:300]!r} impl={b[:300]!r}"
            for x, y in zip(ta, tb):
                if x == y:
                    continue
                try:
                    fx, fy = h2f(x), h2f(y)
                except Exception:
                    return f"line {i}: model={a[:300]!r} impl={b[:300]!r}"
                if t == "ppf":
                    ok = close(fx, fy, rtol=1e-13, atol=1e-13)
                elif t == "sc" and i == 2:
                    # the numeric facts |2*z90*c - 1| < 1e-15 etc.: both sides must be tiny
                    ok = abs(fx) < 2e-15 and abs(fy) < 2e-15
                else:
                    ok = close(fx, fy, rtol=1e-11)
                if not ok:
                    return f"line {i}: model={fx!r} impl={fy!r} (case kind {t})"
        return None

    def nontrivial(self, case, model_out):
        t = case["t"]
        if t == "curve":
            nat = native_pf(case)
            if any(p != nat for p in case["pfs"]) or any(L < case["SD"] for L in case["loads"]):
                return json.dumps(case, sort_keys=True)
            return None
        if t == "bc":
            return json.dumps(case, sort_keys=True) if len(case["vals"]) * len(case["curves"]) > 1 else None
        return json.dumps(case, sort_keys=True)

    # -------------------------------------------------------------- the property's own relations on the real code
    def oracle(self, case):
        t = case["t"]
        if t == "curve":
            return self._oracle_curve(case)
        if t == "bc":
            return self._oracle_bc(case)
        if t == "sc":
            return self._oracle_sc(case)
        if t == "seq":
            return self._oracle_seq(case)
        return None

    # -------------------------------------------------------------- ONE object kept across a sequence of calls
    def _seq_user(self, case):
        curves = case["curves"]
        if len(curves) == 1:
            obj = curve_series(curves[0])
            return obj, accessor(curves[0], obj)
        df = self._frame(curves)
        return df, df.woehler

    @staticmethod
    def _seq_arg(op):
        x = op["x"]
        if op.get("container") == "array":
            return np.array([float(v) for v in x])
        if op.get("container") == "series":
            return pd.Series([float(v) for v in x], index=pd.Index([10, 12], name="x"))
        return float(x)

    @staticmethod
    def _seq_apply(target, op, arg=None):
        """(canonical result, new object or None) of one op on `target`"""
        name = op["op"]
        if name in ("cycles", "load"):
            return bits(getattr(target, name)(arg, float(op["pf"]))), None
        if name == "transform":
            new = target.transform_to_failure_probability(float(op["pf"]))
            return (type(new).__name__, bits(new.to_pandas())), new
        if name in SEQ_MINER:
            new = getattr(target, name)()
            return (type(new).__name__, bits(new.to_pandas())), new
        if name == "to_pandas":
            return bits(target.to_pandas()), None
        return bits(getattr(target, name)), None

    def _oracle_seq(self, case):
        """Every result of a call on a kept object (the accessor, a Miner variant of it, a transformed curve, chains of
        them) equals the result of the same call on a FRESH object built from the original data by the same chain of
        constructors - whatever was called before, on this object or on its relatives; and no call alters the data the
        accessor was built from or an argument object."""
        _wc()
        ops = case["ops"]
        user, root = self._seq_user(case)
        user0 = user.copy(deep=True)
        kept = {-1: root}
        recipe = {-1: []}                      # object id -> the constructor ops that lead to it from the data
        said = []
        self._count("kinds", "seq")
        for i, op in enumerate(ops):
            src = op["obj"]
            if src not in kept:
                continue                        # (after shrinking) the op that made this object is gone
            said.append(f"#{i} obj{src if src >= 0 else ''}.{op['op']}(" + ", ".join(
                repr(op[k]) for k in ("x", "pf") if k in op) + ")")
            arg = self._seq_arg(op) if "x" in op else None
            arg0 = arg.copy() if hasattr(arg, "copy") else arg
            got, new = self._seq_apply(kept[src], op, arg)
            # the same call on a fresh object
            _fu, fresh = self._seq_user(case)
            for c in recipe[src]:
                fresh = self._seq_apply(fresh, c)[1]
            want, _fn = self._seq_apply(fresh, op, self._seq_arg(op) if "x" in op else None)
            if got != want:
                return (f"the result of call {said[-1]} on a kept WoehlerCurve object differs from the same call on a fresh object "
                        f"built from the same data ({got[-1] if isinstance(got[-1], tuple) else got} vs {want[-1] if isinstance(want[-1], tuple) else want}, "
                        f"bit patterns); calls so far: {'; '.join(said)}; object {src} was made by "
                        f"{[c['op'] for c in recipe[src]] or 'series.woehler'}; curves={case['curves']!r}", "object-history-dependent")
            if arg0 is not None and hasattr(arg0, "copy"):
                same = (content_diff(arg, arg0) is None) if isinstance(arg, pd.Series) else bits(arg) == bits(arg0)
                if same and isinstance(arg, pd.Series) and pandas_diff(arg, arg0) is not None:
                    self.stats["seq_cosmetic_changes_not_judged"] = self.stats.get("seq_cosmetic_changes_not_judged", 0) + 1
                if not same:
                    return (f"call {said[-1]} altered its argument object; curves={case['curves']!r}", "argument-altered")
            if new is not None:
                kept[i] = new
                recipe[i] = recipe[src] + [op]
            d = content_diff(user, user0)
            if d is None and pandas_diff(user, user0) is not None:
                # a name / dtype change that alters no later result: outside the property, counted only
                self.stats["seq_cosmetic_changes_not_judged"] = self.stats.get("seq_cosmetic_changes_not_judged", 0) + 1
            if d is not None:
                return (f"call {said[-1]} altered the pandas object the accessor was created from ({d}); calls so far: "
                        f"{'; '.join(said)}; curves={case['curves']!r}", "signal-altered")
        self.stats["seq_ops"] = self.stats.get("seq_ops", 0) + len(said)
        return None

    def _oracle_curve(self, case):
        _wc()
        s = curve_series(case)
        snapshot = s.copy(deep=True)
        w = accessor(case, s)
        base = w.to_pandas().copy(deep=True)
        k1, k2 = float(base.k_1), float(base.k_2)
        if k2 != k2:
            k2 = INF          # a NaN second slope = no second slope = perfect endurance, in cycles, load and damage
            self.stats["curves_with_nan_k2"] = self.stats.get("curves_with_nan_k2", 0) + 1
        nat = float(base.failure_probability)
        TN, TS = float(base.TN), float(base.TS)
        tag = f"k1={k1!r} k2={('nan (no second slope = inf)' if case.get('k2') == 'nan' else repr(k2))} SD={case['SD']!r} ND={case['ND']!r} TN={case.get('TN')!r} TS={case.get('TS')!r} pf0={case.get('pf0')!r}"

        # ---- no evaluation alters the curve; evaluations are repeatable (every target probability, every kind of call)
        def make():
            obj = curve_series(case)
            return obj, accessor(case, obj)
        L0 = (case["loads"][0] if case["loads"] else 1.3 * case["SD"])
        N0 = (case["cycles"][0] if case["cycles"] else 0.7 * case["ND"])
        ops = []
        for i, p in enumerate(case["pfs"]):
            ops.append((f"transform_to_failure_probability({p!r})", lambda a, p=p: a.transform_to_failure_probability(p).to_pandas()))
            if i % 2 == 0 or len(case["pfs"]) == 1:
                ops.append((f"cycles({L0!r}, {p!r})", lambda a, p=p: a.cycles(L0, p)))
            if i % 2 == 1 or len(case["pfs"]) == 1:
                ops.append((f"load({N0!r}, {p!r})", lambda a, p=p: a.load(N0, p)))
        res = evaluation_leaves_signal_alone(make, ops, tag)
        if res is not None:
            return res

        def cyc(L, p):
            return fl(w.cycles(as_arg(case, L), p))

        def lod(N, p):
            return fl(w.load(as_arg(case, N), p))

        # ---- the default failure probability of cycles() / load() is 0.5 (NOT the curve's native one)
        for L in case["loads"][:2]:
            a, b = fl(w.cycles(as_arg(case, L))), cyc(L, 0.5)
            if f2h(a) != f2h(b):
                return (f"cycles({L!r}) without a failure probability = {a!r}, cycles({L!r}, 0.5) = {b!r}; {tag}", "default-probability")
        for N in case["cycles"][:2]:
            a, b = fl(w.load(as_arg(case, N))), lod(N, 0.5)
            if f2h(a) != f2h(b):
                return (f"load({N!r}) without a failure probability = {a!r}, load({N!r}, 0.5) = {b!r}; {tag}", "default-probability")
        # ---- integer-typed arguments / curve fields give the numbers of the same values as floats
        if case.get("ints"):
            wf = accessor(case, curve_series({**case, "int_fields": False}))
            for p in case["pfs"]:
                for L in case["loads"]:
                    a, b = cyc(L, p), fl(wf.cycles(float(L), p))
                    if f2h(a) != f2h(b):
                        return (f"cycles({as_arg(case, L)!r}, {p!r}) with integer-typed input = {a!r}, with the same values as "
                                f"floats = {b!r} (curve fields {dict(s)!r}); {tag}", "integer-input")
                for N in case["cycles"]:
                    a, b = lod(N, p), fl(wf.load(float(N), p))
                    if f2h(a) != f2h(b):
                        return (f"load({as_arg(case, N)!r}, {p!r}) with integer-typed input = {a!r}, with the same values as "
                                f"floats = {b!r} (curve fields {dict(s)!r}); {tag}", "integer-input")

        # ---- _validate: TN/TS semantics
        if case.get("TN") is None and case.get("TS") is None:
            if TN != 1.0 or TS != 1.0:
                return (f"missing TN and TS must mean no scatter, got TN={TN} TS={TS}; {tag}", "scatter-defaults")
        elif case.get("TS") is None:
            if not close(TS ** k1, TN, 1e-12):
                return (f"TS derived from TN is not TN^(1/k_1): TS={TS} TN={TN}; {tag}", "scatter-defaults")
        elif case.get("TN") is None:
            if not close(TN, TS ** k1, 1e-12):
                return (f"TN derived from TS is not TS^k_1: TS={TS} TN={TN}; {tag}", "scatter-defaults")
        if nat != native_pf(case):
            return (f"native failure probability {nat} instead of {native_pf(case)}; {tag}", "scatter-defaults")

        per_pf = {}
        for p in case["pfs"]:
            tp = w.transform_to_failure_probability(p).to_pandas()
            SDp, NDp = float(tp.SD), float(tp.ND)
            per_pf[p] = (SDp, NDp)
            for f in ("k_1", "k_2", "TN", "TS"):
                if f2h(float(tp[f])) != f2h(float(base[f])):
                    return (f"transform to pf={p!r} changed {f}; {tag}", "transform-fields")
            if float(tp.failure_probability) != p:
                return (f"transform to pf={p!r} reports failure_probability {float(tp.failure_probability)!r}; {tag}", "transform-fields")
            # native probability: identity
            if p == nat and not (close(SDp, float(base.SD), 1e-12) and close(NDp, float(base.ND), 1e-12)):
                return (f"transform to the native probability {p!r} is not the identity: SD {base.SD!r}->{SDp!r}, ND {base.ND!r}->{NDp!r}; {tag}", "transform-native-id")
            # knee: both branches give ND at SD
            if not close(cyc(SDp, p), NDp, 1e-12):
                return (f"cycles(SD_pf)={cyc(SDp, p)!r} != ND_pf={NDp!r} at pf={p!r}; {tag}", "knee")
            if not close(lod(NDp, p), SDp, 1e-12):
                return (f"load(ND_pf)={lod(NDp, p)!r} != SD_pf={SDp!r} at pf={p!r}; {tag}", "knee")
            below = float(np.nextafter(SDp, 0.0))
            nb = cyc(below, p)
            if math.isinf(k2):
                if nb != INF:
                    return (f"k_2=inf but cycles just below SD_pf is {nb!r} at pf={p!r}; {tag}", "endurance")
            elif not close(nb, NDp, 1e-9):
                return (f"not continuous at the knee: cycles(SD_pf - 1ulp)={nb!r}, ND_pf={NDp!r}, pf={p!r}; {tag}", "knee")
            loads = list(case["loads"]) + [SDp, float(np.nextafter(SDp, INF)), below]
            res = []
            for L in loads:
                N = cyc(L, p)
                res.append((L, N))
                if L < SDp:
                    self.stats["loads_below_knee"] += 1
                else:
                    self.stats["loads_above_knee"] += 1
                # branch consistency  L >= SD  <=>  N <= ND   (1e-12 slack for rounding at the knee)
                if L >= SDp and not N <= NDp * (1 + 1e-12):
                    return (f"load {L!r} >= SD_pf={SDp!r} but cycles {N!r} > ND_pf={NDp!r} (pf={p!r}); {tag}", "knee-branch")
                if L < SDp and not N >= NDp * (1 - 1e-12):
                    return (f"load {L!r} < SD_pf={SDp!r} but cycles {N!r} < ND_pf={NDp!r} (pf={p!r}); {tag}", "knee-branch")
                if L < SDp and math.isinf(k2) and N != INF:
                    return (f"k_2=inf, load {L!r} < SD_pf={SDp!r} but cycles {N!r} finite (pf={p!r}); {tag}", "endurance")
                if N != N:
                    return (f"cycles({L!r}, {p!r}) is NaN; {tag}", "nan")
                finite_expected = L >= SDp or math.isfinite(k2)
                if not math.isfinite(N) or N < 1e-290:
                    if finite_expected:
                        self.stats["overflow_or_underflow_skipped"] += 1
                    continue
                if not finite_expected:
                    continue
                L2 = lod(N, p)
                if not close(L2, L, 1e-9):
                    return (f"load(cycles(L)) != L: L={L!r} N={N!r} back={L2!r} pf={p!r}; {tag}", "inverse-load-cycles")
            for N in list(case["cycles"]) + [NDp, float(np.nextafter(NDp, INF)), float(np.nextafter(NDp, 0.0))]:
                L = lod(N, p)
                if L != L:
                    return (f"load({N!r}, {p!r}) is NaN; {tag}", "nan")
                if N > NDp and math.isinf(k2):
                    if not close(L, SDp, 1e-12):
                        return (f"k_2=inf, cycles {N!r} > ND_pf but load {L!r} != SD_pf={SDp!r} (pf={p!r}); {tag}", "endurance")
                    continue
                if N <= NDp and not L >= SDp * (1 - 1e-12):
                    return (f"cycles {N!r} <= ND_pf={NDp!r} but load {L!r} < SD_pf={SDp!r} (pf={p!r}); {tag}", "knee-branch")
                if N > NDp and not L <= SDp * (1 + 1e-12):
                    return (f"cycles {N!r} > ND_pf={NDp!r} but load {L!r} > SD_pf={SDp!r} (pf={p!r}); {tag}", "knee-branch")
                if not (math.isfinite(L) and L > 1e-290):
                    self.stats["overflow_or_underflow_skipped"] += 1
                    continue
                N2 = cyc(L, p)
                if math.isinf(k2) and close(N, NDp, 1e-9):
                    ok = N2 == INF or close(N2, N, 1e-8)   # one rounding below SD gives infinite life: accepted at the knee only
                else:
                    ok = close(N2, N, 1e-8 if max(k1, k2 if math.isfinite(k2) else 0) > 40 else 1e-9)
                if not ok:
                    return (f"cycles(load(N)) != N: N={N!r} L={L!r} back={N2!r} pf={p!r}; {tag}", "inverse-cycles-load")
            # antitone in load
            res.sort()
            for (La, Na), (Lb, Nb) in zip(res, res[1:]):
                if not Nb <= Na * (1 + 1e-12) and not (Na == INF):
                    return (f"cycles not non-increasing in load: N({La!r})={Na!r} < N({Lb!r})={Nb!r} pf={p!r}; {tag}", "antitone")
            # slopes
            for (La, Na), (Lb, Nb) in zip(res, res[1:]):
                if not (math.isfinite(Na) and math.isfinite(Nb) and Na > 1e-290 and Nb > 1e-290 and La > 0):
                    continue
                if math.log(Lb / La) < 1e-3:
                    continue
                if La >= SDp:
                    k = k1
                elif Lb < SDp:
                    k = k2
                else:
                    continue
                slope = math.log(Na / Nb) / math.log(Lb / La)
                if not close(slope, k, 1e-6):
                    return (f"log-log slope between loads {La!r} and {Lb!r} is {slope!r}, expected {k!r} (pf={p!r}); {tag}", "slope")
        # ---- the scatter law in closed form, at every probability in (0,1) including the far tails: the curve at pf
        # is the native one shifted by (z_pf - z_native) standard deviations, where TS and TN are the 10 %-90 % ratios
        # (z from scipy directly, not through the code under test); the knee moves in load by TS^e and along the life axis
        # by TN^e, then back along the k_1 line to the new SD - the same closed form Model/Woehler.lean states
        from scipy import stats as st
        z90 = float(st.norm.ppf(0.9))
        znat = float(st.norm.ppf(nat))
        for p, (SDp, NDp) in per_pf.items():
            e = (float(st.norm.ppf(p)) - znat) / (2.0 * z90)
            wantS, wantN = float(base.SD) * TS ** e, float(base.ND) * TN ** e * TS ** (-e * k1)
            if math.isfinite(wantS) and wantS > 1e-290 and not close(SDp, wantS, 1e-9):
                return (f"SD at pf={p!r} is {SDp!r}, the scatter law SD_native*TS^((z_pf-z_native)/(2 z_90)) gives {wantS!r}; {tag}", "scatter-law")
            if math.isfinite(wantN) and wantN > 1e-290 and not close(NDp, wantN, 1e-9):
                return (f"ND at pf={p!r} is {NDp!r}, the scatter law ND_native*TN^e*TS^(-e k_1), e=(z_pf-z_native)/(2 z_90), gives {wantN!r}; {tag}", "scatter-law")
        # ---- monotone in the failure probability
        ps = sorted(per_pf)
        for L in case["loads"]:
            prev = None
            for p in ps:
                N = cyc(L, p)
                if prev is not None and not (N >= prev[1] * (1 - 1e-9)):
                    return (f"cycles at load {L!r} decrease with the failure probability: N(pf={prev[0]!r})={prev[1]!r} > N(pf={p!r})={N!r}; {tag}", "monotone-pf")
                prev = (p, N)
        # ---- TN / TS as 10 % - 90 % quantile ratios
        t10 = w.transform_to_failure_probability(0.1).to_pandas()
        t90 = w.transform_to_failure_probability(0.9).to_pandas()
        if not close(float(t90.SD) / float(t10.SD), TS, 1e-10):
            return (f"SD_90/SD_10 = {float(t90.SD) / float(t10.SD)!r} != TS = {TS!r}; {tag}", "TS-ratio")
        for f in (1.0, 1.7, 10.0):
            L = float(t90.SD) * f
            n10, n90 = cyc(L, 0.1), cyc(L, 0.9)
            if math.isfinite(n90) and n10 > 1e-290 and not close(n90 / n10, TN, 1e-9):
                return (f"N_90/N_10 = {n90 / n10!r} != TN = {TN!r} at load {L!r} (>= SD_90); {tag}", "TN-ratio")
        # ... and the two other load ranges (theorems N90_over_N10_between_knees / _below_knee): between the knees the 90 %
        # curve is already on its k_2 line (infinite life for k_2 = inf), below both knees both are
        sd10, sd90 = float(t10.SD), float(t90.SD)
        if sd10 < sd90 * (1 - 1e-9):
            L = math.sqrt(sd10 * sd90)
            n10, n90 = cyc(L, 0.1), cyc(L, 0.9)
            if math.isinf(k2):
                if n90 != INF or not math.isfinite(n10):
                    return (f"k_2=inf, load {L!r} between SD_10={sd10!r} and SD_90={sd90!r}: N_90={n90!r} (must be inf), N_10={n10!r} (finite); {tag}", "TN-ratio")
            elif math.isfinite(n90) and n10 > 1e-290 and n90 > 1e-290:
                want = math.log(TN) + (k2 - k1) * (math.log(sd90) - math.log(L))
                if not close(math.log(n90 / n10), want, 1e-8, atol=1e-9):
                    return (f"load {L!r} between the knees: log(N_90/N_10) = {math.log(n90 / n10)!r}, expected log TN + (k_2-k_1) log(SD_90/L) = {want!r}; {tag}", "TN-ratio")
        if math.isfinite(k2):
            L = 0.5 * sd10
            n10, n90 = cyc(L, 0.1), cyc(L, 0.9)
            if math.isfinite(n90) and n10 > 1e-290 and n90 > 1e-290:
                want = math.log(TN) + (k2 - k1) * math.log(TS)
                if not close(math.log(n90 / n10), want, 1e-8, atol=1e-9):
                    return (f"load {L!r} below both knees: log(N_90/N_10) = {math.log(n90 / n10)!r}, expected log TN + (k_2-k_1) log TS = {want!r}; {tag}", "TN-ratio")
        # ---- composition of transforms
        for p, q in zip(case["pfs"], case["pfs"][1:]):
            two = w.transform_to_failure_probability(p).transform_to_failure_probability(q).to_pandas()
            one = w.transform_to_failure_probability(q).to_pandas()
            for f in FIELDS:
                if not close(float(two[f]), float(one[f]), 1e-10):
                    return (f"transform to {p!r} then {q!r} differs from transform to {q!r} in {f}: {float(two[f])!r} vs {float(one[f])!r}; {tag}", "transform-compose")
        # ---- Miner variants
        for meth, want in (("miner_original", INF), ("miner_elementary", k1), ("miner_haibach", 2.0 * k1 - 1.0)):
            v = getattr(w, meth)()
            vp = v.to_pandas()
            if float(vp.k_2) != want:
                return (f"{meth}: k_2 = {float(vp.k_2)!r}, expected {want!r}; {tag}", "miner-k2")
            for f in FIELDS:
                if f != "k_2" and f2h(float(vp[f])) != f2h(float(base[f])):
                    return (f"{meth} changed {f}: {float(base[f])!r} -> {float(vp[f])!r}; {tag}", "miner-other-field")
            if type(v) is not type(w):
                return (f"{meth} returns {type(v).__name__}, not {type(w).__name__}; {tag}", "miner-other-field")
            L = float(base.SD) * 1.5
            if not close(fl(v.cycles(L, nat)), cyc(L, nat), 1e-13):
                return (f"{meth} changes the cycles above the knee; {tag}", "miner-other-field")
        # ---- nothing above altered the original object / the accessor's state
        if not (list(s.index) == list(snapshot.index) and all(f2h(a) == f2h(b) for a, b in zip(s.values, snapshot.values))):
            return (f"the pandas object the accessor was created from was altered: {dict(s)!r} vs {dict(snapshot)!r}", "object-altered")
        now = w.to_pandas()
        if not (list(now.index) == list(base.index) and all(f2h(float(now[f])) == f2h(float(base[f])) for f in FIELDS)):
            return (f"the accessor's own curve was altered by transform/miner/cycles calls: {dict(now)!r} vs {dict(base)!r}", "object-altered")
        return None

    def _oracle_bc(self, case):
        _wc()
        mode, vals, pf = case["mode"], case["vals"], float(case["pf"])
        curves = case["curves"]
        what = (f"mode={mode} dtype={case.get('dtype') or 'float64'} labels={case.get('labels')!r} pf={pf!r} vals={vals!r} "
                f"curves={curves!r}")
        try:
            got = self._bc_impl(case)
        except AssertionError as e:
            return (f"broadcast call: {e}; {what}", "broadcast-shape")
        except Exception as e:
            return (f"broadcast call raised {type(e).__name__}: {e}; {what}", "broadcast-error")
        ops = [(f"broadcast evaluation ({mode}) at failure probability {pf!r}", lambda a: self._bc_raw(case, a))]
        rows = case.get("pf_rows")
        if rows:
            ops.append((f"broadcast evaluation ({mode}) at per-row failure probabilities {rows!r}",
                        lambda a: self._bc_raw(case, a, np.array(rows, dtype=np.float64))))
        try:
            res = evaluation_leaves_signal_alone(lambda: self._bc_signal(case), ops, what)
        except Exception as e:
            return (f"broadcast call raised {type(e).__name__}: {e}; {what}", "broadcast-error")
        if res is not None:
            return res
        els = self._bc_elements(case)
        is_load = mode in LOAD_MODES
        name = "load" if is_load else "cycles"

        def ref_curve(ci):
            # the reference for a row without a second slope (NaN in the frame) is the curve with k_2 = inf
            c = curves[ci]
            return curve_series({**c, "int_fields": False, "k2": "inf" if c.get("k2") == "nan" else c.get("k2")}).woehler

        def scalar(ci, v, q):
            w = ref_curve(ci)
            return fl((w.load if is_load else w.cycles)(float(v), float(q)))

        def judge(got, pfs_of, label):
            if len(got) != len(els):
                return (f"{label}: {len(got)} entries, element-wise evaluation {len(els)}; {what}", "broadcast")
            for g, (key, ci, v) in zip(got, els):
                if ci is None:
                    # a value whose label has no curve: there is nothing to evaluate - not a number (as load() answers)
                    if g == g:
                        d = (f"{label}: entry {key!r} = {g!r} for a value ({v!r}) whose label has no curve in the frame "
                             f"(a number, where load() gives NaN); {what}")
                        k = K_NOCURVE if (g == INF and not is_load) else "broadcast"
                        if not self.known(k, d):
                            return (d, k)
                        self._count("known_finding_hits", k)
                    continue
                if v is None:
                    if g == g:
                        return (f"{label}: entry {key!r} = {g!r} for a curve without a value; {what}", "broadcast")
                    continue
                want = scalar(ci, v, pfs_of(ci))
                if close(g, want, 1e-13):
                    continue
                d = f"{label}: {name} entry {key!r} = {g!r}, scalar evaluation of curve {ci} at {v!r} = {want!r}; {what}"
                k = "broadcast"
                if str(case.get("dtype", "")).startswith("uint") and is_load:
                    # the documented defect, reproduced: `_make_k(-cyc, -ND)` negates an UNSIGNED array, which wraps around,
                    # so no cycle number counts as "beyond ND" and the k_1 branch is used there
                    tp = ref_curve(ci).transform_to_failure_probability(float(pfs_of(ci))).to_pandas()
                    defect = float(tp.SD) * (float(v) / float(tp.ND)) ** (-1.0 / float(tp.k_1))
                    if float(v) > float(tp.ND) and close(g, defect, 1e-12):
                        k = K_UNSIGNED
                if not self.known(k, d):
                    return (d, k)
                self._count("known_finding_hits", k)
            return None

        res = judge(got, lambda ci: pf, f"broadcast ({mode})")
        if res is not None:
            return res
        if rows:
            try:
                got_rows = self._bc_impl(case, np.array(rows, dtype=np.float64))
            except AssertionError as e:
                return (f"broadcast call with per-row failure probabilities: {e}; {what}", "broadcast-shape")
            res = judge(got_rows, lambda ci: rows[ci], f"broadcast ({mode}) with per-row failure probabilities {rows!r}")
            if res is not None:
                return res
        # ---- damage of a load collective whose blocks carry the labels (Fatigue.damage = block cycles / cycles(amplitude)):
        # zero for infinite life (k_2 = inf, missing or NaN), NaN only for a block whose label has no curve
        if mode == "zip_series" and not case.get("dtype"):
            import pylife.stress.collective  # noqa: F401
            labels = case.get("labels") or [3 * i + 2 for i in range(len(curves))]
            lc = pd.DataFrame({"range": [2.0 * float(v) for v in vals], "mean": 0.0, "cycles": 1000.0},
                              index=pd.MultiIndex.from_arrays([labels, [0] * len(labels)], names=["curve", "cycle_number"]))
            try:
                dmg = self._frame(curves).fatigue.damage(lc.load_collective)
            except Exception as e:
                return (f"Fatigue.damage raised {type(e).__name__}: {e}; {what}", "broadcast-error")
            frame = [3 * i + 2 for i in range(len(curves))]
            for lab, v in zip(labels, vals):
                if (lab, 0) not in dmg.index:
                    return (f"Fatigue.damage: the block labelled {lab!r} is missing in the result {dict(dmg)!r}; {what}", "broadcast-shape")
                g = float(dmg[(lab, 0)])
                if lab not in frame:
                    if g == g:
                        return (f"Fatigue.damage: block {lab!r} has no curve but damage {g!r}; {what}", "broadcast")
                    continue
                want = 1000.0 / scalar(frame.index(lab), v, 0.5)
                if not close(g, want, 1e-13):
                    return (f"Fatigue.damage of the block labelled {lab!r} (amplitude {v!r}, 1000 cycles) = {g!r}, "
                            f"1000 / cycles(amplitude) of curve {frame.index(lab)} = {want!r}; {what}", "damage")
            self.stats["damage_checks"] = self.stats.get("damage_checks", 0) + 1
        return None

    def _oracle_sc(self, case):
        fn = _wc()
        import scipy.stats as st
        T, s = float(case["T"]), float(case["s"])
        z90 = float(st.norm.ppf(0.9))
        c_eff = float(fn.scattering_range_to_std(10.0))        # log10(10) = 1 exactly: the code's constant
        if not abs(2.0 * z90 * c_eff - 1.0) < 1e-15:
            return (f"the constant of scattering_range_to_std is {c_eff!r}: 2*ppf(0.9)*c - 1 = {2.0 * z90 * c_eff - 1.0!r}", "std-range-definition")
        back = float(fn.std_to_scattering_range(fn.scattering_range_to_std(T)))
        if not close(back, T, 1e-12):
            return (f"std_to_scattering_range(scattering_range_to_std({T!r})) = {back!r}", "std-range-inverse")
        back = float(fn.scattering_range_to_std(fn.std_to_scattering_range(s)))
        if not close(back, s, 1e-12, atol=1e-15):   # 10^(tiny) = 1 + tiny rounds with absolute error 1e-16
            return (f"scattering_range_to_std(std_to_scattering_range({s!r})) = {back!r}", "std-range-inverse")
        if not close(float(fn.std_to_scattering_range(s)), 10.0 ** (2.0 * z90 * s), 1e-12):
            return (f"std_to_scattering_range({s!r}) = {float(fn.std_to_scattering_range(s))!r} != 10^(2 z90 s) = {10.0 ** (2.0 * z90 * s)!r}", "std-range-definition")
        if not close(float(fn.scattering_range_to_std(T)), math.log10(T) / (2.0 * z90), 1e-12, atol=1e-300):
            return (f"scattering_range_to_std({T!r}) = {float(fn.scattering_range_to_std(T))!r} != log10(T)/(2 z90)", "std-range-definition")
        return None

    # -------------------------------------------------------------- shrinking
    def _shrink_seq(self, case, still_fails):
        cur = case
        changed = True
        while changed:
            changed = False
            for i in reversed(range(len(cur["ops"]))):
                if any(o["obj"] == i for o in cur["ops"]):
                    continue                    # another op works on the object this one returns
                ops = [dict(o) for j, o in enumerate(cur["ops"]) if j != i]
                for o in ops:
                    if o["obj"] > i:
                        o["obj"] -= 1
                trial = {**cur, "ops": ops}
                try:
                    if ops and still_fails(trial):
                        cur, changed = trial, True
                        break
                except Exception:
                    pass
        return cur

    def shrink(self, case, still_fails):
        if case.get("t") == "seq":
            return self._shrink_seq(case, still_fails)
        cur = dict(case)
        if cur["t"] == "curve":
            for key in ("pfs", "loads", "cycles"):
                lst = list(cur[key])
                if key == "pfs":
                    cands = [[a] for a in lst] + [[a, b] for a, b in zip(lst, lst[1:])]
                else:
                    cands = [[]] + [[a] for a in lst]
                for cand in cands:
                    trial = dict(cur)
                    trial[key] = cand
                    if key == "pfs" and not cand:
                        continue
                    try:
                        if still_fails(trial):
                            cur = trial
                            break
                    except Exception:
                        pass
            for key, val in (("acc", None), ("pf0", None), ("TN", None), ("TS", None)):
                if cur.get(key) is not None:
                    trial = dict(cur)
                    trial[key] = val
                    try:
                        if still_fails(trial):
                            cur = trial
                    except Exception:
                        pass
        elif cur["t"] == "bc" and cur["mode"] in ("series", "array", "list", "lseries", "larray", "llist", "cross", "lcross"):
            for v in list(cur["vals"]):
                trial = dict(cur)
                trial["vals"] = [v]
                try:
                    if still_fails(trial):
                        cur = trial
                        break
                except Exception:
                    pass
        return cur
