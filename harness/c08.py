"""C08: Woehler curve algebra (cycles/load inverses, knee, slopes, Miner variants, failure-probability
transforms, TN/TS quantile ratios, scatter range <-> std, broadcast = element-wise scalar).

Implementation side (real pylife, in-process), generators, correspondence with the Lean model
(`wc …` protocol lines, lean/Driver/Woehler.lean) and the direct property oracle."""
import json
import math

import numpy as np
import pandas as pd

from . import core
from .core import Prop, f2h, h2f, close

INF = math.inf
C_RANGE = 0.39015207303618954


def _wc():
    import pylife.materiallaws.woehlercurve  # noqa: F401  (registers the accessor)
    import pylife.strength.fatigue  # noqa: F401
    from pylife.utils import functions
    return functions


# ------------------------------------------------------------------ case <-> objects
def k2_of(c):
    k2 = c.get("k2")
    if k2 is None or k2 == "inf":
        return INF
    return float(k2)


def curve_series(c):
    d = {"k_1": float(c["k1"]), "ND": float(c["ND"]), "SD": float(c["SD"])}
    if c.get("k2") is not None:
        d["k_2"] = k2_of(c)
    if c.get("TN") is not None:
        d["TN"] = float(c["TN"])
    if c.get("TS") is not None:
        d["TS"] = float(c["TS"])
    if c.get("pf0") is not None:
        d["failure_probability"] = float(c["pf0"])
    return pd.Series(d)


def curve_tokens(c):
    def opt(x):
        return "-" if x is None else f2h(x)
    return " ".join([f2h(c["k1"]), f2h(k2_of(c)), f2h(c["SD"]), f2h(c["ND"]),
                     opt(c.get("TN")), opt(c.get("TS")), opt(c.get("pf0"))])


def accessor(c, obj):
    return obj.fatigue if c.get("acc") == "fatigue" else obj.woehler


FIELDS = ["k_1", "k_2", "SD", "ND", "TN", "TS", "failure_probability"]


def canon_curve(p):
    return " ".join(f2h(float(p[f])) for f in FIELDS)


def fl(x):
    return float(np.asarray(x, dtype=np.float64).reshape(-1)[0])


def guarded(f):
    try:
        return f()
    except Exception as e:  # canonical error text; the model has no errors, so this shows up as a disagreement
        return "error:" + type(e).__name__



def pandas_diff(a, b):
    """None if the two pandas objects are the same in type, index (values, dtype, names), columns / name,
    dtypes and values bit for bit; else a short description of the first difference."""
    if type(a) is not type(b):
        return f"type {type(b).__name__} -> {type(a).__name__}"
    if not (a.index.equals(b.index) and a.index.dtype == b.index.dtype and list(a.index) == list(b.index)):
        return f"index {list(b.index)!r} -> {list(a.index)!r}"
    if list(a.index.names) != list(b.index.names):
        return f"index names {list(b.index.names)!r} -> {list(a.index.names)!r}"
    if isinstance(a, pd.DataFrame):
        if list(a.columns) != list(b.columns):
            return f"columns {list(b.columns)!r} -> {list(a.columns)!r}"
        if list(a.dtypes) != list(b.dtypes):
            return f"dtypes {list(b.dtypes)!r} -> {list(a.dtypes)!r}"
        for col in a.columns:
            for lab, x, y in zip(a.index, a[col].to_numpy(), b[col].to_numpy()):
                if f2h(x) != f2h(y):
                    return f"{col}[{lab!r}] {float(y)!r} -> {float(x)!r}"
        return None
    if a.name != b.name:
        return f"name {b.name!r} -> {a.name!r}"
    if a.dtype != b.dtype:
        return f"dtype {b.dtype!r} -> {a.dtype!r}"
    for lab, x, y in zip(a.index, a.to_numpy(), b.to_numpy()):
        if f2h(x) != f2h(y):
            return f"{lab} {float(y)!r} -> {float(x)!r}"
    return None


def bits(r):
    """bit pattern(s) of a scalar / array / Series result, with the index of a Series"""
    if isinstance(r, pd.Series):
        return (tuple(r.index.names), tuple(r.index), tuple(f2h(x) for x in r.to_numpy()))
    if isinstance(r, pd.DataFrame):
        return (tuple(r.index), tuple(r.columns), tuple(f2h(x) for x in r.to_numpy().reshape(-1)))
    return tuple(f2h(x) for x in np.asarray(r, dtype=np.float64).reshape(-1))


def evaluation_leaves_signal_alone(make, ops, what):
    """The clause 'an evaluation does not alter the curve': `make()` builds (user object, accessor) afresh;
    for every (label, op) in ops: deep copies of the user's pandas object and of the accessor's curve are taken,
    op(accessor) is evaluated, both must be the same afterwards (values bit for bit, index, names, dtype), a second
    evaluation on the SAME accessor and one on a FRESH signal must be bit-identical to the first."""
    for label, op in ops:
        user, w = make()
        user0 = user.copy(deep=True)
        own0 = w.to_pandas().copy(deep=True)
        fp0 = bits(w.failure_probability)
        r1 = bits(op(w))
        d = pandas_diff(user, user0)
        if d is not None:
            return (f"{label} altered the pandas object the accessor was created from ({d}); {what}", "signal-altered")
        d = pandas_diff(w.to_pandas(), own0)
        if d is not None:
            return (f"{label} altered the curve held by the accessor ({d}); {what}", "signal-altered")
        if bits(w.failure_probability) != fp0:
            return (f"{label} altered the accessor's failure_probability; {what}", "signal-altered")
        r2 = bits(op(w))
        if r2 != r1:
            return (f"{label}: a second evaluation on the same accessor differs from the first ({r1[-1] if isinstance(r1[-1], tuple) else r1} vs {r2[-1] if isinstance(r2[-1], tuple) else r2}, bit patterns); {what}", "evaluation-not-repeatable")
        r3 = bits(op(make()[1]))
        if r3 != r1:
            return (f"{label}: the evaluation on a fresh signal differs from the one on a used accessor; {what}", "evaluation-not-repeatable")
    return None

# ------------------------------------------------------------------ generators
def loguni(rng, lo, hi):
    return 10.0 ** rng.uniform(math.log10(lo), math.log10(hi))


def gen_pf(rng):
    r = rng.random()
    if r < 0.35:
        return rng.choice([0.5, 0.1, 0.9, 0.025, 0.975, 0.01, 0.99, 0.3])
    if r < 0.5:
        return rng.choice([1e-6, 1 - 1e-6, 1e-12, 1 - 1e-12, 2.3e-4])
    if r < 0.6:
        return loguni(rng, 1e-10, 0.4)
    return rng.uniform(0.001, 0.999)


def gen_curve(rng):
    r = rng.random()
    if r < 0.3:
        k1 = rng.choice([3.0, 5.0, 7.0, 1.5, 12.0, 1.0000001, 30.0])
    else:
        k1 = loguni(rng, 1.02, 25.0)
    r = rng.random()
    if r < 0.15:
        k2 = None
    elif r < 0.35:
        k2 = "inf"
    elif r < 0.5:
        k2 = k1
    elif r < 0.65:
        k2 = 2.0 * k1 - 1.0
    elif r < 0.9:
        k2 = k1 + loguni(rng, 0.01, 30.0)
    else:
        k2 = rng.choice([50.0, 100.0]) + k1
    SD = rng.choice([100.0, 300.0, 1.0, 0.5, 1250.0]) if rng.random() < 0.3 else loguni(rng, 1e-2, 1e4)
    ND = rng.choice([1e6, 2e6, 1e7, 5e5, 1000.0]) if rng.random() < 0.4 else loguni(rng, 1e3, 1e8)
    pat = rng.choice(["none", "none", "TN", "TS", "both", "both", "consistent", "one"])
    TN = TS = None
    if pat == "TN":
        TN = rng.choice([1.0, 1.0 + loguni(rng, 1e-3, 20.0)])
    elif pat == "TS":
        TS = rng.choice([1.0, 1.0 + loguni(rng, 1e-3, 1.5)])
    elif pat == "both":
        TN = 1.0 + loguni(rng, 1e-3, 20.0)
        TS = 1.0 + loguni(rng, 1e-3, 1.5)
    elif pat == "consistent":
        TS = 1.0 + loguni(rng, 1e-3, 0.6)
        TN = TS ** k1
    elif pat == "one":
        TN = 1.0
        TS = 1.0
    pf0 = None if rng.random() < 0.45 else gen_pf(rng)
    return {"k1": k1, "k2": k2, "SD": SD, "ND": ND, "TN": TN, "TS": TS, "pf0": pf0}


def gen_loads(rng, SD, n):
    out = [SD]
    out.append(float(np.nextafter(SD, INF)))
    out.append(float(np.nextafter(SD, 0.0)))
    for _ in range(n):
        r = rng.random()
        if r < 0.35:
            out.append(SD * 10.0 ** (rng.randrange(-4, 5) / 4.0))
        elif r < 0.5:
            out.append(SD * (1.0 + rng.choice([-1, 1]) * loguni(rng, 1e-12, 1e-2)))
        else:
            out.append(SD * loguni(rng, 0.2, 5.0))
    return out


def native_pf(c):
    return 0.5 if c.get("pf0") is None else c["pf0"]


class C08(Prop):
    ID = "C08"
    SOURCES = ["src/pylife/materiallaws/woehlercurve.py", "src/pylife/utils/functions.py",
               "src/pylife/strength/fatigue.py"]
    LEAN_MODULES = ["Proofs.C08", "Proofs.BridgeC08"]
    THEOREMS = [
        "PylifeVerif.C08.load_cycles_inverse",
        "PylifeVerif.C08.cycles_load_inverse",
        "PylifeVerif.C08.cycles_load_endurance",
        "PylifeVerif.C08.knee_branch_consistency",
        "PylifeVerif.C08.cycles_antitone",
        "PylifeVerif.C08.continuous_at_knee",
        "PylifeVerif.C08.cycles_tendsto_knee",
        "PylifeVerif.C08.slope_k1_above",
        "PylifeVerif.C08.slope_k2_below",
        "PylifeVerif.C08.k2_inf_endurance",
        "PylifeVerif.C08.miner_variants",
        "PylifeVerif.C08.miner_variants_above_knee",
        "PylifeVerif.C08.cycles_monotone_in_pf",
        "PylifeVerif.C08.N90_over_N10",
        "PylifeVerif.C08.N90_over_N10_below_knee",
        "PylifeVerif.C08.SD90_over_SD10",
        "PylifeVerif.C08.transform_compose",
        "PylifeVerif.C08.transform_native_id",
        "PylifeVerif.C08.std_range_inverse",
        "PylifeVerif.C08.std_range_literals",
        "PylifeVerif.C08.validate_scatter_consistent",
        "PylifeVerif.C08.broadcast_elementwise",
    ] + ["PylifeVerif.Bridge." + t for t in [      # generated (translated) definitions = hand model
        "scattering_range_to_std_eq", "std_to_scattering_range_eq", "miner_k2_eq"]]
    PARTIAL = {}
    RULE = ("case kinds: 'curve' = one curve (k_1>1; k_2 missing/inf/=k_1/=2k_1-1/>k_1; SD, ND log-uniform or round; "
            "TN/TS missing, one given, both, consistent; native failure probability missing or in (0,1)) x 2-4 target "
            "probabilities (always incl. the native one) x loads (exactly SD, its two neighbours, log grid, near-knee, "
            "random) x cycle numbers (exactly ND, neighbours, grid, random): transform, cycles, load, two-step transform, "
            "the three Miner modifiers, all as scalar calls; 'bc' = the same evaluation with array / Series / "
            "DataFrame-of-curves inputs (cross product and aligned); 'sc' = scatter conversions and the numeric constants; "
            "'ppf' = the driver's normal quantile against scipy. Doubles compared with rtol 1e-11 (inf/NaN exactly). "
            "non-trivial = a target probability differs from the native one or a load lies below the knee; "
            "distinct by full case content")
    ASSUMPTIONS = [
        "C08: scipy.stats.norm.ppf is an abstract function in the theorems (strictly increasing on (0,1), ppf(1-p) = -ppf(p) where a theorem needs it); the driver uses its own Float quantile (A&S 26.2.23 start + Newton on series/continued-fraction CDF), agreement with scipy is measured (<= 1e-13) on every run",
        "C08: the theorems are over the reals with Real.rpow / Real.log; the code's doubles agree with the same formulas in Float to rtol 1e-11 on this run's inputs; float overflow/underflow of ND*(L/SD)^(-k) (result inf or 0 with finite k) is not modelled by the real-number theorems",
        "C08: the literal 0.39015207303618954 is not exactly 1/(2*Phi^-1(0.9)): the TN/TS quantile theorems give the exact exponent 2*z90*c and the identity under the hypothesis 2*z90*c = 1; |2*ppf(0.9)*c - 1| < 1e-15 is checked numerically (scipy and driver), |c*c2 - 1| < 1e-16 for the two literals is proved in Lean",
        "C08: pandas glue (accessor copy, _validate, broadcast to Series/DataFrame, index alignment) is modelled as element-wise map / cross product / zip and checked by correspondence and by the scalar-vs-broadcast oracle only",
        "C08: loads and cycle numbers are positive; for load <= 0 the code returns inf/NaN without raising (outside the theorems' guards)",
    ]

    # tie T (DESIGN 1.1): lean/Generated/<name>.lean are regenerated from the current python source before the build;
    # Proofs.BridgeC08 proves them equal to the hand model the property theorems are about
    TRANSLATED = ["Functions", "WoehlerCurve"]

    def setup(self, log):
        import os
        import sys
        tdir = os.path.join(core.VERIF, "translate")
        sys.path.insert(0, tdir)
        try:
            import translate as T
            ok, msg = T.run_modules(self.TRANSLATED, core.REPO, core.LEAN)
        except Exception as e:      # the translator itself is broken: every bridge obligation counts as broken
            ok, msg = False, f"translator crashed: {type(e).__name__}: {e}"
            for n in self.TRANSLATED:
                with open(os.path.join(core.LEAN, "Generated", n + "Status.lean"), "w") as f:
                    f.write('#eval (throw (IO.userError "translator crashed") : IO Unit)\n')
        finally:
            sys.path.remove(tdir)
        self.stats["translator"] = msg
        log(("translator: " + msg) if ok else ("TRANSLATOR FAILED (broken proof obligation): " + msg))

    def __init__(self):
        self.exhaustive = False
        self.stats = {"kinds": {}, "k2": {}, "scatter_keys": {}, "native_pf_missing": 0, "loads_at_SD": 0,
                      "loads_below_knee": 0, "loads_above_knee": 0, "cycles_at_ND": 0, "infinite_life_results": 0,
                      "bc_modes": {}, "impl_errors": {}, "overflow_or_underflow_skipped": 0, "pf_extreme": 0,
                      "accessor": {}}
        self._fn = None

    # -------------------------------------------------------------- generation
    def _count(self, key, sub):
        d = self.stats[key]
        d[sub] = d.get(sub, 0) + 1

    def generate(self, rng, tier):
        quick = tier == "quick"
        # deterministic log grid (curves x probabilities x loads incl. exactly SD and ND)
        for k1 in ([3.0, 5.0] if quick else [1.5, 3.0, 5.0, 8.0]):
            for k2 in ["inf", k1, 2 * k1 - 1]:
                for (TN, TS) in [(None, None), (4.0, None), (None, 1.25), (4.0, 1.25)]:
                    for pf0 in [None, 0.1]:
                        SD, ND = 100.0, 1e6
                        yield {"t": "curve", "k1": k1, "k2": k2, "SD": SD, "ND": ND, "TN": TN, "TS": TS, "pf0": pf0,
                               "pfs": [0.1, 0.5, 0.9], "loads": [SD * 10.0 ** (j / 4.0) for j in range(-4, 5)],
                               "cycles": [ND * 10.0 ** (j / 2.0) for j in range(-4, 5)], "src": "grid"}
        n_curve = 240 if quick else 2000
        for i in range(n_curve):
            c = gen_curve(rng)
            c["t"] = "curve"
            c["src"] = "random"
            if rng.random() < 0.25:
                c["acc"] = "fatigue"
            pfs = [native_pf(c)]
            for _ in range(rng.choice([1, 2, 3])):
                pfs.append(gen_pf(rng))
            rng.shuffle(pfs)
            c["pfs"] = pfs
            c["loads"] = gen_loads(rng, c["SD"], rng.choice([2, 4, 6]))
            c["cycles"] = gen_loads(rng, c["ND"], rng.choice([2, 4]))
            yield c
        n_bc = 90 if quick else 600
        for i in range(n_bc):
            mode = rng.choice(["series", "array", "list", "cross", "zip_series", "zip_array", "lseries", "larray"])
            n = rng.choice([1, 2, 3, 4])
            if mode in ("cross", "zip_series", "zip_array"):
                m = rng.choice([1, 2, 3])
                base = gen_curve(rng)
                curves = []
                for _ in range(m):
                    c = gen_curve(rng)
                    # a frame has the same columns in every row
                    for key in ("TN", "TS", "pf0", "k2"):
                        if base.get(key) is None:
                            c[key] = None
                        elif c.get(key) is None:
                            c[key] = base[key]
                    if c["TN"] is not None and c["TS"] is not None and base["TN"] is not None:
                        pass
                    curves.append(c)
                if mode != "cross":
                    n = m
            else:
                curves = [gen_curve(rng)]
            ref = curves[rng.randrange(len(curves))]
            if mode in ("lseries", "larray"):
                vals = gen_loads(rng, ref["ND"], n)[:max(n, 1)] if rng.random() < 0.5 else \
                    [ref["ND"] * loguni(rng, 0.01, 100.0) for _ in range(n)]
            else:
                vals = gen_loads(rng, ref["SD"], n)
                rng.shuffle(vals)
                vals = vals[:n]
            pf = rng.choice([0.5, native_pf(ref), gen_pf(rng)])
            case = {"t": "bc", "mode": mode, "curves": curves, "vals": vals, "pf": pf}
            if mode in ("zip_series", "zip_array"):
                # oracle only: a failure probability per row of the frame (array parameter against a DataFrame signal)
                case["pf_rows"] = [rng.choice([pf, gen_pf(rng)]) for _ in curves]
            yield case
        n_sc = 40 if quick else 400
        for i in range(n_sc):
            yield {"t": "sc", "T": rng.choice([1.0, 1.0 + loguni(rng, 1e-6, 100.0)]),
                   "s": rng.choice([0.0, loguni(rng, 1e-6, 2.0)])}
        n_ppf = 60 if quick else 2000
        for i in range(n_ppf):
            yield {"t": "ppf", "p": gen_pf(rng) if rng.random() < 0.5 else rng.choice(
                [loguni(rng, 1e-15, 0.5), 1.0 - loguni(rng, 1e-15, 0.5)])}

    # -------------------------------------------------------------- correspondence: model side
    def model_lines(self, case):
        t = case["t"]
        if t == "curve":
            tok = curve_tokens(case)
            pfs, loads, cyc = case["pfs"], case["loads"], case["cycles"]
            lines = [f"wc tr {tok} {f2h(p)}" for p in pfs]
            lines += [f"wc cyc {tok} {f2h(p)} {f2h(L)}" for p in pfs for L in loads]
            lines += [f"wc load {tok} {f2h(p)} {f2h(N)}" for p in pfs for N in cyc]
            lines += [f"wc tr2 {tok} {f2h(p)} {f2h(q)}" for p, q in zip(pfs, pfs[1:])]
            lines += [f"wc miner {k} {tok}" for k in ("orig", "elem", "haib")]
            return lines
        if t == "bc":
            toks = " ".join(curve_tokens(c) for c in case["curves"])
            vals = " ".join(f2h(v) for v in case["vals"])
            mode = case["mode"]
            if mode in ("series", "array", "list"):
                return [f"wc cycs {toks} {f2h(case['pf'])} {vals}"]
            if mode in ("lseries", "larray"):
                return [f"wc loads {toks} {f2h(case['pf'])} {vals}"]
            if mode == "cross":
                return [f"wc cross {len(case['curves'])} {toks} {f2h(case['pf'])} {vals}"]
            return [f"wc zip {len(case['curves'])} {toks} {f2h(case['pf'])} {vals}"]
        if t == "sc":
            return [f"wc r2s {f2h(case['T'])}", f"wc s2r {f2h(case['s'])}", "wc consts"]
        if t == "ppf":
            return [f"wc ppf {f2h(case['p'])}"]
        return []

    # -------------------------------------------------------------- correspondence: implementation side
    def _frame(self, curves):
        rows = [curve_series(c) for c in curves]
        df = pd.DataFrame(rows, index=pd.Index([3 * i + 2 for i in range(len(rows))], name="curve"))
        return df

    def _bc_signal(self, case):
        """(pandas object the user holds, accessor) of a broadcast case, built afresh."""
        curves = case["curves"]
        if case["mode"] in ("series", "array", "list", "lseries", "larray"):
            obj = curve_series(curves[0])
            return obj, accessor(curves[0], obj)
        df = self._frame(curves)
        return df, df.woehler

    def _bc_raw(self, case, w, pf=None):
        """The broadcast call on the real code: the raw result."""
        mode, vals = case["mode"], [float(v) for v in case["vals"]]
        pf = float(case["pf"]) if pf is None else pf
        idx = pd.Index([10 + 2 * i for i in range(len(vals))], name="x")
        if mode in ("series", "cross"):
            return w.cycles(pd.Series(vals, index=idx), pf)
        if mode in ("array", "zip_array"):
            return w.cycles(np.array(vals), pf)
        if mode == "list":
            return w.cycles(list(vals), pf)
        if mode == "lseries":
            return w.load(pd.Series(vals, index=idx), pf)
        if mode == "larray":
            return w.load(np.array(vals), pf)
        if mode == "zip_series":
            return w.cycles(pd.Series(vals, index=w.to_pandas().index), pf)
        raise ValueError(mode)

    def _bc_flat(self, case, w, r):
        """... flattened in the model's order."""
        mode, vals = case["mode"], case["vals"]
        idx = [10 + 2 * i for i in range(len(vals))]
        if mode in ("series", "lseries"):
            assert isinstance(r, pd.Series) and list(r.index) == idx and list(r.index.names) == ["x"]
            return [float(x) for x in r.values]
        if mode == "cross":
            return [float(r[(ci, xi)]) for ci in w.to_pandas().index for xi in idx]
        if mode == "zip_series":
            return [float(r[ci]) for ci in w.to_pandas().index]
        return [float(x) for x in np.asarray(r).reshape(-1)]

    def _bc_impl(self, case):
        _user, w = self._bc_signal(case)
        return self._bc_flat(case, w, self._bc_raw(case, w))

    def impl_lines(self, case):
        fn = _wc()
        t = case["t"]
        self._count("kinds", t)
        if t == "curve":
            self._count("k2", "missing" if case.get("k2") is None else "inf" if case["k2"] == "inf" else
                        "=k1" if case["k2"] == case["k1"] else "haibach" if case["k2"] == 2 * case["k1"] - 1 else "other")
            self._count("scatter_keys", ("TN" if case.get("TN") is not None else "") + ("TS" if case.get("TS") is not None else "") or "none")
            self._count("accessor", case.get("acc", "woehler"))
            if case.get("pf0") is None:
                self.stats["native_pf_missing"] += 1
            s = curve_series(case)
            w = accessor(case, s)
            pfs, loads, cyc = case["pfs"], case["loads"], case["cycles"]
            self.stats["loads_at_SD"] += sum(1 for L in loads if L == case["SD"])
            self.stats["cycles_at_ND"] += sum(1 for N in cyc if N == case["ND"])
            self.stats["pf_extreme"] += sum(1 for p in pfs if p < 1e-5 or p > 1 - 1e-5)
            out = [guarded(lambda: canon_curve(w.transform_to_failure_probability(p).to_pandas())) for p in pfs]
            for p in pfs:
                for L in loads:
                    r = guarded(lambda: f2h(fl(w.cycles(L, p))))
                    out.append(r)
                    if r == f2h(INF):
                        self.stats["infinite_life_results"] += 1
            out += [guarded(lambda: f2h(fl(w.load(N, p)))) for p in pfs for N in cyc]
            out += [guarded(lambda: canon_curve(
                w.transform_to_failure_probability(p).transform_to_failure_probability(q).to_pandas()))
                for p, q in zip(pfs, pfs[1:])]
            out += [guarded(lambda: canon_curve(getattr(w, m)().to_pandas()))
                    for m in ("miner_original", "miner_elementary", "miner_haibach")]
            for o in out:
                if o.startswith("error:"):
                    self._count("impl_errors", o)
            return out
        if t == "bc":
            self._count("bc_modes", case["mode"])
            r = guarded(lambda: " ".join(f2h(x) for x in self._bc_impl(case)))
            if r.startswith("error:"):
                self._count("impl_errors", r)
            return [r]
        if t == "sc":
            import scipy.stats as st
            z90 = float(st.norm.ppf(0.9))
            return [f2h(fn.scattering_range_to_std(case["T"])), f2h(fn.std_to_scattering_range(case["s"])),
                    " ".join(f2h(x) for x in (2.0 * z90 * C_RANGE - 1.0, C_RANGE * 2.5631031310892007 - 1.0,
                                               2.5631031310892007 - 2.0 * z90))]
        if t == "ppf":
            import scipy.stats as st
            return [f2h(float(st.norm.ppf(case["p"])))]
        return []

    def compare(self, case, model_out, impl_out):
        if len(model_out) != len(impl_out):
            return f"length {len(model_out)} vs {len(impl_out)}"
        t = case["t"]
        for i, (a, b) in enumerate(zip(model_out, impl_out)):
            if a == b:
                continue
            ta, tb = a.split(), b.split()
            if len(ta) != len(tb):
                return f"line {i}: model={a[:300]!r} impl={b[:300]!r}"
            for x, y in zip(ta, tb):
                if x == y:
                    continue
                try:
                    fx, fy = h2f(x), h2f(y)
                except Exception:
                    return f"line {i}: model={a[:300]!r} impl={b[:300]!r}"
                if t == "ppf":
                    ok = close(fx, fy, rtol=1e-13, atol=1e-13)
                elif t == "sc" and i == 2:
                    # the numeric facts |2*z90*c - 1| < 1e-15 etc.: both sides must be tiny
                    ok = abs(fx) < 2e-15 and abs(fy) < 2e-15
                else:
                    ok = close(fx, fy, rtol=1e-11)
                if not ok:
                    return f"line {i}: model={fx!r} impl={fy!r} (case kind {t})"
        return None

    def nontrivial(self, case, model_out):
        t = case["t"]
        if t == "curve":
            nat = native_pf(case)
            if any(p != nat for p in case["pfs"]) or any(L < case["SD"] for L in case["loads"]):
                return json.dumps(case, sort_keys=True)
            return None
        if t == "bc":
            return json.dumps(case, sort_keys=True) if len(case["vals"]) * len(case["curves"]) > 1 else None
        return json.dumps(case, sort_keys=True)

    # -------------------------------------------------------------- the property's own relations on the real code
    def oracle(self, case):
        t = case["t"]
        if t == "curve":
            return self._oracle_curve(case)
        if t == "bc":
            return self._oracle_bc(case)
        if t == "sc":
            return self._oracle_sc(case)
        return None

    def _oracle_curve(self, case):
        _wc()
        s = curve_series(case)
        snapshot = s.copy(deep=True)
        w = accessor(case, s)
        base = w.to_pandas().copy(deep=True)
        k1, k2 = float(base.k_1), float(base.k_2)
        nat = float(base.failure_probability)
        TN, TS = float(base.TN), float(base.TS)
        tag = f"k1={k1!r} k2={k2!r} SD={case['SD']!r} ND={case['ND']!r} TN={case.get('TN')!r} TS={case.get('TS')!r} pf0={case.get('pf0')!r}"

        # ---- no evaluation alters the curve; evaluations are repeatable (every target probability, every kind of call)
        def make():
            obj = curve_series(case)
            return obj, accessor(case, obj)
        L0 = (case["loads"][0] if case["loads"] else 1.3 * case["SD"])
        N0 = (case["cycles"][0] if case["cycles"] else 0.7 * case["ND"])
        ops = []
        for i, p in enumerate(case["pfs"]):
            ops.append((f"transform_to_failure_probability({p!r})", lambda a, p=p: a.transform_to_failure_probability(p).to_pandas()))
            if i % 2 == 0 or len(case["pfs"]) == 1:
                ops.append((f"cycles({L0!r}, {p!r})", lambda a, p=p: a.cycles(L0, p)))
            if i % 2 == 1 or len(case["pfs"]) == 1:
                ops.append((f"load({N0!r}, {p!r})", lambda a, p=p: a.load(N0, p)))
        res = evaluation_leaves_signal_alone(make, ops, tag)
        if res is not None:
            return res

        def cyc(L, p):
            return fl(w.cycles(L, p))

        def lod(N, p):
            return fl(w.load(N, p))

        # ---- _validate: TN/TS semantics
        if case.get("TN") is None and case.get("TS") is None:
            if TN != 1.0 or TS != 1.0:
                return (f"missing TN and TS must mean no scatter, got TN={TN} TS={TS}; {tag}", "scatter-defaults")
        elif case.get("TS") is None:
            if not close(TS ** k1, TN, 1e-12):
                return (f"TS derived from TN is not TN^(1/k_1): TS={TS} TN={TN}; {tag}", "scatter-defaults")
        elif case.get("TN") is None:
            if not close(TN, TS ** k1, 1e-12):
                return (f"TN derived from TS is not TS^k_1: TS={TS} TN={TN}; {tag}", "scatter-defaults")
        if nat != native_pf(case):
            return (f"native failure probability {nat} instead of {native_pf(case)}; {tag}", "scatter-defaults")

        per_pf = {}
        for p in case["pfs"]:
            tp = w.transform_to_failure_probability(p).to_pandas()
            SDp, NDp = float(tp.SD), float(tp.ND)
            per_pf[p] = (SDp, NDp)
            for f in ("k_1", "k_2", "TN", "TS"):
                if f2h(float(tp[f])) != f2h(float(base[f])):
                    return (f"transform to pf={p!r} changed {f}; {tag}", "transform-fields")
            if float(tp.failure_probability) != p:
                return (f"transform to pf={p!r} reports failure_probability {float(tp.failure_probability)!r}; {tag}", "transform-fields")
            # native probability: identity
            if p == nat and not (close(SDp, float(base.SD), 1e-12) and close(NDp, float(base.ND), 1e-12)):
                return (f"transform to the native probability {p!r} is not the identity: SD {base.SD!r}->{SDp!r}, ND {base.ND!r}->{NDp!r}; {tag}", "transform-native-id")
            # knee: both branches give ND at SD
            if not close(cyc(SDp, p), NDp, 1e-12):
                return (f"cycles(SD_pf)={cyc(SDp, p)!r} != ND_pf={NDp!r} at pf={p!r}; {tag}", "knee")
            if not close(lod(NDp, p), SDp, 1e-12):
                return (f"load(ND_pf)={lod(NDp, p)!r} != SD_pf={SDp!r} at pf={p!r}; {tag}", "knee")
            below = float(np.nextafter(SDp, 0.0))
            nb = cyc(below, p)
            if math.isinf(k2):
                if nb != INF:
                    return (f"k_2=inf but cycles just below SD_pf is {nb!r} at pf={p!r}; {tag}", "endurance")
            elif not close(nb, NDp, 1e-9):
                return (f"not continuous at the knee: cycles(SD_pf - 1ulp)={nb!r}, ND_pf={NDp!r}, pf={p!r}; {tag}", "knee")
            loads = list(case["loads"]) + [SDp, float(np.nextafter(SDp, INF)), below]
            res = []
            for L in loads:
                N = cyc(L, p)
                res.append((L, N))
                if L < SDp:
                    self.stats["loads_below_knee"] += 1
                else:
                    self.stats["loads_above_knee"] += 1
                # branch consistency  L >= SD  <=>  N <= ND   (1e-12 slack for rounding at the knee)
                if L >= SDp and not N <= NDp * (1 + 1e-12):
                    return (f"load {L!r} >= SD_pf={SDp!r} but cycles {N!r} > ND_pf={NDp!r} (pf={p!r}); {tag}", "knee-branch")
                if L < SDp and not N >= NDp * (1 - 1e-12):
                    return (f"load {L!r} < SD_pf={SDp!r} but cycles {N!r} < ND_pf={NDp!r} (pf={p!r}); {tag}", "knee-branch")
                if L < SDp and math.isinf(k2) and N != INF:
                    return (f"k_2=inf, load {L!r} < SD_pf={SDp!r} but cycles {N!r} finite (pf={p!r}); {tag}", "endurance")
                if N != N:
                    return (f"cycles({L!r}, {p!r}) is NaN; {tag}", "nan")
                finite_expected = L >= SDp or math.isfinite(k2)
                if not math.isfinite(N) or N < 1e-290:
                    if finite_expected:
                        self.stats["overflow_or_underflow_skipped"] += 1
                    continue
                if not finite_expected:
                    continue
                L2 = lod(N, p)
                if not close(L2, L, 1e-9):
                    return (f"load(cycles(L)) != L: L={L!r} N={N!r} back={L2!r} pf={p!r}; {tag}", "inverse-load-cycles")
            for N in list(case["cycles"]) + [NDp, float(np.nextafter(NDp, INF)), float(np.nextafter(NDp, 0.0))]:
                L = lod(N, p)
                if L != L:
                    return (f"load({N!r}, {p!r}) is NaN; {tag}", "nan")
                if N > NDp and math.isinf(k2):
                    if not close(L, SDp, 1e-12):
                        return (f"k_2=inf, cycles {N!r} > ND_pf but load {L!r} != SD_pf={SDp!r} (pf={p!r}); {tag}", "endurance")
                    continue
                if N <= NDp and not L >= SDp * (1 - 1e-12):
                    return (f"cycles {N!r} <= ND_pf={NDp!r} but load {L!r} < SD_pf={SDp!r} (pf={p!r}); {tag}", "knee-branch")
                if N > NDp and not L <= SDp * (1 + 1e-12):
                    return (f"cycles {N!r} > ND_pf={NDp!r} but load {L!r} > SD_pf={SDp!r} (pf={p!r}); {tag}", "knee-branch")
                if not (math.isfinite(L) and L > 1e-290):
                    self.stats["overflow_or_underflow_skipped"] += 1
                    continue
                N2 = cyc(L, p)
                if math.isinf(k2) and close(N, NDp, 1e-9):
                    ok = N2 == INF or close(N2, N, 1e-8)   # one rounding below SD gives infinite life: accepted at the knee only
                else:
                    ok = close(N2, N, 1e-8 if max(k1, k2 if math.isfinite(k2) else 0) > 40 else 1e-9)
                if not ok:
                    return (f"cycles(load(N)) != N: N={N!r} L={L!r} back={N2!r} pf={p!r}; {tag}", "inverse-cycles-load")
            # antitone in load
            res.sort()
            for (La, Na), (Lb, Nb) in zip(res, res[1:]):
                if not Nb <= Na * (1 + 1e-12) and not (Na == INF):
                    return (f"cycles not non-increasing in load: N({La!r})={Na!r} < N({Lb!r})={Nb!r} pf={p!r}; {tag}", "antitone")
            # slopes
            for (La, Na), (Lb, Nb) in zip(res, res[1:]):
                if not (math.isfinite(Na) and math.isfinite(Nb) and Na > 1e-290 and Nb > 1e-290 and La > 0):
                    continue
                if math.log(Lb / La) < 1e-3:
                    continue
                if La >= SDp:
                    k = k1
                elif Lb < SDp:
                    k = k2
                else:
                    continue
                slope = math.log(Na / Nb) / math.log(Lb / La)
                if not close(slope, k, 1e-6):
                    return (f"log-log slope between loads {La!r} and {Lb!r} is {slope!r}, expected {k!r} (pf={p!r}); {tag}", "slope")
        # ---- the scatter law in closed form, at every probability in (0,1) including the far tails: the curve at pf
        # is the native one shifted by (z_pf - z_native) standard deviations, where TS and TN are the 10 %-90 % ratios
        # (z from scipy directly, not through the code under test); the knee moves in load by TS^e and along the life axis
        # by TN^e, then back along the k_1 line to the new SD - the same closed form Model/Woehler.lean states
        from scipy import stats as st
        z90 = float(st.norm.ppf(0.9))
        znat = float(st.norm.ppf(nat))
        for p, (SDp, NDp) in per_pf.items():
            e = (float(st.norm.ppf(p)) - znat) / (2.0 * z90)
            wantS, wantN = float(base.SD) * TS ** e, float(base.ND) * TN ** e * TS ** (-e * k1)
            if math.isfinite(wantS) and wantS > 1e-290 and not close(SDp, wantS, 1e-9):
                return (f"SD at pf={p!r} is {SDp!r}, the scatter law SD_native*TS^((z_pf-z_native)/(2 z_90)) gives {wantS!r}; {tag}", "scatter-law")
            if math.isfinite(wantN) and wantN > 1e-290 and not close(NDp, wantN, 1e-9):
                return (f"ND at pf={p!r} is {NDp!r}, the scatter law ND_native*TN^e*TS^(-e k_1), e=(z_pf-z_native)/(2 z_90), gives {wantN!r}; {tag}", "scatter-law")
        # ---- monotone in the failure probability
        ps = sorted(per_pf)
        for L in case["loads"]:
            prev = None
            for p in ps:
                N = cyc(L, p)
                if prev is not None and not (N >= prev[1] * (1 - 1e-9)):
                    return (f"cycles at load {L!r} decrease with the failure probability: N(pf={prev[0]!r})={prev[1]!r} > N(pf={p!r})={N!r}; {tag}", "monotone-pf")
                prev = (p, N)
        # ---- TN / TS as 10 % - 90 % quantile ratios
        t10 = w.transform_to_failure_probability(0.1).to_pandas()
        t90 = w.transform_to_failure_probability(0.9).to_pandas()
        if not close(float(t90.SD) / float(t10.SD), TS, 1e-10):
            return (f"SD_90/SD_10 = {float(t90.SD) / float(t10.SD)!r} != TS = {TS!r}; {tag}", "TS-ratio")
        for f in (1.0, 1.7, 10.0):
            L = float(t90.SD) * f
            n10, n90 = cyc(L, 0.1), cyc(L, 0.9)
            if math.isfinite(n90) and n10 > 1e-290 and not close(n90 / n10, TN, 1e-9):
                return (f"N_90/N_10 = {n90 / n10!r} != TN = {TN!r} at load {L!r} (>= SD_90); {tag}", "TN-ratio")
        # ---- composition of transforms
        for p, q in zip(case["pfs"], case["pfs"][1:]):
            two = w.transform_to_failure_probability(p).transform_to_failure_probability(q).to_pandas()
            one = w.transform_to_failure_probability(q).to_pandas()
            for f in FIELDS:
                if not close(float(two[f]), float(one[f]), 1e-10):
                    return (f"transform to {p!r} then {q!r} differs from transform to {q!r} in {f}: {float(two[f])!r} vs {float(one[f])!r}; {tag}", "transform-compose")
        # ---- Miner variants
        for meth, want in (("miner_original", INF), ("miner_elementary", k1), ("miner_haibach", 2.0 * k1 - 1.0)):
            v = getattr(w, meth)()
            vp = v.to_pandas()
            if float(vp.k_2) != want:
                return (f"{meth}: k_2 = {float(vp.k_2)!r}, expected {want!r}; {tag}", "miner-k2")
            for f in FIELDS:
                if f != "k_2" and f2h(float(vp[f])) != f2h(float(base[f])):
                    return (f"{meth} changed {f}: {float(base[f])!r} -> {float(vp[f])!r}; {tag}", "miner-other-field")
            if type(v) is not type(w):
                return (f"{meth} returns {type(v).__name__}, not {type(w).__name__}; {tag}", "miner-other-field")
            L = float(base.SD) * 1.5
            if not close(fl(v.cycles(L, nat)), cyc(L, nat), 1e-13):
                return (f"{meth} changes the cycles above the knee; {tag}", "miner-other-field")
        # ---- nothing above altered the original object / the accessor's state
        if not (list(s.index) == list(snapshot.index) and all(f2h(a) == f2h(b) for a, b in zip(s.values, snapshot.values))):
            return (f"the pandas object the accessor was created from was altered: {dict(s)!r} vs {dict(snapshot)!r}", "object-altered")
        now = w.to_pandas()
        if not (list(now.index) == list(base.index) and all(f2h(float(now[f])) == f2h(float(base[f])) for f in FIELDS)):
            return (f"the accessor's own curve was altered by transform/miner/cycles calls: {dict(now)!r} vs {dict(base)!r}", "object-altered")
        return None

    def _oracle_bc(self, case):
        _wc()
        try:
            got = self._bc_impl(case)
        except Exception as e:
            return (f"broadcast call raised {type(e).__name__}: {e}; mode={case['mode']}", "broadcast-error")
        mode, vals, pf = case["mode"], case["vals"], float(case["pf"])
        curves = case["curves"]
        what = f"mode={mode} pf={pf!r} vals={vals!r} curves={curves!r}"
        ops = [(f"broadcast evaluation ({mode}) at failure probability {pf!r}", lambda a: self._bc_raw(case, a))]
        rows = case.get("pf_rows")
        if rows:
            ops.append((f"broadcast evaluation ({mode}) at per-row failure probabilities {rows!r}",
                        lambda a: self._bc_raw(case, a, np.array(rows, dtype=np.float64))))
        try:
            res = evaluation_leaves_signal_alone(lambda: self._bc_signal(case), ops, what)
        except Exception as e:
            return (f"broadcast call raised {type(e).__name__}: {e}; {what}", "broadcast-error")
        if res is not None:
            return res
        if rows:
            _u, wf = self._bc_signal(case)
            got_rows = self._bc_flat(case, wf, self._bc_raw(case, wf, np.array(rows, dtype=np.float64)))
            want_rows = [fl(curve_series(c).woehler.cycles(float(v), float(q))) for c, v, q in zip(curves, vals, rows)]
            if len(got_rows) != len(want_rows):
                return (f"per-row probabilities: {len(got_rows)} entries, element-wise evaluation {len(want_rows)}; {what}", "broadcast")
            for i, (a, b) in enumerate(zip(got_rows, want_rows)):
                if not close(a, b, 1e-13):
                    return (f"broadcast ({mode}) with per-row failure probabilities {rows!r}: entry {i} = {a!r}, scalar evaluation = {b!r}; {what}", "broadcast")
        want = []
        if mode in ("series", "array", "list"):
            w = accessor(curves[0], curve_series(curves[0]))
            want = [fl(w.cycles(float(v), pf)) for v in vals]
        elif mode in ("lseries", "larray"):
            w = accessor(curves[0], curve_series(curves[0]))
            want = [fl(w.load(float(v), pf)) for v in vals]
        elif mode == "cross":
            for c in curves:
                w = curve_series(c).woehler
                want += [fl(w.cycles(float(v), pf)) for v in vals]
        else:
            for c, v in zip(curves, vals):
                want.append(fl(curve_series(c).woehler.cycles(float(v), pf)))
        if len(got) != len(want):
            return (f"broadcast result has {len(got)} entries, element-wise evaluation {len(want)}; mode={mode}", "broadcast")
        for i, (a, b) in enumerate(zip(got, want)):
            if not close(a, b, 1e-13):
                return (f"broadcast ({mode}) entry {i} = {a!r}, scalar evaluation = {b!r}", "broadcast")
        return None

    def _oracle_sc(self, case):
        fn = _wc()
        import scipy.stats as st
        T, s = float(case["T"]), float(case["s"])
        z90 = float(st.norm.ppf(0.9))
        c_eff = float(fn.scattering_range_to_std(10.0))        # log10(10) = 1 exactly: the code's constant
        if not abs(2.0 * z90 * c_eff - 1.0) < 1e-15:
            return (f"the constant of scattering_range_to_std is {c_eff!r}: 2*ppf(0.9)*c - 1 = {2.0 * z90 * c_eff - 1.0!r}", "std-range-definition")
        back = float(fn.std_to_scattering_range(fn.scattering_range_to_std(T)))
        if not close(back, T, 1e-12):
            return (f"std_to_scattering_range(scattering_range_to_std({T!r})) = {back!r}", "std-range-inverse")
        back = float(fn.scattering_range_to_std(fn.std_to_scattering_range(s)))
        if not close(back, s, 1e-12, atol=1e-15):   # 10^(tiny) = 1 + tiny rounds with absolute error 1e-16
            return (f"scattering_range_to_std(std_to_scattering_range({s!r})) = {back!r}", "std-range-inverse")
        if not close(float(fn.std_to_scattering_range(s)), 10.0 ** (2.0 * z90 * s), 1e-12):
            return (f"std_to_scattering_range({s!r}) = {float(fn.std_to_scattering_range(s))!r} != 10^(2 z90 s) = {10.0 ** (2.0 * z90 * s)!r}", "std-range-definition")
        if not close(float(fn.scattering_range_to_std(T)), math.log10(T) / (2.0 * z90), 1e-12, atol=1e-300):
            return (f"scattering_range_to_std({T!r}) = {float(fn.scattering_range_to_std(T))!r} != log10(T)/(2 z90)", "std-range-definition")
        return None

    # -------------------------------------------------------------- shrinking
    def shrink(self, case, still_fails):
        cur = dict(case)
        if cur["t"] == "curve":
            for key in ("pfs", "loads", "cycles"):
                lst = list(cur[key])
                if key == "pfs":
                    cands = [[a] for a in lst] + [[a, b] for a, b in zip(lst, lst[1:])]
                else:
                    cands = [[]] + [[a] for a in lst]
                for cand in cands:
                    trial = dict(cur)
                    trial[key] = cand
                    if key == "pfs" and not cand:
                        continue
                    try:
                        if still_fails(trial):
                            cur = trial
                            break
                    except Exception:
                        pass
            for key, val in (("acc", None), ("pf0", None), ("TN", None), ("TS", None)):
                if cur.get(key) is not None:
                    trial = dict(cur)
                    trial[key] = val
                    try:
                        if still_fails(trial):
                            cur = trial
                    except Exception:
                        pass
        elif cur["t"] == "bc" and cur["mode"] in ("series", "array", "list", "lseries", "larray", "cross"):
            for v in list(cur["vals"]):
                trial = dict(cur)
                trial["vals"] = [v]
                try:
                    if still_fails(trial):
                        cur = trial
                        break
                except Exception:
                    pass
        return cur
