"""C01 / C02 / C03: rainflow detectors.  Implementation side + generators + oracles."""
import itertools
import json
import math
import warnings

import numpy as np

from . import core
from .core import Prop

SOURCES = [
    "src/pylife/stress/rainflow/general.py",
    "src/pylife/stress/rainflow/threepoint.py",
    "src/pylife/stress/rainflow/fourpoint.py",
    "src/pylife/stress/rainflow/fkm.py",
    "src/pylife/stress/rainflow/extension.pyx",
    "src/pylife/stress/rainflow/recorders.py",
]
DETS = ["fourpoint", "threepoint", "fkm"]
_RF = None


def rf():
    global _RF
    if _RF is None:
        from . import extbuild
        extbuild.inject(log=lambda m: print("[ext] " + m, flush=True))
        import pylife.stress.rainflow as RF
        _RF = RF
    return _RF


def make(det):
    RF = rf()
    rec = RF.FullRecorder()
    cls = {"fourpoint": RF.FourPointDetector, "threepoint": RF.ThreePointDetector, "fkm": RF.FKMDetector}[det]
    return cls(recorder=rec), rec


def fmt(x):
    """Canonical integer text for integer-valued doubles."""
    xf = float(x)
    if xf != xf or xf in (math.inf, -math.inf) or xf != int(xf):
        return repr(xf)
    return str(int(xf))


EXPS = [-600, -44, -30, 20, 40, 900]      # -600 / 900: products of two differences under-/overflow (fix c6242ee)


class ArgumentChanged(Exception):
    """the implementation modified an argument that belongs to the caller (reported as a failure on the case)"""


def run_impl(det, chunks, as_float=None, exp=0, container=None):
    """Run the real detector on the chunk list; return a dict of observables.
    `exp`: the samples are multiplied by 2**exp before they are fed and the reported values are divided by it again -
    exact in IEEE arithmetic, so the result must be identical for every exp (the counting rules only compare samples and
    absolute differences of samples); it exposes absolute tolerances hidden in the code."""
    d, rec = make(det)
    sc = 2.0 ** exp
    for c in chunks:
        arr = np.asarray(c, dtype=np.float64) * sc
        if as_float is not None:
            arr = as_float(arr)
        if container == "list":
            arr = [float(x) for x in arr]
        elif container == "int64" and exp == 0 and as_float is None and all(float(x) == int(x) for x in arr):
            arr = np.asarray([int(x) for x in arr], dtype=np.int64)
        elif container == "view":
            wide = np.empty(2 * len(arr), dtype=np.float64)
            wide[:] = 12345.0
            wide[::2] = arr
            arr = wide[::2]                      # non-contiguous view
        elif container == "series":
            import pandas as pd
            arr = pd.Series(arr, index=[f"k{i}" for i in range(len(arr))])
        keep = np.array(arr, dtype=float, copy=True)
        d.process(arr)
        # a chunk is the caller's data: process() reads it (the usual caller feeds slices of ONE long array)
        if not np.array_equal(np.asarray(arr, dtype=float), keep, equal_nan=True):
            raise ArgumentChanged(f"process() changed the chunk it was given in place: {list(keep)[:8]} -> {list(np.asarray(arr, dtype=float))[:8]}")
    out = {
        "from": list(np.asarray(rec.values_from, dtype=float) / sc),
        "to": list(np.asarray(rec.values_to, dtype=float) / sc),
        "residuals": list(np.asarray(d.residuals, dtype=float) / sc),
        "rindex": [int(x) for x in np.asarray(d.residual_index).astype(np.int64)],
        "chunks": [int(x) for x in rec.chunks],
    }
    if det != "fkm":
        out["ifrom"] = [int(x) for x in rec.index_from]
        out["ito"] = [int(x) for x in rec.index_to]
    out["_rec"] = rec
    return out


def canon(det, o):
    if det == "fkm":
        cyc = " ".join(f"{fmt(a)}>{fmt(b)}" for a, b in zip(o["from"], o["to"]))
    else:
        cyc = " ".join(f"{i}:{fmt(a)}>{j}:{fmt(b)}" for a, b, i, j in zip(o["from"], o["to"], o["ifrom"], o["ito"]))
    out = f"cycles={cyc};residuals={' '.join(fmt(x) for x in o['residuals'])};rindex={' '.join(str(x) for x in o['rindex'])}"
    if det == "fkm":
        # the FKM detector reports no sample index to the recorder and (by the library's design, see AbstractDetector's doc
        # string) no chunk sizes: whether it calls report_chunk() is not part of any property
        return out
    return out + f";chunks={' '.join(str(x) for x in o['chunks'])}"


def split(signal, lens):
    out, k = [], 0
    for n in lens:
        out.append(signal[k:k + n])
        k += n
    return out


def rf_line(det, signal, lens):
    return f"rf {det} {len(lens)} {' '.join(map(str, lens))} {' '.join(map(str, signal))}"


# ------------------------------------------------------------------ generators
def compositions(n):
    """All partitions of n into consecutive non-empty chunk lengths."""
    if n == 0:
        return
    for mask in range(1 << (n - 1)):
        lens, run = [], 1
        for i in range(n - 1):
            if mask >> i & 1:
                lens.append(run)
                run = 1
            else:
                run += 1
        lens.append(run)
        yield lens


def random_signal(rng, n, mode):
    if mode == "small":
        k = rng.choice([2, 3, 4])
        return [rng.randrange(-k, k + 1) for _ in range(n)]
    if mode == "wide":
        return [rng.randrange(-1000, 1001) for _ in range(n)]
    if mode == "plateau":
        out, v = [], rng.randrange(-5, 6)
        while len(out) < n:
            if rng.random() < 0.5:
                v = rng.randrange(-5, 6)
            out.extend([v] * rng.randint(1, 4))
        return out[:n]
    if mode == "runs":
        out, v = [], 0
        while len(out) < n:
            step = rng.choice([-3, -2, -1, 1, 2, 3])
            for _ in range(rng.randint(1, 5)):
                v += step
                out.append(v)
        return out[:n]
    if mode == "ties":   # repeated extreme values and equal ranges
        levels = [-4, -2, 0, 2, 4]
        return [rng.choice(levels) for _ in range(n)]
    if mode == "near_tie":
        # ranges that differ by one part in 2**k (all values and all differences exact in double): a closing rule made
        # "robust" with a relative tolerance, or a loss of precision (float32), decides these differently
        k = rng.randrange(20, 51)
        b = 1 << k
        levels = [0, b, -b, b + 1, b - 1, -b - 1, -b + 1, b + 2, -b - 2, 1, -1, 2 * b, -2 * b, 2 * b + 1]
        return [rng.choice(levels) for _ in range(n)]
    raise ValueError(mode)


def to_double(sig):
    """The integer signal mapped to doubles that are not integers (x -> 0.1 x + 0.3, strictly increasing on the integers used):
    the detectors' arithmetic (differences, absolute values, comparisons) and the reference rules' arithmetic in Python
    are the same IEEE operations, so everything is still compared exactly."""
    return [x * 0.1 + 0.3 for x in sig]


def random_cuts(rng, n):
    if n == 0:
        return []
    k = rng.choice([1, 1, 2, 3, 5, 8, 40])
    k = min(k, n)
    pts = sorted(rng.sample(range(1, n), k - 1)) if k > 1 else []
    lens, prev = [], 0
    for p in pts + [n]:
        lens.append(p - prev)
        prev = p
    return lens


MODES = ["small", "wide", "plateau", "runs", "ties", "near_tie"]


# ------------------------------------------------------------------ reference rules (oracle side, deliberately naive)
def ref_turning_points(sig):
    """first sample, interior reversals (first sample of a plateau), last sample -> [(i, v)]"""
    n = len(sig)
    pts = [(0, sig[0])]
    for i in range(1, n - 1):
        v = sig[i]
        if sig[i - 1] == v:
            continue
        nxt = None
        for j in range(i + 1, n):
            if sig[j] != v:
                nxt = sig[j]
                break
        if nxt is None:
            continue
        if (sig[i - 1] < v and nxt < v) or (sig[i - 1] > v and nxt > v):
            pts.append((i, v))
    pts.append((n - 1, sig[n - 1]))
    return pts


def ref_fourpoint(pts):
    st, cycles = [], []
    for p in pts:
        st.append(p)
        while len(st) >= 4:
            a, b, c, d = st[-4], st[-3], st[-2], st[-1]
            if abs(b[1] - c[1]) <= abs(a[1] - b[1]) and abs(b[1] - c[1]) <= abs(c[1] - d[1]):
                cycles.append((b, c))
                del st[-3:-1]
            else:
                break
    return cycles, st


def ref_hcm(turns):
    """Clormann-Seeger HCM on a reversal sequence (values)."""
    res, ir, cycles = [], 1, []
    for k in turns:
        while True:
            iz = len(res)
            if iz > ir:
                j, i = res[-1], res[-2]
                if abs(k - j) >= abs(j - i):
                    cycles.append((i, j))
                    del res[-2:]
                    continue
            elif iz == ir:
                if abs(k) > abs(res[-1]):
                    ir += 1
            break
        res.append(k)
    return cycles, res


# ------------------------------------------------------------------ C01
class C01(Prop):
    ID = "C01"
    PARALLEL = 8
    SOURCES = SOURCES
    NEEDS_EXT = True
    LEAN_MODULES = ["Proofs.C01"]
    THEOREMS = [
        "PylifeVerif.C01.newTurns_chunk_independent",
        "PylifeVerif.C01.fourPoint_chunk_independent",
        "PylifeVerif.C01.fkm_chunk_independent",
        "PylifeVerif.C01.threePoint_chunk_independent",
        "PylifeVerif.C01.chunkLocalIndex_correct",
        "PylifeVerif.C01.recorder_chunk_local_index_addresses_sample",
        "PylifeVerif.C01.recorder_chunk_local_index_addresses_sample_threePoint",
        "PylifeVerif.C01.fourPoint_index_valid_chunked",
        # the literal transcription of fourpoint_loop (re-scan on every chunk) = the stack model
        "PylifeVerif.C01.fourPoint_literal_eq",
        "PylifeVerif.C01.fourPointLit_chunk_independent",
        "PylifeVerif.C01.fourPoint_stack_irreducible",
    ]
    PARTIAL = {}
    ASSUMPTIONS = [
        "samples are modelled as integers: exact for integer-valued / dyadic doubles; rounding and overflow of a-b for arbitrary doubles are not modelled (the oracle additionally runs the chunking relation on non-dyadic doubles and on signals scaled by 2**e, e in -600..900)",
        "numpy array glue of process() (concatenate, uintp casts; list / int64 / non-contiguous / Series input) is covered by the correspondence only",
        "the FKM detector reports no sample index and (by the library's design, doc string of AbstractDetector) no chunk sizes to the recorder: the recorder's bookkeeping clause is read as being about the detectors that report indices; residual_index of the FKM detector is covered by the chunk-independence statements",
        "process(flush=True) and empty chunks are outside the quantifier: neither driven nor proved (on an empty chunk the literal model follows the code, the stack model does not - recorded as an example in Proofs/C01Literal.lean)",
        "the extension is rebuilt from extension.pyx with -O3 as /repo/setup.py does; detector.residual_index is a float64 array on the real code (np.append promotes) and is compared as integers",
    ]
    RULE = ("case = (detector, integer signal, partition into non-empty chunks); quick: all signals over 4 values up to "
            "length 5 (thorough: 6) x all partitions + seeded random signals (<= 400 samples, 6 shapes incl. near-ties 2**k +- 1, <= 40 chunks), "
            "some also scaled by 2**e or fed as list / int64 / non-contiguous view / Series; lines compared: the stack model (rf), the recorder's "
            "chunk_local_index of EVERY sample index (cli), the literal fourpoint_loop transcription (rf_lit); non-trivial = "
            "at least one recorded cycle and more than one chunk; distinct by (detector, signal, partition)")

    def __init__(self):
        self.stats = {"by_detector": {}, "by_mode": {}, "cycles_total": 0, "max_len": 0, "float_cases": 0}
        self.exhaustive = False

    def generate(self, rng, tier):
        maxlen = 5 if tier == "quick" else 6   # length 7 x all partitions is 3.1 M cases (30 min): beyond "several minutes"
        alphabet = [0, 1, 2, 3]
        self.exhaustive = True
        self.stats["exhaustive_scope"] = f"all signals over {alphabet} of length 1..{maxlen} x all partitions x 3 detectors"
        for n in range(1, maxlen + 1):
            for sig in itertools.product(alphabet, repeat=n):
                for lens in compositions(n):
                    for det in DETS:
                        yield {"det": det, "signal": list(sig), "lens": lens, "mode": "exh"}
        nrand = 600 if tier == "quick" else 20000
        for _ in range(nrand):
            mode = rng.choice(MODES)
            n = rng.choice([1, 2, 3, 5, 7, 8, 13, 30, 80, 200, 400]) if tier != "quick" else rng.choice([1, 2, 3, 5, 8, 13, 30, 80, 200])
            sig = random_signal(rng, n, mode)
            lens = random_cuts(rng, n)
            det = rng.choice(DETS)
            yield {"det": det, "signal": sig, "lens": lens, "mode": mode}
            if rng.random() < 0.2:
                yield {"det": det, "signal": sig, "lens": lens, "mode": mode, "float": True}
            if rng.random() < 0.25:
                yield {"det": det, "signal": sig, "lens": lens, "mode": mode, "exp": rng.choice(EXPS)}
            if rng.random() < 0.15:
                yield {"det": det, "signal": sig, "lens": lens, "mode": mode, "container": rng.choice(["list", "int64", "view", "series"])}

    def model_lines(self, case):
        if case.get("float"):
            return []
        out = [rf_line(case["det"], case["signal"], case["lens"])]
        if case["det"] != "fkm":
            n = len(case["signal"])
            out.append(f"cli {len(case['lens'])} {' '.join(map(str, case['lens']))} {' '.join(map(str, range(n)))}")
        if case["det"] == "fourpoint":
            # the LITERAL transcription of process()/fourpoint_loop (array cursors, re-scan of the stored residuals on every chunk)
            out.append("rf_lit" + rf_line(case["det"], case["signal"], case["lens"])[2:])
        return out

    def impl_lines(self, case):
        if case.get("float"):
            return []
        o = run_impl(case["det"], split(case["signal"], case["lens"]), exp=case.get("exp", 0), container=case.get("container"))
        self._count(case, o)
        out = [canon(case["det"], o)]
        if case["det"] != "fkm":
            # the recorder's global -> (chunk, position) map for EVERY sample index, against the model's chunkLocalIndex
            k, j = o["_rec"].chunk_local_index(np.arange(len(case["signal"])))
            out.append(" ".join(f"{int(a)}:{int(b)}" for a, b in zip(np.atleast_1d(k), np.atleast_1d(j))))
        if case["det"] == "fourpoint":
            out.append(out[0])
        return out

    def _count(self, case, o):
        s = self.stats
        s["by_detector"][case["det"]] = s["by_detector"].get(case["det"], 0) + 1
        s["by_mode"][case["mode"]] = s["by_mode"].get(case["mode"], 0) + 1
        s["cycles_total"] += len(o["from"])
        s["max_len"] = max(s["max_len"], len(case["signal"]))

    def nontrivial(self, case, model_out):
        if not model_out or len(case["lens"]) < 2 or "cycles=;" in model_out[0]:
            return None
        return (case["det"], tuple(case["signal"]), tuple(case["lens"]))

    def oracle(self, case):
        det, sig, lens = case["det"], case["signal"], case["lens"]
        tf = (lambda a: a * 0.1 + 0.3) if case.get("float") else None
        if case.get("float"):
            self.stats["float_cases"] += 1
        a = run_impl(det, split(sig, lens), tf, exp=case.get("exp", 0), container=case.get("container"))
        b = run_impl(det, [sig], tf, exp=case.get("exp", 0))
        for k in ("from", "to", "ifrom", "ito", "residuals", "rindex"):
            if k in a and a[k] != b[k]:
                return (f"chunked {lens} differs from one piece in {k}: {a[k]} vs {b[k]}", "chunk-dependence")
        if det != "fkm":
            rec = a["_rec"]
            vals = np.asarray(sig, dtype=float)
            if tf:
                vals = tf(vals * 2.0 ** case.get("exp", 0)) / 2.0 ** case.get("exp", 0)
            chunks = split(list(vals), lens)
            flat = [x for c in chunks for x in c]
            reported = list(zip(a["ifrom"], a["from"])) + list(zip(a["ito"], a["to"])) + list(zip(a["rindex"], a["residuals"]))
            for idx, val in reported:
                k, j = rec.chunk_local_index(np.asarray([idx]))
                k, j = int(k[0]), int(j[0])
                # by position (the chunk and the place in it that hold global sample idx), and by value
                if not (0 <= k < len(chunks) and 0 <= j < len(chunks[k]) and sum(lens[:k]) + j == idx and chunks[k][j] == val
                        and flat[idx] == val):
                    return (f"chunk_local_index({idx}) = ({k},{j}) is not the chunk/position of global sample {idx} (value {val}) for chunk lengths {lens}", "chunk-local-index")
            # two detectors alive at once, fed alternately (the other one gets the mirrored signal in other chunks): each must
            # report what it reports alone (state kept on the class or the module instead of the object)
            if len(chunks) >= 2 and len(sig) <= 40:
                dA, recA = make(det)
                dB, recB = make(det)
                sc = 2.0 ** case.get("exp", 0)
                other = [[-x for x in c] for c in chunks[::-1]]
                for ca, cb in zip(chunks, other):
                    dA.process(np.asarray(ca, dtype=np.float64) * sc)
                    dB.process(np.asarray(cb, dtype=np.float64) * sc)
                got = (list(np.asarray(recA.values_from, dtype=float) / sc), list(np.asarray(recA.values_to, dtype=float) / sc),
                       list(np.asarray(dA.residuals, dtype=float) / sc), [int(x) for x in recA.index_from], [int(x) for x in recA.index_to])
                want = (a["from"], a["to"], a["residuals"], a["ifrom"], a["ito"])
                if got != want:
                    return (f"a detector fed alternately with a second detector of the same class (chunk lengths {lens}) reports {got}, alone {want}", "chunk-dependence")
            # the same map asked DURING the feeding: after every chunk, for every sample fed so far (a recorder that remembers
            # the chunk limits of its first look-up - seeded change C01-m5 - answers the later ones from the old limits)
            d2, rec2 = make(det)
            fed = 0
            for ci, c in enumerate(chunks):
                d2.process(np.asarray(c, dtype=np.float64) * 2.0 ** case.get("exp", 0))
                fed += len(c)
                if fed == 0:
                    continue
                k, j = rec2.chunk_local_index(np.arange(fed))
                k, j = [int(x) for x in np.atleast_1d(k)], [int(x) for x in np.atleast_1d(j)]
                want = [(cc, pp) for cc, ch in enumerate(chunks[:ci + 1]) for pp in range(len(ch))]
                if list(zip(k, j)) != want:
                    bad = [i for i, (g, w) in enumerate(zip(zip(k, j), want)) if g != w][:1] or [min(len(k), len(want))]
                    return (f"chunk_local_index asked after chunk {ci} of chunk lengths {lens} (and after every earlier chunk): global sample "
                            f"{bad[0]} mapped to {list(zip(k, j))[bad[0]] if bad[0] < len(k) else None}, it is position {want[bad[0]] if bad[0] < len(want) else None}",
                            "chunk-local-index")
        return None

    def shrink(self, case, still_fails):
        return shrink_signal_case(case, still_fails)


def shrink_signal_case(case, still_fails):
    """Greedy: drop samples (re-cutting into the same number of chunks where possible)."""
    cur = dict(case)
    changed = True
    while changed and len(cur["signal"]) > 1:
        changed = False
        for i in range(len(cur["signal"])):
            sig = cur["signal"][:i] + cur["signal"][i + 1:]
            lens = list(cur.get("lens", [len(cur["signal"])]))
            # remove the sample from the chunk holding it
            k, acc = 0, 0
            while acc + lens[k] <= i:
                acc += lens[k]
                k += 1
            lens[k] -= 1
            lens = [l for l in lens if l > 0]
            cand = dict(cur, signal=sig, lens=lens)
            if sig and still_fails(cand):
                cur = cand
                changed = True
                break
    return cur


# ------------------------------------------------------------------ C02
class C02(Prop):
    ID = "C02"
    PARALLEL = 8
    SOURCES = SOURCES
    NEEDS_EXT = True
    LEAN_MODULES = ["Proofs.C02"]
    THEOREMS = [
        "PylifeVerif.C02.findTurns_eq_reversals",
        "PylifeVerif.C02.fourPoint_eq_spec",
        "PylifeVerif.C02.fourPoint_partition",
        "PylifeVerif.C02.fourPoint_index_valid",
        "PylifeVerif.C02.threePoint_same_cycles",
        "PylifeVerif.ThreePoint.tpRun_eq_fpRun",
        "PylifeVerif.C02.fkm_eq_spec",
        "PylifeVerif.C02.fkm_partition",
        "PylifeVerif.C02.fourPoint_eq_spec_chunked",
        "PylifeVerif.C02.threePoint_eq_spec_chunked",
        "PylifeVerif.C02.fkm_eq_spec_chunked",
        "PylifeVerif.C02.fourPoint_partition_chunked",
        "PylifeVerif.C02.fkm_partition_chunked",
        "PylifeVerif.C02.threePoint_partition_chunked",
        "PylifeVerif.C02.threePoint_index_valid_chunked",
        # published worked example (Haibach, Betriebsfestigkeit, fig. 3.3-30, as transcribed in the repository's tests), kernel evaluation
        "PylifeVerif.C02.literal_haibach_fourPoint",
        "PylifeVerif.C02.literal_haibach_fourPoint_chunked",
        "PylifeVerif.C02.literal_haibach_threePoint",
        "PylifeVerif.C02.literal_haibach_spec",
        "PylifeVerif.C02.literal_haibach_matrix",
        "PylifeVerif.C02.literal_fkm_memory_1_2_3",
    ]
    PARTIAL = {}
    ASSUMPTIONS = [
        "samples are modelled as integers (see C01)",
        "the Clormann-Seeger rule is stated without the two 'not a reversal' guards of the 1986 listing because its input is a reversal sequence (DESIGN C02); Spec.hcm has the loop shape of the detector model (same author) - the reading of the four-point rule is pinned to a published example (Haibach fig. 3.3-30, C02.literal_haibach_*), for HCM only repository test vectors are kernel-checked",
        "'every reported index addresses a sample whose value is the reported value' is read as n/a for the FKM detector, which reports no cycle indices",
    ]
    RULE = ("case = (detector, integer signal of length >= 2), fed in one piece, in random chunks, scaled by 2**e (e in -600..900), and - for all "
            "signals over {0,1,2} up to length 5 (thorough 6) - in every partition; exhaustive small scope + seeded random signals "
            "with many ties and near-ties; oracle-only cases on non-integer doubles; model's spec functions (turning points, textbook four-point "
            "rule, Clormann-Seeger HCM) are compared with the oracle's reference rules and the detector model with the implementation's output; "
            "non-trivial = at least one cycle; distinct by (detector, signal)")

    def __init__(self):
        self.stats = {"by_detector": {}, "by_mode": {}, "cycles_total": 0, "tie_cases": 0, "double_cases": 0}
        self.exhaustive = False

    def generate(self, rng, tier):
        maxlen = 6 if tier == "quick" else 8
        alphabet = [-2, -1, 0, 1, 2] if tier != "quick" else [-1, 0, 1, 2]
        self.exhaustive = True
        self.stats["exhaustive_scope"] = f"all signals over {alphabet} of length 2..{maxlen} x 3 detectors"
        for n in range(2, maxlen + 1):
            for sig in itertools.product(alphabet, repeat=n):
                for det in DETS:
                    yield {"det": det, "signal": list(sig), "mode": "exh"}
        nrand = 1500 if tier == "quick" else 15000
        for _ in range(nrand):
            mode = rng.choice(MODES + ["ties", "ties"])
            n = rng.choice([2, 3, 5, 8, 13, 30, 80, 200])
            sig = random_signal(rng, n, mode)
            det = rng.choice(DETS)
            yield {"det": det, "signal": sig, "mode": mode}
            # the rules must be realised for every way of feeding the signal (C02 *_chunked theorems)
            yield {"det": det, "signal": sig, "mode": mode, "lens": random_cuts(rng, n)}
            # ... and at every scale: samples times an exact power of two (absolute tolerances in the code show up here)
            yield {"det": det, "signal": sig, "mode": mode, "exp": rng.choice(EXPS), "lens": random_cuts(rng, n) if rng.random() < 0.5 else None}
            # ... and on doubles that are not integers (oracle only: the model's samples are integers)
            if rng.random() < 0.5:
                yield {"det": det, "signal": sig, "mode": mode, "fl": "map", "lens": random_cuts(rng, n) if rng.random() < 0.5 else None}
            else:
                yield {"det": det, "signal": [rng.choice([rng.uniform(-1, 1), rng.gauss(0, 1e3), round(rng.uniform(-2, 2), 1)]) for _ in range(n)],
                       "mode": "doubles", "fl": "raw", "lens": random_cuts(rng, n) if rng.random() < 0.5 else None}
        # exhaustive: every partition of every plateau-rich signal over 3 values up to length 6 (quick: 5)
        ml = 5 if tier == "quick" else 6
        for n in range(2, ml + 1):
            for sig in itertools.product([0, 1, 2], repeat=n):
                for lens in compositions(n):
                    if len(lens) > 1:
                        yield {"det": DETS[(sum(sig) + len(lens)) % 3], "signal": list(sig), "mode": "exh-chunked", "lens": lens}

    def model_lines(self, case):
        if case.get("fl"):
            return []
        n = len(case["signal"])
        sig = " ".join(map(str, case["signal"]))
        return [rf_line(case["det"], case["signal"], case.get("lens") or [n]), f"spec {case['det']} {sig}"]

    def impl_lines(self, case):
        if case.get("fl"):
            return []
        det = case["det"]
        o = run_impl(det, split(case["signal"], case["lens"]) if case.get("lens") else [case["signal"]], exp=case.get("exp", 0))
        s = self.stats
        s["by_detector"][det] = s["by_detector"].get(det, 0) + 1
        s["by_mode"][case["mode"]] = s["by_mode"].get(case["mode"], 0) + 1
        s["cycles_total"] += len(o["from"])
        full = canon(det, o)
        # line 1: the Lean Spec functions are compared with the oracle's reference rules (so that the
        # specification used in the theorems is the specification the oracle holds the code against)
        tps = ref_turning_points(case["signal"])
        rng_ = [abs(b[1] - a[1]) for a, b in zip(tps, tps[1:])]
        if len(set(rng_)) < len(rng_):
            s["tie_cases"] += 1                 # at least two equal ranges between successive turning points
        if det == "fkm":
            cycles, resid = ref_hcm([v for (_i, v) in tps[1:-1]])
            spec = f"cycles={' '.join(f'{a}>{b}' for a, b in cycles)};residuals={' '.join(map(str, resid))}"
        else:
            cycles, resid = ref_fourpoint(tps)
            cyc = " ".join(f"{b[0]}:{b[1]}>{c[0]}:{c[1]}" for b, c in cycles)
            spec = f"cycles={cyc};residuals={' '.join(str(p[1]) for p in resid)};rindex={' '.join(str(p[0]) for p in resid)}"
        return [full, spec]

    def nontrivial(self, case, model_out):
        if not model_out or "cycles=;" in model_out[0]:
            return None
        return (case["det"], tuple(case["signal"]))

    def oracle(self, case):
        det, sig = case["det"], case["signal"]
        if case.get("fl") == "map":
            sig = to_double(sig)
        if case.get("fl"):
            self.stats["double_cases"] = self.stats.get("double_cases", 0) + 1
        o = run_impl(det, split(sig, case["lens"]) if case.get("lens") else [sig], exp=case.get("exp", 0))
        tps = ref_turning_points(sig)
        if det in ("fourpoint", "threepoint"):
            cycles, resid = ref_fourpoint(tps)
            got = [((i, a), (j, b)) for a, b, i, j in zip(o["from"], o["to"], o["ifrom"], o["ito"])]
            want = [((b[0], float(b[1])), (c[0], float(c[1]))) for b, c in cycles]
            if det == "fourpoint":
                if got != want:
                    return (f"four-point cycles {got} != textbook rule {want}", "fourpoint-spec")
            else:
                if sorted(got) != sorted(want):
                    return (f"three-point cycles {sorted(got)} != four-point multiset {sorted(want)}", "threepoint-spec")
            if o["residuals"] != [float(p[1]) for p in resid] or o["rindex"] != [p[0] for p in resid]:
                return (f"{det} residual {list(zip(o['rindex'], o['residuals']))} != rule's residual {resid}", f"{det}-residual")
            # partition + index validity
            used = sorted([p for cyc in got for p in cyc] + list(zip(o["rindex"], o["residuals"])))
            if used != sorted((i, float(v)) for i, v in tps):
                return (f"{det}: cycle end points + residual {used} != turning points {tps}", "partition")
            for i, v in used:
                if not (0 <= i < len(sig) and float(sig[i]) == v):
                    return (f"{det}: reported index {i} does not address value {v}", "index-valid")
        else:
            turns = [v for (_i, v) in tps[1:-1]]
            cycles, resid = ref_hcm(turns)
            got = list(zip(o["from"], o["to"]))
            want = [(float(a), float(b)) for a, b in cycles]
            if got != want or o["residuals"] != [float(x) for x in resid]:
                tie = len(set(abs(t) for t in turns)) < len(turns)
                return (f"FKM detector cycles {got} residual {o['residuals']} != Clormann-Seeger {want} residual {resid}",
                        "fkm-abs-tie" if tie else "fkm-spec")
            used = sorted([x for c in got for x in c] + o["residuals"])
            if used != sorted(float(t) for t in turns):
                return (f"fkm: cycle end points + residual {used} != interior reversals {turns}", "partition")
        return None

    def shrink(self, case, still_fails):
        if case.get("lens") and len(case["lens"]) > 1:
            return shrink_signal_case(case, lambda x: len(x["signal"]) >= 2 and still_fails(x))
        c = dict(case, lens=[len(case["signal"])])
        r = shrink_signal_case(c, lambda x: len(x["signal"]) >= 2 and still_fails({k: v for k, v in x.items() if k != "lens"}))
        r.pop("lens", None)
        return r


# ------------------------------------------------------------------ C03
def insert_nonreversals(rng, sig):
    """Refine by samples that are not reversals: values between neighbours (inclusive)."""
    out, index_map = [], []
    for i, v in enumerate(sig):
        index_map.append(len(out))
        out.append(v)
        if i + 1 < len(sig) and rng.random() < 0.5:
            lo, hi = sorted((v, sig[i + 1]))
            k = rng.randint(1, 3)
            vals = sorted(rng.randint(lo, hi) for _ in range(k))
            if sig[i + 1] < v:
                vals.reverse()
            out.extend(vals)
    return out, index_map


class C03(Prop):
    ID = "C03"
    PARALLEL = 8
    SOURCES = SOURCES
    NEEDS_EXT = True
    LEAN_MODULES = ["Proofs.C03"]
    THEOREMS = [
        "PylifeVerif.C03.findTurns_neg",
        "PylifeVerif.C03.findTurns_affine",
        "PylifeVerif.C03.fourPoint_affine",
        "PylifeVerif.C03.fkm_neg",
        "PylifeVerif.C03.threePoint_neg",
        "PylifeVerif.C03.threePoint_affine",
        "PylifeVerif.C03.findTurns_insert_nonreversal",
        "PylifeVerif.C03.findTurnsNan_reindex",
        "PylifeVerif.C03.findTurnsNan_index_valid",
        "PylifeVerif.C03.findTurns_eq_numpy",
        "PylifeVerif.C03.findTurns_insert_nonreversal_index",
        "PylifeVerif.C03.fourPoint_insert_nonreversal",
        "PylifeVerif.C03.fourPoint_insert_nonreversal_chunked",
        "PylifeVerif.C03.threePoint_insert_nonreversal",
        "PylifeVerif.C03.fkm_insert_nonreversal",
        "PylifeVerif.C03.fkm_insert_nonreversal_chunked",
        "PylifeVerif.C03.insert_index_map",
        "PylifeVerif.C03.fourPoint_insert_nonreversal_values",
        "PylifeVerif.C03.threePoint_insert_nonreversal_chunked",
        "PylifeVerif.C03.findTurnsNumpy_eq_reversals",
        "PylifeVerif.C03.threePoint_affine_index",
        # NaN samples at detector level (samples as Option Int)
        "PylifeVerif.C03.newTurnsNan_chunked",
        "PylifeVerif.C03.newTurnsNan_chunk_independent",
        "PylifeVerif.C03.fourPoint_nan_chunked",
        "PylifeVerif.C03.fourPoint_nan_chunk_independent",
        "PylifeVerif.C03.fourPoint_nan_index_valid",
        "PylifeVerif.C03.fkm_nan_chunked",
    ]
    PARTIAL = {}
    ASSUMPTIONS = [
        "samples are modelled as integers (see C01); NaN samples as `none`",
        "pandas Series -> ndarray conversion is glue, covered by the oracle on four index types (also in chunks and with NaN samples)",
        "NaN samples: four-point and FKM detectors are modelled (Proofs/C03Nan.lean); the three-point detector on NaN samples and the NaN warning are covered by the oracle only",
        "affine maps x -> a x + b are proved for integer a, b: fourPoint_affine and threePoint_affine_index (values, indices, residual index) hold for every a != 0, findTurns_affine and threePoint_affine need a > 0; the oracle uses positive integer maps and exact powers of two, and limits a, b so that 2 a max|x| + |b| < 2^52 (otherwise a falls back to 1 and, if still too large, b to 0: the mapped samples stay exactly representable integers)",
    ]
    RULE = ("case = integer signal (+ NaN positions / refinement seed / affine map); correspondence on find_turns (model scan, "
            "model numpy transcription, implementation) incl. NaN re-indexing, and - for every signal over {0,1,2,NaN} up to length 5 (thorough 7), "
            "NaN away from the ends - the NaN detector models (rf_nan fourpoint / fkm) in one piece, every cut into two and single-sample chunks; "
            "oracle: refinement by non-reversal samples (one piece and chunked, values and the exact index map, also on non-integer doubles), "
            "negation, positive affine maps, scaling by 2**e, Series index types (chunked, with NaN); non-trivial = at least one turning point")

    def __init__(self):
        self.stats = {"turn_cases": 0, "nan_cases": 0, "sym_cases": 0, "series_cases": 0}
        self.exhaustive = False

    def generate(self, rng, tier):
        maxlen = 7 if tier == "quick" else 10
        self.exhaustive = True
        self.stats["exhaustive_scope"] = f"find_turns: all difference-sign patterns (signals over {{0,1,2}}) up to length {maxlen}"
        for n in range(1, maxlen + 1):
            for sig in itertools.product([0, 1, 2], repeat=n):
                yield {"kind": "turns", "signal": list(sig)}
        nrand = 400 if tier == "quick" else 4000
        for _ in range(nrand):
            mode = rng.choice(MODES)
            n = rng.choice([3, 5, 8, 13, 30, 80])
            sig = random_signal(rng, n, mode)
            yield {"kind": "turns", "signal": sig}
            nn = rng.randint(1, max(1, n // 4))
            pos = sorted(rng.sample(range(1, n - 1), min(nn, n - 2))) if n > 2 else []
            if pos:
                yield {"kind": "nan", "signal": sig, "nan_at": pos}
            yield {"kind": "sym", "signal": sig, "seed": rng.randrange(1 << 30), "det": rng.choice(DETS),
                   "a": rng.choice([1, 2, 3, 7]), "b": rng.choice([-5, 0, 4, 100]), "fl": rng.random() < 0.3}
            if rng.random() < 0.3:
                yield {"kind": "series", "signal": sig, "det": rng.choice(DETS), "index": rng.choice(["shuffled", "float", "datetime", "string"]),
                       "seed": rng.randrange(1 << 30), "nan_at": pos if rng.random() < 0.5 else []}
        # exhaustive: NaN samples through the detectors - every signal over {0,1,2,NaN} (NaN away from the ends),
        # every partition into chunks, three detectors
        ml = 5 if tier == "quick" else 7
        self.stats["exhaustive_scope_nan"] = f"detectors: all signals over {{0,1,2,NaN}} of length 3..{ml}, NaN not at the ends, x all partitions (thorough, length 7: 64 sampled partitions)"
        for n in range(3, ml + 1):
            for sig in itertools.product([0, 1, 2, None], repeat=n):
                if sig[0] is None or sig[-1] is None or None not in sig:
                    continue
                yield {"kind": "nanx", "signal": list(sig)}

    def model_lines(self, case):
        if case["kind"] == "turns":
            s = " ".join(map(str, case["signal"]))
            return [f"turns {s}", f"turns_np {s}"]
        if case["kind"] == "nan":
            s = " ".join(map(str, case["signal"]))
            return [f"turns_nan {len(case['nan_at'])} {' '.join(map(str, case['nan_at']))} {s}"]
        if case["kind"] == "nanx":
            toks = " ".join("nan" if x is None else str(x) for x in case["signal"])
            out = []
            for lens in nanx_partitions(case["signal"]):
                head = f"{len(lens)} {' '.join(map(str, lens))} {toks}"
                out += [f"rf_nan fourpoint {head}", f"rf_nan fkm {head}"]
            return out
        return []

    def impl_lines(self, case):
        RF = rf()
        from pylife.stress.rainflow.general import find_turns
        if case["kind"] == "turns":
            self.stats["turn_cases"] += 1
            idx, vals = find_turns(np.asarray(case["signal"], dtype=float))
            s = " ".join(f"{int(i)}:{fmt(v)}" for i, v in zip(idx, vals))
            return [s, s]
        if case["kind"] == "nan":
            self.stats["nan_cases"] += 1
            full = nan_signal(case)
            with warnings.catch_warnings():
                warnings.simplefilter("ignore")
                idx, vals = find_turns(full)
            return [" ".join(f"{int(i)}:{fmt(v)}" for i, v in zip(idx, vals))]
        if case["kind"] == "nanx":
            sig = [float("nan") if x is None else float(x) for x in case["signal"]]
            out = []
            with warnings.catch_warnings():
                warnings.simplefilter("ignore")
                for lens in nanx_partitions(case["signal"]):
                    for det in ("fourpoint", "fkm"):
                        o = run_impl(det, split(sig, lens))
                        line = canon(det, o).replace("nan", "nan")
                        out.append(line if det == "fourpoint" else line)
            return out
        return []

    def nontrivial(self, case, model_out):
        if case["kind"] in ("turns", "nan"):
            return None if not model_out or model_out[0] == "" else (case["kind"], tuple(case["signal"]), tuple(case.get("nan_at", [])))
        return (case["kind"], tuple(case["signal"]), case.get("seed"))

    def _oracle_nanx(self, case):
        """NaN samples at detector level: same values as the cleaned signal, indices in ORIGINAL coordinates, for every partition."""
        sig = [float("nan") if x is None else float(x) for x in case["signal"]]
        n = len(sig)
        clean = [x for x in sig if x == x]
        keep = [i for i, x in enumerate(sig) if x == x]          # position in the original of the i-th clean sample
        self.stats["nanx_cases"] = self.stats.get("nanx_cases", 0) + 1
        parts = list(compositions(n))
        if len(parts) > 64:
            import random as _random
            parts = _random.Random(hash(tuple(case["signal"])) & 0xffff).sample(parts, 64)
        with warnings.catch_warnings():
            warnings.simplefilter("ignore")
            for det in DETS:
                ref_run = run_impl(det, [clean])
                one = run_impl(det, [sig])
                for k in ("from", "to", "residuals"):
                    if one[k] != ref_run[k]:
                        return (f"{det}: {k} with NaN samples {one[k]} != without {ref_run[k]} (signal {sig})", "nan-values")
                if det != "fkm":
                    for ik in ("ifrom", "ito", "rindex"):
                        want = [keep[i] for i in ref_run[ik]]
                        if one[ik] != want:
                            return (f"{det}: {ik} with NaN samples {one[ik]}, expected the original positions {want} of the cleaned signal's {ref_run[ik]} (signal {sig})", "nan-index")
                for lens in parts:
                    if len(lens) == 1:
                        continue
                    ch = run_impl(det, split(sig, lens))
                    for k in ("from", "to", "residuals", "ifrom", "ito", "rindex"):
                        if k in one and ch[k] != one[k]:
                            return (f"{det}: signal with NaNs {sig} fed in chunks {lens}: {k} {ch[k]} != one piece {one[k]}", "nan-chunked")
        return None

    def oracle(self, case):
        import random
        rf()
        kind = case["kind"]
        sig = case["signal"]
        if kind == "turns":
            return None
        if kind == "nanx":
            return self._oracle_nanx(case)
        if kind == "nan":
            # NaNs dropped with a warning, indices refer to the original signal
            from pylife.stress.rainflow.general import find_turns
            full = nan_signal(case)
            with warnings.catch_warnings(record=True) as w:
                warnings.simplefilter("always")
                idx, vals = find_turns(full)
            if not any("NaN" in str(x.message) for x in w):
                return ("no warning for NaN samples", "nan-warning")
            for i, v in zip(idx, vals):
                if not full[int(i)] == v:
                    return (f"turn index {int(i)} does not address value {v} in the signal with NaNs", "nan-index")
            clean = [x for x in full if x == x]
            idx2, vals2 = find_turns(np.asarray(clean))
            if list(vals) != list(vals2):
                return (f"turn values with NaNs {list(vals)} != without {list(vals2)}", "nan-values")
            # through the detectors: values as for the cleaned signal, indices address the reported values in the ORIGINAL
            # signal, also when the signal with NaNs arrives in chunks
            import random as _random
            r = _random.Random(len(full) * 7919 + sum(case["nan_at"]))
            det = DETS[(len(full) + case["nan_at"][0]) % 3]
            with warnings.catch_warnings():
                warnings.simplefilter("ignore")
                ref_run = run_impl(det, [clean])
                one = run_impl(det, [list(full)])
                cuts = random_cuts(r, len(full))
                chunked = run_impl(det, split(list(full), cuts))
            for k in ("from", "to"):
                if one[k] != ref_run[k]:
                    return (f"{det}: cycle values with NaN samples {one[k]} != without {ref_run[k]}", "nan-values")
                if chunked[k] != one[k]:
                    return (f"{det}: signal with NaNs fed in chunks {cuts}: {k} {chunked[k]} != one piece {one[k]}", "nan-chunked")
            if det != "fkm":
                for ik, vk in (("ifrom", "from"), ("ito", "to")):
                    for i, v in zip(one[ik], one[vk]):
                        if not (0 <= i < len(full) and full[i] == v):
                            return (f"{det}: with NaN samples the reported index {i} does not address the value {v} in the original signal", "nan-index")
                    if chunked[ik] != one[ik]:
                        return (f"{det}: signal with NaNs fed in chunks {cuts}: {ik} {chunked[ik]} != one piece {one[ik]}", "nan-chunked")
            return None
        if kind == "sym":
            self.stats["sym_cases"] += 1
            det = case["det"]
            r = random.Random(case["seed"])
            # refinement by non-reversal samples
            ref, imap = insert_nonreversals(r, sig)
            if case.get("fl"):
                sig, ref = to_double(sig), to_double(ref)        # strictly increasing map: the refinement stays a refinement
            base = run_impl(det, [sig])
            o = run_impl(det, [ref])
            for k in ("from", "to", "residuals"):
                if o[k] != base[k]:
                    return (f"{det}: refinement by non-reversals changed {k}: {base[k]} -> {o[k]} (signal {sig} -> {ref})", "refinement")
            # the same when the refined signal arrives in chunks (borders inside the inserted plateaus / runs)
            cuts = random_cuts(r, len(ref))
            oc = run_impl(det, split(ref, cuts))
            for k in ("from", "to", "residuals"):
                if oc[k] != base[k]:
                    return (f"{det}: refinement by non-reversals, fed in chunks {cuts}, changed {k}: {base[k]} -> {oc[k]} (signal {sig} -> {ref})", "refinement")
            # scaling by an exact power of two (a positive affine map for three-/four-point, a positive scale for FKM)
            for e in EXPS:
                sc = run_impl(det, [sig], exp=e)
                for k in ("from", "to", "residuals", "ifrom", "ito", "rindex"):
                    if k in base and sc[k] != base[k]:
                        return (f"{det}: scaling the signal by 2**{e} changes {k} (after scaling back): {base[k]} -> {sc[k]} (signal {sig})", "affine")
            if det != "fkm":
                # indices move with the samples: the j-th turning point of the signal (first sample, reversals at the first
                # sample of a plateau, last sample) is the j-th turning point of the refinement; every reported index of the
                # base run must be reported at the corresponding position of the refined run - in one piece and in chunks
                tb, tr = ref_turning_points(sig), ref_turning_points(ref)
                if [v for _i, v in tb] != [v for _i, v in tr]:
                    raise AssertionError("harness: refinement changed the turning point values")
                move = {i: j for (i, _v), (j, _w) in zip(tb, tr)}
                for k in ("ifrom", "ito", "rindex"):
                    want = [move.get(g) for g in base[k]]
                    for run, how in ((o, "in one piece"), (oc, f"in chunks {cuts}")):
                        if run[k] != want:
                            return (f"{det}: {k} of the refined signal {how} is {run[k]}, expected {want} (base {base[k]}; signal {sig} -> {ref})", "refinement-index")
            else:
                if oc["rindex"] != o["rindex"]:
                    return (f"fkm: residual index of the refined signal in chunks {cuts} {oc['rindex']} != one piece {o['rindex']}", "refinement-index")
            # negation
            neg = run_impl(det, [[-x for x in sig]])
            for k in ("from", "to", "residuals"):
                if [-x for x in neg[k]] != base[k]:
                    return (f"{det}: negation does not negate {k}: {base[k]} vs {neg[k]}", "negation")
            for k in ("ifrom", "ito", "rindex"):
                if k in base and neg[k] != base[k]:
                    return (f"{det}: negation changed {k}", "negation")
            if det != "fkm" and not case.get("fl"):
                a, b = case["a"], case["b"]
                mx = max(abs(x) for x in sig)
                if 2 * a * mx + abs(b) >= 2 ** 52:
                    a = 1               # near-tie signals reach 2**51: a larger factor would leave the exactly representable integers
                if 2 * a * mx + abs(b) >= 2 ** 52:
                    b = 0
                aff = run_impl(det, [[a * x + b for x in sig]])
                for k in ("from", "to", "residuals"):
                    if [a * x + b for x in base[k]] != aff[k]:
                        return (f"{det}: affine map x->{a}x+{b} not followed in {k}", "affine")
                for k in ("ifrom", "ito", "rindex"):
                    if aff[k] != base[k]:
                        return (f"{det}: affine map changed {k}", "affine")
            return None
        if kind == "series":
            import pandas as pd
            self.stats["series_cases"] += 1
            det = case["det"]
            r = random.Random(case["seed"])
            n = len(sig)
            if case["index"] == "shuffled":
                ix = list(range(100, 100 + n))
                r.shuffle(ix)
                index = pd.Index(ix)
            elif case["index"] == "float":
                index = pd.Index([0.5 * i - 3.0 for i in range(n)])
            elif case["index"] == "datetime":
                index = pd.date_range("2020-01-01", periods=n, freq="s")
            else:
                index = pd.Index([f"s{i}" for i in range(n)])
            vals = np.asarray(sig, dtype=float)
            for pnan in case.get("nan_at") or []:
                if 0 < pnan < n - 1:
                    vals[pnan] = np.nan
            with warnings.catch_warnings():
                warnings.simplefilter("ignore")
                base = run_impl(det, [list(vals)])
                for cuts in ([n], random_cuts(r, n)):
                    d, rec = make(det)
                    ser = pd.Series(vals, index=index)
                    k0 = 0
                    for ln in cuts:
                        d.process(ser.iloc[k0:k0 + ln])
                        k0 += ln
                    o = {"from": list(rec.values_from), "to": list(rec.values_to), "residuals": list(np.asarray(d.residuals, dtype=float)),
                         "rindex": [int(x) for x in np.asarray(d.residual_index).astype(np.int64)]}
                    if det != "fkm":
                        o["ifrom"] = [int(x) for x in rec.index_from]
                        o["ito"] = [int(x) for x in rec.index_to]
                    for k in o:
                        if o[k] != base[k]:
                            return (f"{det}: Series with {case['index']} index (chunks {cuts}, NaN at {case.get('nan_at')}) differs from its value array in {k}: {o[k]} vs {base[k]}", "series-index")
            return None
        return None


def nanx_partitions(signal):
    """Chunkings used for the NaN model correspondence: one piece, every cut into two, and single-sample chunks."""
    n = len(signal)
    parts = [[n]] + [[k, n - k] for k in range(1, n)]
    if n > 2:
        parts.append([1] * n)
    return parts


def nan_signal(case):
    """Insert NaNs so that they end up at the given positions of the resulting signal."""
    vals = [float(x) for x in case["signal"]]
    for p in case["nan_at"]:
        vals.insert(p, float("nan"))
    return np.asarray(vals)
