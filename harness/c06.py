"""C06: the notch approximation laws (extended Neuber, Seeger-Beste) return the root of their defining equation,
and its inverse.

Implementation side + generators + direct property oracle.  The Lean model is lean/Model/Notch.lean (section `laws`),
its protocol handler lean/Driver/Notch.lean (ops `c06.*`).

What is compared with the compiled model (correspondence):
  * the defining functions `_stress_implicit` / `_stress_secondary_implicit` of both laws (= `_load_implicit` with swapped
    arguments) at sampled (stress, load) points incl. the fall-back points (stress = 0, u = 0, cos u <= 0, both bracket ends) and
    negative arguments - relative tolerance 1e-11 on the two terms of the difference / quotient (pow, log, cos differ by ulps
    between libm and numpy); Seeger-Beste: the u-term (within 4 ulp), the middle term and the quotient, widened by the float
    conditioning of the middle term GIVEN the u-term (tight when the u-terms are bit-identical);
  * `strain` / `strain_secondary_branch` of both laws vs the model's `lawStrain` / `lawStrainSec` (relative 1e-12);
  * both laws: what `stress`, `stress_secondary_branch`, `load`, `load_secondary_branch` return vs the model's bisection root
    on `[L/K_p, L]` resp. `[s, K_p s]`, within the requested tolerance `tol + rtol |root|` (a miss is tolerated only when the
    oracle files it under an OPEN known finding), and the model's root vs the independent reference root of the oracle.
What the oracle evaluates on the real code alone (reference roots by an independent bisection written in Python with a
cancellation-free middle term): tolerance, bracket, oddness, monotonicity on sorted grids, `load(stress(L)) = L`,
scalar / ndarray / Series agreement, the strains.  EVERY clause is evaluated for every case: a failure whose class is an open
known finding is noted (`Prop.known`) and the element is left out of the later clauses, the examination goes on.

No C06 finding is open today (all recorded solver classes are fixed: c6e709f, ba2ed2a, de286fc, b50f603, 4ade39c, e1dd979,
bb99960, 805617f; two follow-ups to our own repairs: 8e3c607 removed a bias of the b50f603 bisection that stayed inside the
tolerance - class `seegerbeste-bisection-bias`, a label of the record only, the oracle never emits it -, and 8ef27f5 lets
array-valued K_p / E / K' / n' broadcast against an n-d load again, which the np.ravel of 8e3c607 had stopped - class
`seegerbeste-ndim`, emitted by the 2-d clause `_oracle_ndim`; ten fix commits).  The classes RECORDED ON THE ORIGINAL TREE
stay tied to their mechanism: `legacy_solver` reproduces the solver algorithm of the
tree the findings were recorded on (scipy's vectorised / scalar secant resp. Newton iteration with the recorded start values
and iteration limits, run on the law's own defining functions); a miss belongs to a recorded class only if the value the code
returned IS the value of that reproduction (1e-12 relative), and it is tolerated only while that class has status "open" in
KNOWN_FINDINGS.jsonl.  Any other miss gets a class of its own and is reported."""
import json
import math
import warnings
import zlib

import numpy as np
import pandas as pd

from .core import Prop, f2h, h2f

SOURCES = [
    "src/pylife/materiallaws/notch_approximation_law.py",
    "src/pylife/materiallaws/notch_approximation_law_seegerbeste.py",
    "src/pylife/materiallaws/rambgood.py",
]
GROUPS = ["Steel", "SteelCast", "Al_wrought"]
KPS = [1.0, 1.001, 1.5, 3.5, 10.0]
_MAT = {}


def material(group, Rm):
    """E, K', n' from the FKM estimates (the real calculate_cyclic_assessment_parameters)."""
    key = (group, Rm)
    if key not in _MAT:
        import pylife.strength.fkm_nonlinear.parameter_calculations as pc
        ap = pc.calculate_cyclic_assessment_parameters(pd.Series({"MatGroupFKM": group, "R_m": Rm}))
        _MAT[key] = (float(ap.E), float(ap.K_prime), float(ap.n_prime))
    return _MAT[key]


def make_law(case):
    """The law object of a case.  With a `history` the object is NOT constructed with the case's parameters: it is built with
    earlier values, used once (every solver method, so that anything an object might remember is filled in), and then brought
    to the case's (= the reported) parameters through the setters the class offers (`K_p`, `K` / `K_prime`)."""
    if case["law"] == "neuber":
        import pylife.materiallaws.notch_approximation_law as nal
        cls = nal.ExtendedNeuber
    else:
        import pylife.materiallaws.notch_approximation_law_seegerbeste as sb
        cls = sb.SeegerBeste
    h = case.get("history")
    if not h:
        return cls(case["E"], case["K"], case["n"], case["Kp"])
    law = cls(case["E"], h["K0"], case["n"], h["Kp0"])
    with warnings.catch_warnings():
        warnings.simplefilter("ignore")
        with np.errstate(all="ignore"):
            for x in (float(h["warm"]), np.array([float(h["warm"]), -0.5 * float(h["warm"])])):
                for name in ("stress", "stress_secondary_branch", "load", "load_secondary_branch"):
                    try:
                        getattr(law, name)(x if name.startswith("stress") else x / 2)
                    except RuntimeError:
                        pass
    law.K_p = case["Kp"]
    if h["via"] == "K":
        law.K = case["K"]
    elif h["via"] == "K_prime":
        law.K_prime = case["K"]
    return law


def kind_of(case, branch):
    return ("n" if case["law"] == "neuber" else "s") + ("p" if branch == 1 else "s")


# ------------------------------------------------------------------ independent reference (pure Python)
def ro(E, K, n, s):
    if s == 0:
        return 0.0
    return s / E + math.copysign((abs(s) / K) ** (1.0 / n), s)


def ref_F(case, branch, s, L):
    """The law's defining function for positive stress and load, written from the guideline's equations
    (2.5-45/46, 2.8-42/43); secondary branch by Masing doubling; ln(1/cos u) without cancellation."""
    E, K, n, Kp = case["E"], case["K"], case["n"], case["Kp"]
    if branch == 2:
        s, L = s / 2, L / 2
    eps = ro(E, K, n, s)
    N = (L / s) * Kp * ro(E, K, n, L / Kp)
    if case["law"] == "neuber":
        return eps - N
    u = (math.pi / 2) * ((L / s - 1) / (Kp - 1))
    if u <= 0:
        return math.inf          # limit sigma -> L: middle term -> 1, handled by the bracket
    if u >= math.pi / 2:
        return -1.0
    su = math.sin(u)
    lg = -0.5 * math.log1p(-su * su)
    mid = (2 / (u * u)) * lg + (s / L) ** 2 - s / L
    return eps / (mid * N) - 1.0


def ref_root(case, branch, L):
    """root in sigma for L > 0 by bisection on [L/K_p, L]"""
    Kp = case["Kp"]
    lo, hi = L / Kp, L
    if case["law"] == "neuber":
        if not (ref_F(case, branch, hi, L) >= 0):
            return hi
    for _ in range(200):
        mid = (lo + hi) / 2
        if mid <= lo or mid >= hi:
            break
        if ref_F(case, branch, mid, L) < 0:
            lo = mid
        else:
            hi = mid
    return (lo + hi) / 2


def call(f, x, t):
    """a solver call; returns list of floats or 'RuntimeError' (solver gave up) or another exception's name"""
    try:
        with warnings.catch_warnings():
            warnings.simplefilter("ignore")
            with np.errstate(all="ignore"):
                r = f(x, rtol=t, tol=t)
    except RuntimeError:
        return "RuntimeError"
    except Exception as e:      # noqa: BLE001
        return type(e).__name__
    return [float(v) for v in np.atleast_1d(np.asarray(r, dtype=float))]


def call2(f, x, y):
    """a strain call `f(stress, load)`; list of floats or the exception's name"""
    try:
        with warnings.catch_warnings():
            warnings.simplefilter("ignore")
            with np.errstate(all="ignore"):
                r = f(x, y)
    except Exception as e:      # noqa: BLE001
        return type(e).__name__
    return [float(v) for v in np.atleast_1d(np.asarray(r, dtype=float))]


def fn(law, name, branch):
    return getattr(law, name + ("" if branch == 1 else "_secondary_branch"))


def ulps(a, b):
    """distance of two doubles in units of the larger one's ulp (inf when only one is nan)"""
    if a == b or (a != a and b != b):
        return 0.0
    if a != a or b != b or math.isinf(a) or math.isinf(b):
        return math.inf
    return abs(a - b) / math.ulp(max(abs(a), abs(b)))


# ------------------------------------------------------------------ the recorded defective solver algorithms
LEGACY_TREE = "20f8491"


def legacy_solver(case, direction, br, x, t):
    """What the solver ALGORITHM of the tree the (meanwhile fixed) findings were recorded on (pylife 20f8491) returns for the input `x`
    (scalar or list), run on the law's own defining functions and derivatives:
      * ExtendedNeuber.load / load_secondary_branch: scipy Newton, x0 = stress, maxiter = 20 (array input: scipy's vectorised
        iteration, which returns unconverged elements with a warning only);
      * SeegerBeste.stress / stress_secondary_branch: scipy secant, x0 = L (1 - (1 - 1/K_p)/1000), maxiter = 50, vectorised for
        arrays with a scalar retry of the elements reported as not converged; zero entries are set to zero and left out;
      * SeegerBeste.load / load_secondary_branch: scalar scipy secant, x0 = s / (1 - (1 - 1/K_p)/1000), maxiter = 50 / 20,
        element by element.
    Returns a list of floats, 'RuntimeError', or None (no recorded defect for this function).  This is the mechanism the
    recorded finding classes of C06 are tied to: a miss is 'known' only if the code returned exactly this value."""
    from scipy import optimize
    law = make_law({k: v for k, v in case.items() if k != "history"})
    Kp = case["Kp"]
    x = np.asarray(x, dtype=float)

    def sb_forward(load):
        if np.any(load == 0):
            res = np.zeros_like(load)
            nz = load != 0
            if np.any(nz):
                res[nz] = sb_forward(load[nz])
            return res[()]
        F = law._stress_implicit if br == 1 else law._stress_secondary_implicit
        x0 = load * (1 - (1 - 1 / Kp) / 1000)
        r = optimize.newton(func=F, x0=x0, args=([load]), full_output=True, rtol=t, tol=t, maxiter=50)
        if np.size(x0) > 1 and sum(r[1]) < len(r[1]):
            for i, ok in enumerate(r[1]):
                if not ok:
                    q = optimize.newton(func=F, x0=np.asarray(x0)[i], args=([np.asarray(load)[i]]), full_output=True,
                                        rtol=t, tol=t, maxiter=50)
                    if q[1].converged:
                        r[0][i] = q[0]
        return r[0]

    def sb_backward(stress):
        if stress.size > 1:
            return np.array([sb_backward(np.asarray(v, dtype=float)) for v in stress.ravel()]).reshape(stress.shape)
        if np.any(stress == 0):
            return np.zeros_like(stress)[()]
        G = law._load_implicit if br == 1 else law._load_secondary_implicit
        x0 = stress / (1 - (1 - 1 / Kp) / 1000)
        return optimize.newton(func=G, x0=x0, args=([stress]), rtol=t, tol=t, maxiter=50 if br == 1 else 20)

    try:
        with warnings.catch_warnings():
            warnings.simplefilter("ignore")
            with np.errstate(all="ignore"):
                if case["law"] == "neuber":
                    if direction == "stress":
                        return None
                    f, df = ((law._load_implicit, law._d_load_implicit) if br == 1
                             else (law._load_secondary_implicit, law._d_load_secondary_implicit))
                    r = optimize.newton(func=f, x0=x, fprime=df, args=([x]), rtol=t, tol=t, maxiter=20)
                else:
                    r = sb_forward(x) if direction == "stress" else sb_backward(x)
    except RuntimeError:
        return "RuntimeError"
    except Exception as e:      # noqa: BLE001
        return type(e).__name__
    return [float(v) for v in np.atleast_1d(np.asarray(r, dtype=float))]


def same_value(v, w):
    """the value the code returned IS the value of the reproduction (identical operations: a few ulps at most)"""
    return v == w or (v != v and w != w) or abs(v - w) <= 1e-12 * max(abs(v), abs(w))


# ------------------------------------------------------------------ generators
def zero_vector(loads):
    """A container of more than one load that holds exact zeros (+0.0 and -0.0) among non-zero loads of both signs."""
    Ls = [float(x) for x in loads]
    return [Ls[0], 0.0, -Ls[-1], -0.0, Ls[len(Ls) // 2]]


def gen_case(rng, law=None, Kp=None, group=None, hi=None):
    law = law or rng.choice(["neuber", "sb"])
    g = group or rng.choice(GROUPS)
    Rm = rng.choice([rng.uniform(200, 2000), 200.0, 2000.0, 600.0])
    E, K, n = material(g, Rm)
    if Kp is None:
        Kp = rng.choice(KPS if law == "neuber" else KPS[1:])
        if rng.random() < 0.2:
            Kp = rng.uniform(1.0 if law == "neuber" else 1.05, 12.0)
    tol = rng.choice([1e-4, 1e-4, 1e-6, 1e-8, 1e-10, 10 ** rng.uniform(-10, -4)])
    top = 4 * Rm
    k = rng.randint(4, 9)
    mode = rng.random()
    if mode < 0.5:
        loads = sorted(rng.uniform(0.02, 1) * top for _ in range(k))
    elif mode < 0.8:
        loads = sorted(10 ** rng.uniform(math.log10(top) - 2.5, math.log10(top)) for _ in range(k))
    else:
        loads = [top * (i + 1) / k for i in range(k)]
    # keep the grid spaced (monotonicity is checked between neighbours)
    grid = [loads[0]]
    for L in loads[1:]:
        if L >= grid[-1] * 1.02:
            grid.append(L)
    # loads at the upper edge of "a few times the tensile strength" for the scalar round trip load(stress(L))
    if hi is None:
        hi = sorted(rng.uniform(3, 6) for _ in range(2))
    return {"law": law, "group": g, "Rm": Rm, "E": E, "K": K, "n": n, "Kp": Kp, "tol": tol, "loads": grid,
            "hi": [m * Rm for m in hi]}


def add_history(rng, case):
    """Turn a case into a history case: the same reported parameters, reached through the setters of a used object."""
    law = case["law"]
    Kp0 = rng.choice([k for k in (KPS if law == "neuber" else KPS[1:]) + [2.0, 5.0] if k != case["Kp"]])
    via = rng.choice(["K", "K_prime", "none"])
    K0 = case["K"] if via == "none" else case["K"] * rng.choice([0.7, 1.25, rng.uniform(0.5, 1.6)])
    case["history"] = {"Kp0": Kp0, "K0": K0, "via": via, "warm": 1.5 * case["Rm"]}
    return case


# ------------------------------------------------------------------ the property
class C06(Prop):
    ID = "C06"
    SOURCES = SOURCES
    LEAN_MODULES = ["Proofs.C06", "Proofs.C06SeegerBeste", "Proofs.C06Solver", "Proofs.C06Newton"]
    THEOREMS = [f"PylifeVerif.C06.{t}" for t in [
        "neuber_bracket", "neuber_strictMono_in_stress", "neuber_exists_unique_root", "neuber_root_odd",
        "neuber_root_strictMono_in_load", "neuber_load_inverse",
        "neuber_secondary_masing", "neuber_secondary_exists_unique_root", "neuber_secondary_odd_strictMono",
        "neuber_secondary_load_inverse",
        "seegerBeste_root_odd", "seegerBeste_secondary_masing", "seegerBeste_domain_partial", "seegerBeste_root_iff_partial",
        "zero_load",
        # Seeger-Beste on the open bracket (Proofs/C06SeegerBeste.lean)
        "seegerBeste_middle_limit",
        "seegerBeste_bracket",
        "seegerBeste_exists_root",
        "seegerBeste_strictMono_in_stress",
        "seegerBeste_exists_unique_root",
        "seegerBeste_exists_unique_root_neg",
        "seegerBeste_root_strictMono_in_load",
        "seegerBeste_load_inverse",
        "seegerBeste_secondary_exists_unique_root",
        "seegerBeste_secondary_load_inverse",
        # the strains the laws return; bisection on the bracket = the repaired Seeger-Beste solver (Proofs/C06Solver.lean)
        "law_strain_rambergOsgood",
        "neuber_strain_at_root",
        "seegerBeste_strain_at_root",
        "law_strain_odd_strictMono",
        "bisect_encloses_root",
        "seegerBeste_bisection_converges",
        "seegerBeste_backward_bisection_converges",
        "seegerBeste_implicit_limit_at_load",
        # Newton's method of the repaired extended-Neuber backward functions (Proofs/C06Newton.lean)
        "neuber_dload_is_derivative",
        "neuber_dload_unrepaired_is_not",
        "neuberProduct_convexOn",
        "neuber_backward_newton_monotone",
    ]]
    PARTIAL = {
        "PylifeVerif.C06.seegerBeste_exists_unique_root":
            "Seeger-Beste: existence, uniqueness, monotonicity in stress and load and the inverse are proved for the mathematical equation on the "
            "OPEN bracket L/K_p < sigma < L (Proofs/C06SeegerBeste.lean; lim 2/u^2 ln(1/cos u) = 1 at 0+ and +inf at (pi/2)-).  Not claimed: the end "
            "points themselves (there the code evaluates np.divide fall-back values that differ from the limits) and roots outside the bracket.  "
            "The iteration of the REPAIRED solver (bisection inside the bracket, /repo commit b50f603) is proved to "
            "converge to that root (seegerBeste_bisection_converges / _backward_); the Seeger-Beste solver of the checked tree IS that bisection, "
            "and what it returns is measured per run against an independent bisection.  The four solver defects recorded on the tree before "
            "the repair (scipy secant / Newton iterations) are fixed: c6e709f, ba2ed2a (extended Neuber), de286fc, b50f603 (Seeger-Beste; its "
            "stopping rule and end values were corrected by 8e3c607).  (The name carries no `_partial` suffix: the theorem is complete as stated; "
            "it is listed here because the PROPERTY's claim - the value the solver returns - is covered only up to the measured part.)",
        "PylifeVerif.C06.seegerBeste_domain_partial":
            "holds on the OPEN bracket L/K_p < sigma < L (K_p > 1, L > 0) only: there none of the np.divide fall-backs is taken and the coded "
            "function is eq. 2.8-42.  Missing: the bracket ends and everything outside, where the code evaluates fall-back values (covered by the "
            "correspondence at Float, not by a theorem)",
        "PylifeVerif.C06.seegerBeste_root_iff_partial":
            "same restriction as seegerBeste_domain_partial: the equivalence 'root of the coded quotient form <=> eq. 2.8-42 in product form' is "
            "proved on the open bracket only; at the ends and outside the quotient form has fall-back values and further, meaningless roots",
    }
    RULE = ("case = law (extended Neuber / Seeger-Beste) x FKM-estimated material (3 groups, R_m in [200, 2000]) x K_p in "
            "{1, 1.001, 1.5, 3.5, 10} (Seeger-Beste > 1) or random x tolerance rtol = tol in [1e-10, 1e-4] x spaced grid of loads up to "
            "4 R_m, both signs, both branches; in addition: a vector holding exact zeros (+0.0, -0.0) among non-zero loads as ndarray / Series / "
            "list, extended Neuber scalar round trips load(stress(L)) at 3 ... 6 R_m (secondary: twice that) for all three material groups, "
            "history cases (a used object brought to the reported parameters through the setters).  Correspondence: defining functions of "
            "the real objects vs the model at Float (relative 1e-11 on the terms) at the returned roots, the reference roots, inside and AT both "
            "ends of the bracket (u = 0 and u = pi/2), at zero stress, outside the bracket and for negative arguments; Seeger-Beste: u-term within "
            "4 ulp, middle term and quotient within the float conditioning of the middle term given u (non-finite values must be identical; "
            "points whose admitted relative error exceeds 1e-3 are counted as sb_F_illconditioned_not_compared); strain / "
            "strain_secondary_branch vs the model (relative 1e-12); forward and backward solver values of BOTH laws (array calls, "
            "Seeger-Beste backward also scalar calls) vs the model's bisection roots within tol + rtol |root| - a miss passes only if its class "
            "is an open known finding; model root vs independent reference root (relative 1e-9).  Oracle (no Lean): reference root by an "
            "independent bisection; |value - root| <= tol + rtol |root|; |L|/K_p <= |value| <= |L| (within the tolerance); odd; increasing "
            "on the grid; load(stress(L)) = L for array and scalar calls; ndarray = Series bit for bit, scalar = array bit for bit for Seeger-Beste (array and scalar backward calls too) and within the tolerance for extended Neuber; "
            "every element of a vector with zeros as its scalar call (zero -> zero, nan is a failure); a zero load / stress (scalar +0.0, -0.0, "
            "or an element of a vector, all four functions of both laws) gives zero, never nan or an error; strain / strain_secondary_branch "
            "= Ramberg-Osgood (delta) strain of the stress (independent formula, relative 1e-12) for ndarray / Series / scalar / a vector with "
            "zeros, odd, and at the returned stress equal to the right-hand side of the defining equation at the reference root within the "
            "propagated tolerance; Seeger-Beste: a 2-d load / stress array with one K_p per column (law built with a K_p vector; array path only) equals the per-column calls bit for bit, keeps its shape, and holds roots within the tolerance (class seegerbeste-ndim); several law objects alive at once (both classes, equal and different materials and K_p): after K / K_prime / K_p setter calls on ONE of them every object equals a fresh law with its own reported parameters bit for bit, untouched objects give what they gave before, laws built afterwards from the original parameters give what the first objects gave, roots and strains satisfy the equation written out with the reported parameters (class law-objects-interfere), and no call alters the values or the index of an ndarray / Series argument (class *-argument-modified; a renamed Series is only counted); a re-used object whose K_p / K' were changed through the setters behaves as a freshly constructed one; a "
            "solver RuntimeError is a failure (class *-solver-raises unless the recorded defective algorithm raises on the same call).  All "
            "clauses are evaluated for every case (a known-class failure only removes that element from the relations between values); "
            "counts per class in distribution.failing_cases_* / failing_elements_*.  Non-trivial = every case in which at least one solver "
            "call returned")
    ASSUMPTIONS = [
        "C06: theorems are over the reals about the defining functions as coded (incl. the np.divide fall-backs) and about bisection "
        "inside the bracket (the halving loop of the repaired Seeger-Beste solver, /repo commit b50f603, without its stopping rule and its final clipped linear "
        "interpolation; since /repo commit 8e3c607 the loop stops when the interval is below 5 % of tol + rtol |root| - b50f603 stopped at 2 (tol + rtol |root|) - and the "
        "interpolation uses the analytic limits of the implicit function as function values at the initial bounds (forward: -1 at L/K_p and eps(L)/(K_p e*(L)) - 1 at L, "
        "theorem seegerBeste_implicit_limit_at_load; backward: the same two values with the sign of the negated function), scalars being solved through the array path); what scipy.optimize.newton returns "
        "(extended Neuber; Seeger-Beste only on the tree before b50f603) is not provable from here - measured per run",
        "C06: Proofs/C06Newton.lean (derivative handed to Newton's method by the repaired ExtendedNeuber.load, /repo commit c6e709f, monotone "
        "iteration from K_p sigma, /repo commit ba2ed2a) is written from the source of the repaired tree (`roCompliance`, `dLoadImplicit`, `newtonLoad`) and is NOT tied to the "
        "code by the correspondence: the derivative is not an observable of the property; the values `load` returns are",
        "C06: the Seeger-Beste middle term is modelled in the cancellation-free form of the repaired code (/repo commit de286fc), ln(1/cos u) = log1p(2 sin^2(u/2) / "
        "cos u) (same fall-backs; Proofs/Lemmas/Notch.lean middleTerm_eq proves it equal to the form ln(1/cos u) of the tree before de286fc over "
        "the reals); at Float the two forms differ by the cancellation error of cos u -> 1, which the correspondence admits (f1 x 1e-15)",
        "C06: admissible parameters E, K' > 0, 0 < n' < 1, K_p >= 1 (Seeger-Beste K_p > 1) - the code checks none; loads are "
        "non-zero floats (ints and lists are rejected by the code with AttributeError / TypeError and are not generated)",
        "C06: 'to within the requested tolerance' is read as |returned - exact root| <= tol + rtol |root| with rtol = tol; "
        "'element-wise identical' as bit-identical for ndarray vs Series (same code path) and equal within that tolerance for "
        "scalar vs array of the extended Neuber law (scipy's scalar and vectorised iterations stop at different iterates); Seeger-Beste "
        "(per-element bisection) must give bit-identical results for scalar and array",
        "C06: a load (stress) of exactly zero belongs to the quantifier ('every load ... both signs'): the stress (load) is zero "
        "(theorem zero_load: the equations are trivially satisfied there)",
        "C06: a law's result is a function of its REPORTED parameters (E, K', n', K_p as the object shows them), not of the object's "
        "history: history cases build an object with other values, use it, set K_p and K' through the setters (`K_p`, `K`, `K_prime`; "
        "there is no setter for E and n') and require (a) bit-identical results of a freshly constructed law, (b) all "
        "other checks (root of the independently evaluated equation for the reported parameters, bracket, ...) and (c) agreement of the "
        "object's defining functions with the model at the reported parameters in the correspondence",
        "C06: uniqueness is among stresses (loads) of the load's (stress's) sign: F(-s, L) = -F(s, L) and F(s, -L) = F(s, L), the "
        "solver's start value selects the sign",
        "C06: trusted harness code that decides what is suppressed: `C06._miss_class` + `legacy_solver` (re-implementation of the "
        "solver algorithms of pylife 20f8491 on top of scipy.optimize.newton: a miss is filed under an open known class only if the "
        "returned value equals that reproduction to 1e-12) and the independent reference `ref_F` / `ref_root` / `_ref_load` (guideline "
        "equations with ln(1/cos u) = -1/2 log1p(-sin^2 u); own conventions at the bracket ends: +inf at u <= 0, -1 at u >= pi/2, which "
        "are never roots; cross-checked against the model's bisection root in every correspondence line of a solver value)",
    ]

    def __init__(self):
        self.stats = {}
        self.exhaustive = False
        self._cache = {}
        self._legacy_cache = {}
        self._open = None

    def _count(self, key, n=1):
        self.stats[key] = self.stats.get(key, 0) + n

    def generate(self, rng, tier):
        big = tier != "quick"
        for law in ("neuber", "sb"):
            for Kp in (KPS if law == "neuber" else KPS[1:]):
                for _ in range(4 if not big else 12):
                    yield gen_case(rng, law, Kp)
        # scalar backward calls at 3 ... 6 R_m for all three material groups (where the backward Newton iteration runs out of
        # iterations: it must then raise, never return the last iterate)
        for g in GROUPS:
            for Kp in (2.0, 3.5, 4.0, 10.0):
                for _ in range(1 if not big else 4):
                    c = gen_case(rng, "neuber", Kp, group=g, hi=[3.0, 4.0, 5.0, 6.0])
                    c["tol"] = 1e-4
                    yield c
        # history cases: one object, used, then brought to the reported parameters through the setters
        for law in ("neuber", "sb"):
            for Kp in (1.5, 3.5, 10.0):
                for _ in range(2 if not big else 8):
                    yield add_history(rng, gen_case(rng, law, Kp))
        for _ in range(130 if not big else 1500):
            c = gen_case(rng)
            yield add_history(rng, c) if rng.random() < 0.25 else c

    # -------------------------------------------------------------- running the real code once per case
    def _run(self, case):
        key = json.dumps(case, sort_keys=True)
        if key in self._cache:
            return self._cache[key]
        if len(self._cache) > 8000:         # one run of the real code per case for model lines, implementation lines, comparison and oracle
            self._cache.clear()
        law = make_law(case)
        t = case["tol"]
        Ls = [float(x) for x in case["loads"]]
        n = len(Ls)
        arr = np.array(Ls + [-x for x in Ls])
        out = {}
        for br in (1, 2):
            f = fn(law, "stress", br)
            g = fn(law, "load", br)
            a = call(f, arr, t)
            s = call(f, pd.Series(arr), t)
            sc = {}
            for i in sorted({0, n // 2, n - 1}):
                sc[i] = (call(f, float(Ls[i]), t), call(f, float(-Ls[i]), t))
            roots = [ref_root(case, br, L) for L in Ls]
            # input of the backward functions: the stress the forward function returned; where that is not the root within the
            # tolerance (a failure of the forward function, judged there) the reference root, so that the backward function is
            # examined on every load
            back_in = []
            for i, x in enumerate(roots):
                v = a[i] if isinstance(a, list) and len(a) == 2 * n else None
                back_in.append(v if v is not None and v == v and abs(v - x) <= t + t * abs(x) else x)
            back_vec = call(g, np.array(back_in), t)
            if case["law"] == "neuber":
                back = back_vec
            else:       # element by element as well (the unchanged tree documents "only implemented for the scalar case")
                back = [call(g, float(v), t) for v in back_in]
                back = [b[0] if isinstance(b, list) else b for b in back]
            hi = None
            zl = zero_vector(Ls)
            # the same vector on the stress axis for the backward functions (reference roots, zeros kept)
            sz = [0.0 * x if x == 0 else math.copysign(ref_root(case, br, abs(x)), x) for x in zl]
            zero = {"loads": zl, "arr": call(f, np.array(zl), t), "ser": call(f, pd.Series(zl), t), "list": call(f, list(zl), t),
                    "scalar": [call(f, x, t) for x in zl],
                    "stresses": sz, "back_arr": call(g, np.array(sz), t), "back_ser": call(g, pd.Series(sz), t),
                    "back_scalar0": [call(g, 0.0, t), call(g, -0.0, t)]}
            if case["law"] == "neuber":
                hi = []
                for L in case.get("hi", []):
                    for L1 in (float(L) * br, -float(L) * br):        # load ranges of the secondary branch reach twice as far
                        v = call(f, L1, t)
                        bk = call(g, v[0], t) if isinstance(v, list) and v[0] == v[0] else None
                        hi.append((L1, v, bk))
            # the strains: at the returned stresses (reference roots where the solver gave none), plus the zero vector
            e = fn(law, "strain", br)
            ss = []
            for i, L in enumerate(arr):
                v = a[i] if isinstance(a, list) and len(a) == 2 * n else None
                ss.append(float(v) if v is not None and v == v and abs(v) < 1e300 else math.copysign(roots[i % n], L))
            strain = {"stresses": ss, "loads": [float(x) for x in arr],
                      "arr": call2(e, np.array(ss), arr), "ser": call2(e, pd.Series(ss), pd.Series(arr)),
                      "scalar": {i: call2(e, float(ss[i]), float(arr[i])) for i in sorted({0, n // 2, n - 1, n, 2 * n - 1})},
                      "zero": call2(e, np.array(sz), np.array(zl))}
            out[br] = {"arr": a, "ser": s, "scalar": sc, "back": back, "back_vec": back_vec, "back_in": back_in, "roots": roots,
                       "zero": zero, "hi": hi, "strain": strain}
        self._cache[key] = out
        return out

    # -------------------------------------------------------------- correspondence
    def _points(self, case, run):
        """(branch, stress, load) points at which the defining function is compared"""
        pts = []
        Ls = case["loads"]
        Kp = case["Kp"]
        for br in (1, 2):
            a = run[br]["arr"]
            for i in sorted({0, len(Ls) // 2, len(Ls) - 1}):
                L = Ls[i]
                lo = L / Kp
                ss = [lo + (L - lo) * 0.5, lo + (L - lo) * 0.05, lo + (L - lo) * 0.95, lo, L, 0.0, 0.3 * lo, 1.2 * L]
                if isinstance(a, list) and a[i] == a[i] and abs(a[i]) < 1e300:
                    ss.append(a[i])
                ss.append(run[br]["roots"][i])
                for s in ss:
                    pts.append((br, s, L))
                pts.append((br, -ss[0], -L))
                pts.append((br, ss[1], -L))
                pts.append((br, -lo, -L))
                pts.append((br, -L, -L))
        return pts

    def _solver_lines(self, case, run):
        """(op, branch, argument, value the code returned, call description for the classification)"""
        out = []
        Ls = [float(x) for x in case["loads"]]
        n = len(Ls)
        arr = Ls + [-x for x in Ls]
        for br in (1, 2):
            r = run[br]
            a = r["arr"]
            if isinstance(a, list) and len(a) == 2 * n:
                for i, L in enumerate(arr):
                    out.append(("c06.root", br, L, a[i], ("stress", arr, i)))
                z = r["zero"]
                if isinstance(z["arr"], list) and len(z["arr"]) == len(z["loads"]):
                    for i, L in enumerate(z["loads"]):
                        out.append(("c06.root", br, L, z["arr"][i], ("stress", z["loads"], i)))
            bv = r["back_vec"]
            if isinstance(bv, list) and len(bv) == n:
                for i, v in enumerate(r["back_in"]):
                    out.append(("c06.load", br, v, bv[i], ("load", r["back_in"], i)))
            if case["law"] != "neuber":
                for i, v in enumerate(r["back_in"]):
                    if not isinstance(r["back"][i], str):
                        out.append(("c06.load", br, v, r["back"][i], ("load", float(v), 0)))
        return out

    def model_lines(self, case):
        run = self._run(case)
        mat = f"{f2h(case['E'])} {f2h(case['K'])} {f2h(case['n'])} {f2h(case['Kp'])}"
        lines = []
        for br, s, L in self._points(case, run):
            lines.append(f"c06.F {kind_of(case, br)} {mat} {f2h(s)} {f2h(L)}")
        for br in (1, 2):
            st = run[br]["strain"]
            for s, L in zip(st["stresses"], st["loads"]):
                lines.append(f"c06.strain {kind_of(case, br)} {mat} {f2h(s)} {f2h(L)}")
        for op, br, x, _v, _c in self._solver_lines(case, run):
            lines.append(f"{op} {kind_of(case, br)} {mat} {f2h(x)}")
        return lines

    def impl_lines(self, case):
        run = self._run(case)
        law = make_law(case)
        self._count(f"cases_{case['law']}_Kp{case['Kp'] if case['Kp'] in KPS else 'random'}")
        out = []
        with warnings.catch_warnings():
            warnings.simplefilter("ignore")
            with np.errstate(all="ignore"):
                for br, s, L in self._points(case, run):
                    f = law._stress_implicit if br == 1 else law._stress_secondary_implicit
                    v = f2h(float(f(np.float64(s), np.float64(L))))
                    if case["law"] != "neuber":
                        u = law._u_term if br == 1 else law._u_term_secondary
                        m = law._middle_term if br == 1 else law._middle_term_secondary
                        v += " " + f2h(float(u(np.float64(s), np.float64(L)))) + " " + f2h(float(m(np.float64(s), np.float64(L))))
                    out.append(v)
        for br in (1, 2):
            st = run[br]["strain"]
            if isinstance(st["arr"], list) and len(st["arr"]) == len(st["stresses"]):
                out.extend(f2h(v) for v in st["arr"])
            else:
                out.extend([str(st["arr"])] * len(st["stresses"]))
        name = "neuber" if case["law"] == "neuber" else "seegerbeste"
        for op, _br, _x, v, _c in self._solver_lines(case, run):
            out.append(f2h(v))
            self._count(f"{name}_{'forward' if op == 'c06.root' else 'backward'}_values_vs_model_root")
        return out

    def compare(self, case, model_out, impl_out):
        if len(model_out) != len(impl_out):
            return f"length {len(model_out)} vs {len(impl_out)}"
        run = self._run(case)
        pts = self._points(case, run)
        t = case["tol"]
        nst = sum(len(run[br]["strain"]["stresses"]) for br in (1, 2))
        sol = self._solver_lines(case, run)
        for i, (a, b) in enumerate(zip(model_out, impl_out)):
            if i < len(pts):
                br, s, L = pts[i]
                Fm, ta, tb, um, Mm = (h2f(x) for x in a.split())
                where = f"line {i}: {kind_of(case, br)} at stress {s!r}, load {L!r}"
                if case["law"] == "neuber":
                    Fi = h2f(b)
                    if Fm != Fm and Fi != Fi:
                        continue
                    if not abs(Fm - Fi) <= 1e-11 * (abs(ta) + abs(tb)) + 1e-300:
                        return f"{where}: defining function: model={Fm!r} impl={Fi!r} (terms {ta!r}, {tb!r})"
                    continue
                Fi, ui, Mi = (h2f(x) for x in b.split())
                # --- the u-term (only + - * / on the arguments): a few ulps
                du = ulps(um, ui)
                if du > 4:
                    return f"{where}: u-term: model={um!r} impl={ui!r}"
                if du > 0:
                    self._count("sb_u_term_differs_by_ulps")
                # --- non-finite values (u = 0: the middle term is 0; zero stress: 0/0) must be the same
                if not (math.isfinite(Fm) and math.isfinite(Fi)):
                    if (Fm != Fm and Fi != Fi) or Fm == Fi:
                        self._count("sb_F_nonfinite_equal")
                        continue
                    return f"{where}: defining function: model={Fm!r} impl={Fi!r} (terms {ta!r}, {tb!r}, u={um!r})"
                # --- float conditioning of the middle term f1 ln(1/cos u) + f^2 - f (f1 = 2/u^2) GIVEN u: the logarithm carries
                #     an absolute error of a few ulps of max(1, |ln|) (the form ln(1/cos u) of the unchanged tree loses the digits
                #     of cos u -> 1); when the u-terms differ by ulps the sensitivity tan(u) du is added
                u = um
                c = math.cos(u)
                f1 = 2 / (u * u) if u != 0 else 1.0
                fr = (s / L) if L != 0 else 1.0
                lg = math.log(1 / c) if c > 0 else 0.0
                err = f1 * 1e-15 * (1 + abs(lg)) + 1e-15 * (fr * fr + abs(fr))
                if du > 0:
                    err += f1 * 1e-15 * abs(math.tan(u)) * max(abs(u), 1.0) if c != 0 else math.inf
                if not abs(Mm - Mi) <= err + 1e-300:
                    return f"{where}: middle term: model={Mm!r} impl={Mi!r} (u={um!r}, admitted error {err!r})"
                if abs(Mm - Mi) <= 4e-16 * (abs(Mm) + f1 * abs(lg) + fr * fr + abs(fr)):
                    self._count("sb_middle_term_equal_to_rounding")
                rel = 1e-11 + 4 * err / max(abs(Mm), 1e-300)
                if rel > 1e-3:
                    self._count("sb_F_illconditioned_not_compared")
                    continue
                self._count("sb_F_compared")
                if not abs(Fm - Fi) <= rel * (abs(Fm + 1) + abs(Fi + 1)) + 1e-13:
                    return (f"{where}: defining function: model={Fm!r} impl={Fi!r} (terms {ta!r}, {tb!r}, u={um!r}, middle term "
                            f"{Mm!r} / {Mi!r})")
            elif i < len(pts) + nst:
                if len(b) != 16:
                    return f"line {i}: strain raises {b}"
                vm, vi = h2f(a), h2f(b)
                if not (vm == vi or abs(vm - vi) <= 1e-12 * abs(vm)):
                    return f"line {i}: strain of the law: model={vm!r} impl={vi!r}"
            else:
                op, br, x, v, (direction, xin, idx) = sol[i - len(pts) - nst]
                vm = h2f(a)
                # the model's root and the oracle's independent reference root are the same number
                if x != 0:
                    rr = ref_root(case, br, abs(x)) if op == "c06.root" else self._ref_load(case, br, abs(x))
                    rr = math.copysign(rr, x)
                    if not abs(vm - rr) <= 1e-9 * abs(rr):
                        return (f"line {i}: {op} {kind_of(case, br)} {x!r}: bisection root of the model {vm!r}, of the independent "
                                f"reference equation {rr!r}")
                if not abs(vm - v) <= t + t * abs(vm):
                    base = "tolerance" if op == "c06.root" else "backward"
                    k = self._miss_class(case, direction, br, xin, idx, v, base, abs(v - vm) / abs(vm) if vm != 0 else math.inf)
                    if k in self._open_known():
                        # a recorded, open defect of the solver: it does not invalidate the model (whose root is confirmed by the
                        # independent reference); the oracle reports it under the same class
                        self._count(f"solver_value_off_model_root_{k}")
                        continue
                    return (f"line {i}: {op} {kind_of(case, br)}: the law returned {v!r} for {x!r}, bisection root of the model {vm!r}, "
                            f"tolerance {t!r} ({k})")
        return None

    def nontrivial(self, case, model_out):
        run = self._run(case)
        if any(isinstance(run[br]["arr"], list) for br in (1, 2)):
            return json.dumps(case, sort_keys=True)
        return None

    # -------------------------------------------------------------- classification of solver misses
    def _open_known(self):
        if self._open is None:
            from .core import load_known
            self._open = {e["class"] for e in load_known("C06") if e.get("status") == "open"}
        return self._open

    def _ref_load(self, case, br, s):
        """load whose root is the stress s > 0: bisection of the reference equation on [s, K_p s] (F decreases in the load)"""
        lo, hi = s, case["Kp"] * s
        for _ in range(200):
            mid = (lo + hi) / 2
            if mid <= lo or mid >= hi:
                break
            if ref_F(case, br, s, mid) > 0:
                lo = mid
            else:
                hi = mid
        return (lo + hi) / 2

    def _legacy(self, case, direction, br, xin):
        key = (json.dumps({k: v for k, v in case.items() if k != "history"}, sort_keys=True), direction, br,
               tuple(xin) if isinstance(xin, (list, tuple)) else float(xin))
        if key not in self._legacy_cache:
            if len(self._legacy_cache) > 200:
                self._legacy_cache.clear()
            self._legacy_cache[key] = legacy_solver(case, direction, br, xin, case["tol"])
        return self._legacy_cache[key]

    def _miss_class(self, case, direction, br, xin, idx, v, base, rel):
        """Finding class of a solver result `v` (a float, or the name of the exception) for element `idx` of the input `xin` of
        `stress` / `load` (`direction`) that is not the root within the tolerance.  base: 'outside-bracket' | 'tolerance' |
        'backward' | 'raises'.  The open known classes are returned only when `v` is what the recorded defective algorithm
        (`legacy_solver`) yields for this very call; the recorded Seeger-Beste defects are moreover bounded (within 2 % of the
        root, except for K_p next to one)."""
        name = "neuber" if case["law"] == "neuber" else "seegerbeste"
        leg = self._legacy(case, direction, br, xin)
        if isinstance(v, str):
            recorded = isinstance(leg, str) and leg == v
        else:
            recorded = isinstance(leg, list) and idx < len(leg) and same_value(v, leg[idx])
        self._count(f"misses_{'equal_to' if recorded else 'different_from'}_recorded_algorithm")
        if name == "neuber":
            if direction == "load" and recorded:
                return "neuber-backward-unconverged"
            return {"outside-bracket": "neuber-outside-bracket", "tolerance": "neuber-tolerance", "backward": "neuber-inverse",
                    "raises": "neuber-solver-raises"}[base]
        if not recorded:
            return "seegerbeste-solver-raises" if base == "raises" else "seegerbeste-wrong-root"
        if base == "raises":
            # the recorded secant iteration gives up (RuntimeError) instead of returning a value off the root: no value within
            # the tolerance either - filed with the recorded tolerance defect
            return "seegerbeste-tolerance"
        if rel <= 2e-2:
            return "seegerbeste-outside-bracket" if base == "outside-bracket" else "seegerbeste-tolerance"
        if case["Kp"] < 1.05:
            return "seegerbeste-spurious-root-kp-near-one"
        return "seegerbeste-wrong-root"

    # -------------------------------------------------------------- direct property oracle (real code only)
    def _oracle_history(self, case):
        """A law's result is a function of its reported parameters, not of the object's history: the re-used object must give
        what a freshly constructed law with the same parameters gives."""
        fresh_case = {k: v for k, v in case.items() if k != "history"}
        used, fresh = self._run(case), self._run(fresh_case)
        t = case["tol"]
        name = "neuber" if case["law"] == "neuber" else "seegerbeste"
        h = case["history"]
        how = (f"object constructed with K_p={h['Kp0']!r}, K'={h['K0']!r}, used, then set to K_p={case['Kp']!r}"
               + (f", K'={case['K']!r} (setter {h['via']})" if h["via"] != "none" else ""))

        def flat(r):
            items = [("array", r["arr"]), ("Series", r["ser"]), ("backward", r["back"]), ("strain", r["strain"]["arr"])]
            items += [(f"scalar[{i}]", v) for i, pq in sorted(r["scalar"].items()) for v in pq]
            z = r.get("zero")
            if z:
                items += [("vector with zeros", z["arr"]), ("backward vector with zeros", z["back_arr"])]
            return items
        for br in (1, 2):
            for (label, a), (_l, b) in zip(flat(used[br]), flat(fresh[br])):
                if a is None or b is None:
                    continue
                if isinstance(a, str) or isinstance(b, str):
                    if a != b and not (isinstance(a, str) and isinstance(b, str)):
                        self._count(f"{name}_history_one_side_raises")
                    continue
                for i, (x, y) in enumerate(zip(a, b)):
                    if isinstance(x, str) or isinstance(y, str):
                        continue
                    self._count(f"{name}_history_values_compared")
                    # same parameters, same calls: the computations are the same (Seeger-Beste solves every element on its own
                    # by bisection; scipy's Newton iteration of the extended Neuber law is deterministic for the same vector)
                    slack = 0.0 if label != "strain" else 1e-12 * abs(y)
                    if not (x == y or (x != x and y != y) or abs(x - y) <= slack):
                        return (f"{case['law']} branch {br}, {label}[{i}] (E={case['E']!r}, K'={case['K']!r}, n'={case['n']!r}, K_p={case['Kp']!r}, "
                                f"rtol=tol={t!r}, loads {case['loads']!r}): the {how} returns {x!r}, a freshly constructed law with the same "
                                f"parameters {y!r}", f"{name}-history")
        return None

    def oracle(self, case):
        """Every clause is evaluated; the failures come in the order of the clauses.  A failure of an open known class is noted
        (`Prop.known`) and the examination goes on; the first other failure is the verdict of the case."""
        fails = self._failures(case)
        seen = set()
        for d, k in fails:
            self._count(f"failing_elements_{k}")
            if k not in seen:
                seen.add(k)
                self._count(f"failing_cases_{k}")
        for d, k in fails:
            if not self.known(k, d):
                return (d, k)
        return None

    def _failures(self, case):
        F = []
        if case.get("history"):
            d = self._oracle_history(case)
            if d:
                F.append(d)
        run = self._run(case)
        t = case["tol"]
        Ls = [float(x) for x in case["loads"]]
        n = len(Ls)
        arr = Ls + [-x for x in Ls]
        Kp = case["Kp"]
        neuber = case["law"] == "neuber"
        name = "neuber" if neuber else "seegerbeste"
        for br in (1, 2):
            sfx = "" if br == 1 else "_secondary_branch"
            what = f"{case['law']} stress{sfx} (E={case['E']!r}, K'={case['K']!r}, n'={case['n']!r}, K_p={Kp!r}, rtol=tol={t!r})"
            r = run[br]
            a, s = r["arr"], r["ser"]
            roots = r["roots"]
            tolv = [t + t * abs(x) for x in roots]
            taint = set()           # elements of the forward vector whose value failed: left out of the relations between values
            # ---------------- containers
            for v in (a, s):
                if isinstance(v, str) and v != "RuntimeError":
                    F.append((f"{what}: array / Series input raises {v}", f"{name}-containers"))
            if isinstance(a, str) or isinstance(s, str):
                self._count(f"{name}_solver_raises_array")
                if a != s:
                    F.append((f"{what}: ndarray gives {a if isinstance(a, str) else 'values'}, Series gives {s if isinstance(s, str) else 'values'}",
                              f"{name}-containers"))
                if a == "RuntimeError":
                    F.append((f"{what}: the solver raises RuntimeError for the loads {arr!r}",
                              self._miss_class(case, "stress", br, arr, 0, a, "raises", math.inf)))
                a = None
            elif len(a) != 2 * n or a != s and not all(x == y or (x != x and y != y) for x, y in zip(a, s)):
                F.append((f"{what}: ndarray and Series inputs give different results", f"{name}-containers"))
                if len(a) != 2 * n:
                    a = None
            if a is not None:
                self._count(f"{name}_values_checked", 2 * n)
                # ---------------- bracket and sign (within the tolerance), root of the defining equation within the tolerance
                for i, (L, v) in enumerate(zip(arr, a)):
                    x, tv = math.copysign(roots[i % n], L), tolv[i % n]
                    if not (v == v) or not (abs(L) / Kp - tv <= abs(v) <= abs(L) + tv) or (v > 0) != (L > 0):
                        rel = max(abs(L) / Kp - abs(v), abs(v) - abs(L)) / abs(L) if (v == v and (v > 0) == (L > 0)) else math.inf
                        taint.add(i)
                        F.append((f"{what}: load {L!r} -> {v!r}, outside [|L|/K_p, |L|] = [{abs(L) / Kp!r}, {abs(L)!r}] (sign of the load)",
                                  self._miss_class(case, "stress", br, arr, i, v, "outside-bracket", rel)))
                    elif abs(v - x) > tv:
                        taint.add(i)
                        F.append((f"{what}: load {L!r} -> {v!r}; root of the defining equation {x!r}: off by {abs(v - x)!r} > tol + rtol |root| = {tv!r}",
                                  self._miss_class(case, "stress", br, arr, i, v, "tolerance", abs(v - x) / abs(x))))
                # ---------------- odd
                for i in range(n):
                    if i in taint or n + i in taint:
                        continue
                    if abs(a[i] + a[n + i]) > 2 * tolv[i]:
                        F.append((f"{what}: not odd: f({Ls[i]!r}) = {a[i]!r}, f({-Ls[i]!r}) = {a[n + i]!r}", f"{name}-odd"))
                # ---------------- strictly increasing on the (spaced) grid
                for i in range(n - 1):
                    if i in taint or i + 1 in taint:
                        continue
                    if not a[i] < a[i + 1] and roots[i + 1] - roots[i] > 4 * tolv[i]:
                        F.append((f"{what}: not increasing: f({Ls[i]!r}) = {a[i]!r} >= f({Ls[i + 1]!r}) = {a[i + 1]!r}", f"{name}-monotone"))
            # ---------------- scalar input: accepted (finding seegerbeste-scalar-input, fixed by 805617f), the root within the tolerance, hence = the array value within 2 tol
            for i, (p, q) in r["scalar"].items():
                for L, v, j in ((Ls[i], p, i), (-Ls[i], q, n + i)):
                    x, tv = math.copysign(roots[i], L), tolv[i]
                    if isinstance(v, str) and v != "RuntimeError":
                        F.append((f"{what}: scalar load {L!r} raises {v} (not a solver failure)", f"{name}-scalar-input"))
                        continue
                    if isinstance(v, str):
                        self._count(f"{name}_solver_raises_scalar")
                        F.append((f"{what}: scalar load {L!r}: the solver raises RuntimeError",
                                  self._miss_class(case, "stress", br, float(L), 0, v, "raises", math.inf)))
                        continue
                    self._count(f"{name}_scalar_values_checked")
                    w = v[0]
                    if not (w == w) or not (abs(L) / Kp - tv <= abs(w) <= abs(L) + tv) or (w > 0) != (L > 0):
                        rel = max(abs(L) / Kp - abs(w), abs(w) - abs(L)) / abs(L) if (w == w and (w > 0) == (L > 0)) else math.inf
                        F.append((f"{what}: scalar load {L!r} -> {w!r}, outside [|L|/K_p, |L|] (sign of the load)",
                                  self._miss_class(case, "stress", br, float(L), 0, w, "outside-bracket", rel)))
                    elif abs(w - x) > tv:
                        F.append((f"{what}: scalar load {L!r} -> {w!r}; root of the defining equation {x!r}",
                                  self._miss_class(case, "stress", br, float(L), 0, w, "tolerance", abs(w - x) / abs(x))))
                    elif a is not None and j not in taint and (abs(w - a[j]) > 2 * tv or (not neuber and w != a[j])):
                        # Seeger-Beste solves every element on its own (bisection): scalar and array results are identical;
                        # extended Neuber: scipy's scalar and vectorised Newton iterations stop at different iterates
                        F.append((f"{what}: scalar input {L!r} gives {w!r}, the same load inside an array {a[j]!r}", f"{name}-containers"))
            # ---------------- a vector that holds exact zeros among other loads: every element as for the scalar call, zero -> zero
            z = r.get("zero")
            if z is not None:
                F.extend(self._oracle_zero(case, br, what, name, z))
            # ---------------- extended Neuber: scalar round trip at the upper edge of the load range
            for L1, v, bk in (r.get("hi") or []):
                if isinstance(v, str) or bk is None:
                    if isinstance(v, str) and v != "RuntimeError":
                        F.append((f"{what}: scalar load {L1!r} raises {v}", "neuber-scalar-input"))
                    else:
                        self._count("neuber_solver_raises_scalar_high_load")
                        F.append((f"{what}: scalar load {L1!r}: the solver raises RuntimeError or returns nan",
                                  self._miss_class(case, "stress", br, float(L1), 0, v if isinstance(v, str) else math.nan, "raises", math.inf)))
                    continue
                if isinstance(bk, str):
                    if bk != "RuntimeError":
                        F.append((f"{what}: load({v[0]!r}) raises {bk}", "neuber-scalar-input"))
                    else:
                        self._count("neuber_backward_scalar_raises_high_load")
                        F.append((f"{what}: scalar round trip load(stress({L1!r})) = load({v[0]!r}) raises RuntimeError (R_m = {case['Rm']!r}, {case['group']})",
                                  self._miss_class(case, "load", br, float(v[0]), 0, bk, "raises", math.inf)))
                    continue
                self._count("neuber_backward_scalar_returned_high_load")
                if not (bk[0] == bk[0]) or abs(bk[0] - L1) > 6 * (t + t * abs(L1)):
                    F.append((f"{what}: scalar round trip load(stress({L1!r})) = load({v[0]!r}) = {bk[0]!r} (R_m = {case['Rm']!r}, "
                              f"{case['group']}): returned without an error and is not the load",
                              self._miss_class(case, "load", br, float(v[0]), 0, bk[0], "backward", abs(bk[0] - L1) / abs(L1))))
            # ---------------- backward = inverse (on the returned stresses; reference roots where the forward value failed)
            for label, back, vec in (("array", r["back_vec"], True), ("scalar", r["back"], False)):
                if vec is False and neuber:
                    continue
                if isinstance(back, str):
                    if back != "RuntimeError":
                        F.append((f"{what}: load{sfx}({r['back_in']!r}) raises {back}", f"{name}-containers"))
                    else:
                        self._count(f"{name}_solver_raises_backward")
                        F.append((f"{what}: load{sfx}({r['back_in']!r}) raises RuntimeError",
                                  self._miss_class(case, "load", br, r["back_in"], 0, back, "raises", math.inf)))
                    continue
                if len(back) != n:
                    F.append((f"{what}: load{sfx}({r['back_in']!r}) returns {len(back)} values", f"{name}-containers"))
                    continue
                for i, (L, v, bk, tv) in enumerate(zip(Ls, r["back_in"], back, tolv)):
                    xin, idx = (r["back_in"], i) if vec else (float(v), 0)
                    if isinstance(bk, str):
                        if bk != "RuntimeError":
                            F.append((f"{what}: load{sfx}({v!r}) raises {bk}", f"{name}-scalar-input"))
                        else:
                            self._count(f"{name}_solver_raises_backward")
                            F.append((f"{what}: load{sfx}({v!r}) raises RuntimeError",
                                      self._miss_class(case, "load", br, xin, idx, bk, "raises", math.inf)))
                        continue
                    self._count(f"{name}_backward_values_checked")
                    if not (bk == bk) or abs(bk - L) > 6 * (t + t * abs(L)) + 6 * tv:
                        F.append((f"{what}: load{sfx}(stress{sfx}({L!r})) = load{sfx}({v!r}) = {bk!r} ({label} call)",
                                  self._miss_class(case, "load", br, xin, idx, bk, "backward", abs(bk - L) / abs(L) if bk == bk else math.inf)))
                if not neuber and vec and isinstance(r["back"], list):
                    for i, (p, q) in enumerate(zip(back, r["back"])):
                        if isinstance(q, str) or isinstance(p, str):
                            continue
                        if p != q:          # element by element bisection: identical
                            F.append((f"{what}: load{sfx} of the vector {r['back_in']!r} gives {p!r} for the stress {r['back_in'][i]!r}; the scalar "
                                      f"call gives {q!r}", "seegerbeste-backward-vector"))
            # ---------------- the strains
            F.extend(self._oracle_strain(case, br, name, r, taint, a is not None))
        if not neuber:
            F.extend(self._oracle_ndim(case))
        # (a third of the generated cases, chosen by their content, and every case that asks for it: about 150 solver calls each)
        if case.get("several", zlib.crc32(json.dumps(case, sort_keys=True).encode()) % 3 == 0):
            F.extend(self._oracle_several(case))
        return F

    # -------------------------------------------------------------- several law objects alive at once
    def _eval_all(self, law, lawname, Ls, t, F, tag):
        """every public function of one law object on an ndarray and a labelled Series (fresh argument objects, kept copies):
        dict name -> list of floats | exception name.  A call that alters the VALUES or the INDEX of an argument is a failure
        (the caller's data would give other results later); other attributes of the argument are outside the property."""
        arr = np.array(Ls + [-x for x in Ls])
        out = {}

        def run(name, f, args, two=False):
            kept = [a.copy() for a in args]
            r = call2(f, *args) if two else call(f, args[0], t)
            for a, k in zip(args, kept):
                same_vals = np.array_equal(np.asarray(a), np.asarray(k), equal_nan=True)
                same_idx = not isinstance(a, pd.Series) or a.index.equals(k.index)
                if not (same_vals and same_idx):
                    F.append((f"{tag}: {name}() altered its argument: {np.asarray(k).tolist()!r} -> {np.asarray(a).tolist()!r}"
                              + ("" if same_idx else f", index {list(k.index)!r} -> {list(a.index)!r}"), f"{lawname}-argument-modified"))
                elif isinstance(a, pd.Series) and a.name != k.name:
                    self._count("argument_series_renamed")
            out[name] = r
            return r
        idx = pd.Index([7 * i + 3 for i in range(len(arr))][::-1], name="node_id")
        for sfx, m in (("", 1.0), ("_secondary_branch", 2.0)):
            s = run("stress" + sfx, getattr(law, "stress" + sfx), [arr * m])
            run("stress" + sfx + "[Series]", getattr(law, "stress" + sfx), [pd.Series(arr * m, index=idx, name="load")])
            sv = np.array(s) if isinstance(s, list) and len(s) == len(arr) and all(v == v for v in s) else arr * m / 2
            run("load" + sfx, getattr(law, "load" + sfx), [sv.copy()])
            run("load" + sfx + "[Series]", getattr(law, "load" + sfx), [pd.Series(sv.copy(), index=idx, name="stress")])
            run("strain" + sfx, getattr(law, "strain" + sfx), [sv.copy(), arr * m], two=True)
        return out

    def _oracle_several(self, case):
        """Several law objects alive at once (both classes; equal and different E, K', n', K_p): after the setters of ONE of them
        were used, EVERY object gives what a fresh law with ITS OWN reported parameters gives (bit for bit), what it gave before
        when it was not touched, and roots / strains of its defining equation written out with its own reported parameters; laws
        built afterwards from the original parameters give what the first objects gave."""
        import random
        import pylife.materiallaws.notch_approximation_law as nal
        import pylife.materiallaws.notch_approximation_law_seegerbeste as sbm
        F = []
        rng = random.Random(json.dumps({k: v for k, v in case.items() if k != "history"}, sort_keys=True))
        E, K, n_, Kp, t = case["E"], case["K"], case["n"], case["Kp"], case["tol"]
        Ls = [float(x) for x in case["loads"]]
        Ls = sorted({Ls[0], Ls[len(Ls) // 2], Ls[-1]})
        cls = {"neuber": nal.ExtendedNeuber, "sb": sbm.SeegerBeste}
        other = "sb" if case["law"] == "neuber" else "neuber"
        kp_sb = Kp if Kp > 1 else 1.5
        K2 = K * rng.choice([0.8, 1.3])
        specs = [(case["law"], E, K, n_, Kp),
                 (other, E, K, n_, kp_sb if other == "sb" else Kp),            # the other class, same material
                 (rng.choice(["neuber", "sb"]), E, K2, n_, rng.choice([1.5, 3.5])),     # another material
                 (rng.choice(["neuber", "sb"]), E, K, n_, rng.choice([2.0, 10.0]))]     # same material, another K_p
        rng.shuffle(specs)
        laws = [cls[c](e, k, n, kp) for c, e, k, n, kp in specs]
        lname = ["neuber" if c == "neuber" else "seegerbeste" for c, *_ in specs]

        def tagof(i, when):
            return (f"{specs[i][0]} object {i} of {len(specs)} living objects {[(c, k, kp) for c, _e, k, _n, kp in specs]!r} (law, K', K_p; E={E!r}, "
                    f"n'={n_!r}), {when}, reporting E={laws[i].E!r} K'={laws[i].K!r} n'={laws[i].n!r} K_p={laws[i].K_p!r}, rtol=tol={t!r}")

        def differs(a, b):
            for name in a:
                x, y = a[name], b.get(name)
                if isinstance(x, str) or isinstance(y, str):
                    if x != y:
                        return f"{name}: {x if isinstance(x, str) else 'values'} vs {y if isinstance(y, str) else 'values'}"
                    continue
                for u, v in zip(x, y):
                    if not (u == v or (u != u and v != v)):
                        return f"{name}: {x!r} vs {y!r}"
            return None

        def own_equation(i, res, when):
            c = {"law": specs[i][0], "E": laws[i].E, "K": laws[i].K, "n": laws[i].n, "Kp": laws[i].K_p}
            arr = Ls + [-x for x in Ls]
            for br, sfx, m in ((1, "", 1.0), (2, "_secondary_branch", 2.0)):
                s = res.get("stress" + sfx)
                if not isinstance(s, list) or len(s) != len(arr):
                    self._count("several_objects_solver_raises")
                    continue
                self._count("several_objects_values_checked", len(s))
                for L, v in zip(arr, s):
                    root = math.copysign(ref_root(c, br, abs(L * m)), L)
                    if not abs(v - root) <= t + t * abs(root):
                        return (f"{tagof(i, when)}: stress{sfx}({L * m!r}) = {v!r}; the root of the defining equation with the reported "
                                f"parameters is {root!r}")
                e = res.get("strain" + sfx)
                if isinstance(e, list) and len(e) == len(s):
                    for v, ev in zip(s, e):
                        w = ro(c["E"], c["K"], c["n"], v) if br == 1 else 2 * ro(c["E"], c["K"], c["n"], v / 2)
                        if not (ev == w or abs(ev - w) <= 1e-12 * abs(w)):
                            return (f"{tagof(i, when)}: strain{sfx}({v!r}) = {ev!r}; Ramberg-Osgood strain with the reported parameters {w!r}")
            return None

        before = [self._eval_all(l, lname[i], Ls, t, F, tagof(i, "first use")) for i, l in enumerate(laws)]
        for i in range(len(laws)):
            d = own_equation(i, before[i], "first use")
            if d:
                F.append((d, "law-objects-interfere"))
        orig_specs = list(specs)
        # the setters of ONE object, in random order
        j = rng.randrange(len(laws))
        steps = [("K_p", rng.choice([k for k in (1.5, 2.5, 5.0) if k != laws[j].K_p])),
                 (rng.choice(["K", "K_prime"]), K * rng.choice([0.7, 1.25, 1.6])),
                 (rng.choice(["K", "K_prime"]), K * rng.choice([0.9, 1.1]))]
        rng.shuffle(steps)
        for attr, val in steps[:rng.randint(1, 3)]:
            setattr(laws[j], attr, val)
            specs[j] = (specs[j][0],) + (specs[j][1], val, specs[j][3], specs[j][4]) if attr != "K_p" else specs[j][:4] + (val,)
        how = f"after {[a for a, _v in steps]!r}-setter calls on object {j}"
        after = [self._eval_all(l, lname[i], Ls, t, F, tagof(i, how)) for i, l in enumerate(laws)]
        for i, l in enumerate(laws):
            d = own_equation(i, after[i], how)
            if d:
                F.append((d, "law-objects-interfere"))
            if i != j:
                d = differs(before[i], after[i])
                if d:
                    F.append((f"{tagof(i, how)}: an object that was not touched gives other results than before - {d}", "law-objects-interfere"))
            fresh = cls[specs[i][0]](l.E, l.K, l.n, l.K_p)
            d = differs(after[i], self._eval_all(fresh, lname[i], Ls, t, F, tagof(i, "fresh law with the same reported parameters")))
            if d:
                F.append((f"{tagof(i, how)}: differs from a law freshly built with the parameters it reports - {d}",
                          "law-objects-interfere" if i != j else f"{lname[i]}-history"))
        # laws built afterwards from the ORIGINAL parameters give what the first objects gave
        for i, (c, e, k, n, kp) in enumerate([(case["law"], E, K, n_, Kp), (other, E, K, n_, kp_sb if other == "sb" else Kp)]):
            late = cls[c](e, k, n, kp)
            res = self._eval_all(late, "neuber" if c == "neuber" else "seegerbeste", Ls, t, F, f"{c} law built after the setter calls")
            d = differs(before[orig_specs.index((c, e, k, n, kp))], res)
            if d:
                F.append((f"{c} law built {how} from the original parameters E={e!r}, K'={k!r}, n'={n!r}, K_p={kp!r} gives other results than "
                          f"the first object with these parameters gave - {d}", "law-objects-interfere"))
            ce = {"law": c, "E": late.E, "K": late.K, "n": late.n, "Kp": late.K_p}
            s = res.get("stress")
            if isinstance(s, list):
                for L, v in zip(Ls + [-x for x in Ls], s):
                    root = math.copysign(ref_root(ce, 1, abs(L)), L)
                    if not abs(v - root) <= t + t * abs(root):
                        F.append((f"{c} law built {how} from E={e!r}, K'={k!r}, n'={n!r}, K_p={kp!r} (reporting K'={late.K!r}): stress({L!r}) = {v!r}; "
                                  f"root of the defining equation with these parameters {root!r}", "law-objects-interfere"))
                        break
        return F

    def _oracle_ndim(self, case):
        """Seeger-Beste, array path only: a 2-d load (stress) array with one K_p per column - the law object is built with a
        K_p vector, every column belongs to one node - gives for every column what the law with that column's K_p gives for the
        column alone (bit for bit: every element is solved on its own), has the shape of the input, and every value is the root
        within the tolerance."""
        import pylife.materiallaws.notch_approximation_law_seegerbeste as sbm
        F = []
        E, K, n_, Kp, t = case["E"], case["K"], case["n"], case["Kp"], case["tol"]
        kps = [Kp] + [k for k in (1.5, 3.5, 10.0, 1.05) if k != Kp][:2]
        Ls = [float(x) for x in case["loads"]]
        rows = Ls + [0.0] + [-x for x in Ls[:2]]
        M = np.array([[x * sg for sg in (1.0, -1.0, 1.0)] for x in rows])
        what0 = f"sb (E={E!r}, K'={K!r}, n'={n_!r}, K_p={kps!r} one per column, rtol=tol={t!r})"
        law = sbm.SeegerBeste(E, K, n_, np.array(kps))
        cols = [sbm.SeegerBeste(E, K, n_, k) for k in kps]
        with warnings.catch_warnings():
            warnings.simplefilter("ignore")
            with np.errstate(all="ignore"):
                for br in (1, 2):
                    sfx = "" if br == 1 else "_secondary_branch"
                    X = M * br
                    for direction in ("stress", "load"):
                        fname = direction + sfx
                        try:
                            got = np.asarray(fn(law, direction, br)(X, rtol=t, tol=t), dtype=float)
                        except Exception as e:      # noqa: BLE001
                            F.append((f"{what0}: {fname} of the {X.shape} array {X.tolist()!r} raises {type(e).__name__}: {str(e)[:120]}",
                                      "seegerbeste-ndim"))
                            break
                        if got.shape != X.shape:
                            F.append((f"{what0}: {fname} of an array of shape {X.shape} has the shape {got.shape}", "seegerbeste-ndim"))
                            break
                        self._count("seegerbeste_2d_values_checked", got.size)
                        bad = None
                        for j, (lawj, kj) in enumerate(zip(cols, kps)):
                            alone = np.asarray(fn(lawj, direction, br)(X[:, j].copy(), rtol=t, tol=t), dtype=float)
                            cj = dict(case, Kp=kj)
                            for i in range(X.shape[0]):
                                x, v, w = float(X[i, j]), float(got[i, j]), float(alone[i])
                                if not (v == w or (v != v and w != w)):
                                    bad = (f"{what0}: {fname} of the array {X.tolist()!r} gives {v!r} at [{i}, {j}]; the law with "
                                           f"K_p={kj!r} gives {w!r} for the column {X[:, j].tolist()!r} alone", "seegerbeste-ndim")
                                    break
                                if x == 0:
                                    root = 0.0
                                elif direction == "stress":
                                    root = math.copysign(ref_root(cj, br, abs(x)), x)
                                else:
                                    root = math.copysign(self._ref_load(cj, br, abs(x)), x)
                                if not abs(v - root) <= t + t * abs(root):
                                    bad = (f"{what0}: {fname} of the array {X.tolist()!r} gives {v!r} at [{i}, {j}] (K_p={kj!r}, argument "
                                           f"{x!r}); root of the defining equation {root!r}", "seegerbeste-ndim")
                                    break
                            if bad:
                                break
                        if bad:
                            F.append(bad)
                            break
                        if direction == "stress":
                            X = got          # the backward function on the returned stresses
        return F

    def _oracle_strain(self, case, br, name, r, taint, have_roots):
        """`strain(sigma, L)` / `strain_secondary_branch(d sigma, d L)`: the Ramberg-Osgood strain (Masing-doubled on the secondary
        branch) of the stress, for every container; at the stress the law returned it satisfies the law's defining equation
        (strain = K_p e*(L) L / sigma [x middle term]) within the propagated tolerance; odd."""
        F = []
        E, K, n_, Kp, t = case["E"], case["K"], case["n"], case["Kp"], case["tol"]
        sfx = "" if br == 1 else "_secondary_branch"
        what = f"{case['law']} strain{sfx} (E={E!r}, K'={K!r}, n'={n_!r}, K_p={Kp!r})"
        st = r["strain"]
        ss, Lv = st["stresses"], st["loads"]
        n = len(ss) // 2

        def want(s):
            return ro(E, K, n_, s) if br == 1 else 2 * ro(E, K, n_, s / 2)
        got = st["arr"]
        for label, v in (("ndarray", st["arr"]), ("Series", st["ser"]), ("zero vector", st["zero"])):
            if isinstance(v, str):
                F.append((f"{what}: {label} input raises {v}", f"{name}-strain"))
        if isinstance(got, str):
            return F
        if len(got) != len(ss):
            return F + [(f"{what}: {len(got)} values for {len(ss)} stresses", f"{name}-strain")]
        if isinstance(st["ser"], list) and st["ser"] != got and not all(x == y or (x != x and y != y) for x, y in zip(st["ser"], got)):
            F.append((f"{what}: ndarray and Series inputs give different results", f"{name}-strain"))
        for i, (s, L, e) in enumerate(zip(ss, Lv, got)):
            self._count(f"{name}_strain_values_checked")
            w = want(s)
            if not (e == e) or abs(e - w) > 1e-12 * abs(w):
                F.append((f"{what}: strain{sfx}({s!r}, {L!r}) = {e!r}, Ramberg-Osgood {'strain' if br == 1 else 'delta strain'} of the stress {w!r}",
                          f"{name}-strain"))
                break
        for i, v in st["scalar"].items():
            if isinstance(v, str):
                F.append((f"{what}: scalar input ({ss[i]!r}, {Lv[i]!r}) raises {v}", f"{name}-strain"))
            elif v[0] != got[i] and not (v[0] != v[0] and got[i] != got[i]):
                F.append((f"{what}: scalar input ({ss[i]!r}, {Lv[i]!r}) gives {v[0]!r}, inside an array {got[i]!r}", f"{name}-strain"))
        for i in range(n):
            if ss[i] == -ss[n + i] and got[i] != -got[n + i]:
                F.append((f"{what}: not odd: {got[i]!r} at {ss[i]!r}, {got[n + i]!r} at {ss[n + i]!r}", f"{name}-strain"))
        if isinstance(st["zero"], list):
            for s, e in zip(r["zero"]["stresses"], st["zero"]):
                w = want(s)
                if not (e == w or abs(e - w) <= 1e-12 * abs(w)) or (s == 0 and e != 0):
                    F.append((f"{what}: stress {s!r} inside the vector {r['zero']['stresses']!r} gives the strain {e!r} instead of {w!r}", f"{name}-strain"))
                    break
        # the defining equation with the Ramberg-Osgood strain, at the stresses the law returned
        if have_roots:
            for i, (s, L, e) in enumerate(zip(ss, Lv, got)):
                if i in taint or not (e == e):
                    continue
                x = math.copysign(r["roots"][i % n], L)
                sb, Lb, xb = (abs(s), abs(L), abs(x)) if br == 1 else (abs(s) / 2, abs(L) / 2, abs(x) / 2)
                rhs = (Lb / xb) * Kp * ro(E, K, n_, Lb / Kp)
                if case["law"] != "neuber":
                    u = (math.pi / 2) * ((Lb / xb - 1) / (Kp - 1))
                    if 0 < u < math.pi / 2:
                        su = math.sin(u)
                        rhs *= (2 / (u * u)) * (-0.5 * math.log1p(-su * su)) + (xb / Lb) ** 2 - xb / Lb
                    # u = 0: the root is the load itself, middle term -> 1
                if br == 2:
                    rhs *= 2
                rhs = math.copysign(rhs, L)
                # d strain / d stress at the larger of the two stresses (convex for positive stresses)
                m = max(sb, xb)
                slope = 1 / E + (m / K) ** (1 / n_ - 1) / (n_ * K)
                self._count(f"{name}_strain_equation_checked")
                if abs(e - rhs) > 1.5 * slope * (t + t * abs(x)) + 1e-9 * abs(rhs):
                    F.append((f"{what}: at the stress {s!r} returned for the load {L!r} the strain is {e!r}; the right-hand side of the "
                              f"defining equation at the root {x!r} is {rhs!r}", f"{name}-strain-equation"))
                    break
        return F

    def _oracle_zero(self, case, br, what, name, z):
        """A vector that holds exact zeros among other loads (stresses): every element as for the scalar call; a load (stress) of
        exactly zero, alone or inside a vector, gives zero - never nan, never an error (the defining equations are trivially
        satisfied there)."""
        F = []
        t, Kp = case["tol"], case["Kp"]
        zcls = "neuber-backward-zero-nan" if name == "neuber" else "seegerbeste-zero-load-nan"
        fcls = "neuber-containers" if name == "neuber" else "seegerbeste-zero-load-nan"
        refz = [0.0 if x == 0 else math.copysign(ref_root(case, br, abs(x)), x) for x in z["loads"]]
        runs = [("load" if br == 1 else "load_secondary_branch", "load", z["stresses"], z["loads"], [z["back_arr"], z["back_ser"]],
                 z["back_scalar0"], zcls),
                ("stress" if br == 1 else "stress_secondary_branch", "stress", z["loads"], refz, [z["arr"], z["ser"], z["list"]],
                 [z["scalar"][1], z["scalar"][3]], fcls)]
        for fname, direction, xs, want, results, scalar0, kz in runs:
            for sc, x in zip(scalar0, (0.0, -0.0)):
                if not (isinstance(sc, list) and sc[0] == 0):
                    F.append((f"{what}: {fname}({x!r}) {'raises ' + sc if isinstance(sc, str) else 'returns ' + repr(sc[0])} instead of 0", kz))
            for got in results:
                if isinstance(got, str):
                    if got == "RuntimeError":
                        self._count(f"{name}_solver_raises_zero_vector")
                        F.append((f"{what}: {fname}({xs!r}) raises RuntimeError",
                                  self._miss_class(case, direction, br, xs, 0, got, "raises", math.inf)))
                    else:
                        F.append((f"{what}: {fname}({xs!r}) raises {got}", kz))
                    continue
                self._count(f"{name}_zero_vector_elements_checked", len(got))
                if len(got) != len(xs):
                    F.append((f"{what}: {fname}({xs!r}) returns {len(got)} values", kz))
                    continue
                for i, (x, v, w) in enumerate(zip(xs, got, want)):
                    if x == 0:
                        if v != 0:
                            F.append((f"{what}: {fname} of the vector {xs!r} gives {v!r} for the element {x!r} instead of 0 "
                                      f"(the scalar call gives {scalar0[0][0] if isinstance(scalar0[0], list) else scalar0[0]!r})", kz))
                        continue
                    dev = abs(v - w) if v == v else math.inf
                    if direction == "load":
                        if dev > t + t * abs(w):        # the stress is the reference root of the load w
                            F.append((f"{what}: {fname}({xs!r}) gives {v!r} for the stress {x!r} of the load {w!r}",
                                      self._miss_class(case, "load", br, xs, i, v, "backward", dev / abs(w))))
                    elif dev > t + t * abs(w):
                        out = not (abs(x) / Kp - (t + t * abs(w)) <= abs(v) <= abs(x) + (t + t * abs(w))) or (v > 0) != (x > 0)
                        F.append((f"{what}: {fname}({xs!r}) gives {v!r} for the load {x!r}, root {w!r}",
                                  self._miss_class(case, "stress", br, xs, i, v, "outside-bracket" if out else "tolerance", dev / abs(w))))
        # every element of the forward vector as its scalar call
        for x, sc, rx in zip(z["loads"], z["scalar"], refz):
            if x == 0:
                continue
            if isinstance(sc, str):
                F.append((f"{what}: scalar load {x!r} raises {sc}",
                          self._miss_class(case, "stress", br, float(x), 0, sc, "raises", math.inf) if sc == "RuntimeError" else f"{name}-scalar-input"))
            elif not (sc[0] == sc[0]) or abs(sc[0] - rx) > t + t * abs(rx):
                out = not (abs(x) / Kp - (t + t * abs(rx)) <= abs(sc[0]) <= abs(x) + (t + t * abs(rx))) or (sc[0] > 0) != (x > 0)
                F.append((f"{what}: scalar load {x!r} gives {sc[0]!r}, root {rx!r}",
                          self._miss_class(case, "stress", br, float(x), 0, sc[0], "outside-bracket" if out else "tolerance",
                                           abs(sc[0] - rx) / abs(rx) if sc[0] == sc[0] else math.inf)))
        return F

    def shrink(self, case, still_fails):
        cur = dict(case)
        changed = True
        while changed and len(cur["loads"]) > 1:
            changed = False
            for i in range(len(cur["loads"])):
                cand = dict(cur, loads=cur["loads"][:i] + cur["loads"][i + 1:])
                try:
                    if still_fails(cand):
                        cur, changed = cand, True
                        break
                except Exception:      # noqa: BLE001
                    continue
        for key in ("hi",):
            changed = True
            while changed and len(cur.get(key, [])) > 0:
                changed = False
                for i in range(len(cur[key])):
                    cand = dict(cur, **{key: cur[key][:i] + cur[key][i + 1:]})
                    try:
                        if still_fails(cand):
                            cur, changed = cand, True
                            break
                    except Exception:      # noqa: BLE001
                        continue
        return cur
