"""C06: the notch approximation laws (extended Neuber, Seeger-Beste) return the root of their defining equation,
and its inverse.

Implementation side + generators + direct property oracle.  The Lean model is lean/Model/Notch.lean (section `laws`),
its protocol handler lean/Driver/Notch.lean (ops `c06.*`).

What is compared with the compiled model (correspondence):
  * the defining functions `_stress_implicit` / `_stress_secondary_implicit` of both laws (= `_load_implicit` with swapped
    arguments) at sampled (stress, load) points incl. the fall-back points (stress = 0, u = 0, cos u <= 0) and negative
    arguments - relative tolerance 1e-11 on the two terms of the difference / quotient (pow, log, cos differ by ulps
    between libm and numpy), widened by the condition number of the Seeger-Beste middle term;
  * extended Neuber: what `stress`, `stress_secondary_branch`, `load`, `load_secondary_branch` return vs the model's
    bisection root on `[L/K_p, L]` resp. `[s, K_p s]`, within the requested tolerance `tol + rtol |root|`.
What the oracle evaluates on the real code alone (reference roots by an independent bisection written in Python with a
cancellation-free middle term): tolerance, bracket, oddness, monotonicity on sorted grids, `load(stress(L)) = L`,
scalar / ndarray / Series agreement.  Solver `RuntimeError`s are counted, not failed."""
import json
import math
import warnings

import numpy as np
import pandas as pd

from .core import Prop, f2h, h2f

SOURCES = [
    "src/pylife/materiallaws/notch_approximation_law.py",
    "src/pylife/materiallaws/notch_approximation_law_seegerbeste.py",
    "src/pylife/materiallaws/rambgood.py",
]
GROUPS = ["Steel", "SteelCast", "Al_wrought"]
KPS = [1.0, 1.001, 1.5, 3.5, 10.0]
_MAT = {}


def material(group, Rm):
    """E, K', n' from the FKM estimates (the real calculate_cyclic_assessment_parameters)."""
    key = (group, Rm)
    if key not in _MAT:
        import pylife.strength.fkm_nonlinear.parameter_calculations as pc
        ap = pc.calculate_cyclic_assessment_parameters(pd.Series({"MatGroupFKM": group, "R_m": Rm}))
        _MAT[key] = (float(ap.E), float(ap.K_prime), float(ap.n_prime))
    return _MAT[key]


def make_law(case):
    """The law object of a case.  With a `history` the object is NOT constructed with the case's parameters: it is built with
    earlier values, used once (every solver method, so that anything an object might remember is filled in), and then brought
    to the case's (= the reported) parameters through the setters the class offers (`K_p`, `K` / `K_prime`)."""
    if case["law"] == "neuber":
        import pylife.materiallaws.notch_approximation_law as nal
        cls = nal.ExtendedNeuber
    else:
        import pylife.materiallaws.notch_approximation_law_seegerbeste as sb
        cls = sb.SeegerBeste
    h = case.get("history")
    if not h:
        return cls(case["E"], case["K"], case["n"], case["Kp"])
    law = cls(case["E"], h["K0"], case["n"], h["Kp0"])
    with warnings.catch_warnings():
        warnings.simplefilter("ignore")
        with np.errstate(all="ignore"):
            for x in (float(h["warm"]), np.array([float(h["warm"]), -0.5 * float(h["warm"])])):
                for name in ("stress", "stress_secondary_branch", "load", "load_secondary_branch"):
                    try:
                        getattr(law, name)(x if name.startswith("stress") else x / 2)
                    except RuntimeError:
                        pass
    law.K_p = case["Kp"]
    if h["via"] == "K":
        law.K = case["K"]
    elif h["via"] == "K_prime":
        law.K_prime = case["K"]
    return law


def kind_of(case, branch):
    return ("n" if case["law"] == "neuber" else "s") + ("p" if branch == 1 else "s")


# ------------------------------------------------------------------ independent reference (pure Python)
def ro(E, K, n, s):
    if s == 0:
        return 0.0
    return s / E + math.copysign((abs(s) / K) ** (1.0 / n), s)


def ref_F(case, branch, s, L):
    """The law's defining function for positive stress and load, written from the guideline's equations
    (2.5-45/46, 2.8-42/43); secondary branch by Masing doubling; ln(1/cos u) without cancellation."""
    E, K, n, Kp = case["E"], case["K"], case["n"], case["Kp"]
    if branch == 2:
        s, L = s / 2, L / 2
    eps = ro(E, K, n, s)
    N = (L / s) * Kp * ro(E, K, n, L / Kp)
    if case["law"] == "neuber":
        return eps - N
    u = (math.pi / 2) * ((L / s - 1) / (Kp - 1))
    if u <= 0:
        return math.inf          # limit sigma -> L: middle term -> 1, handled by the bracket
    if u >= math.pi / 2:
        return -1.0
    su = math.sin(u)
    lg = -0.5 * math.log1p(-su * su)
    mid = (2 / (u * u)) * lg + (s / L) ** 2 - s / L
    return eps / (mid * N) - 1.0


def ref_root(case, branch, L):
    """root in sigma for L > 0 by bisection on [L/K_p, L]"""
    Kp = case["Kp"]
    lo, hi = L / Kp, L
    if case["law"] == "neuber":
        if not (ref_F(case, branch, hi, L) >= 0):
            return hi
    for _ in range(200):
        mid = (lo + hi) / 2
        if mid <= lo or mid >= hi:
            break
        if ref_F(case, branch, mid, L) < 0:
            lo = mid
        else:
            hi = mid
    return (lo + hi) / 2


def call(f, x, t):
    """a solver call; returns list of floats or 'RuntimeError' (solver gave up) or another exception's name"""
    try:
        with warnings.catch_warnings():
            warnings.simplefilter("ignore")
            with np.errstate(all="ignore"):
                r = f(x, rtol=t, tol=t)
    except RuntimeError:
        return "RuntimeError"
    except Exception as e:      # noqa: BLE001
        return type(e).__name__
    return [float(v) for v in np.atleast_1d(np.asarray(r, dtype=float))]


def sb_class(base, rel, Kp):
    """Finding class of a Seeger-Beste deviation.  The recorded (known) defects are bounded: values a little beside the
    root / the bracket (float breakdown of the middle term near sigma -> L, early stop of the vectorised secant) and, for
    K_p next to one, arbitrary spurious roots.  Anything beyond these bounds is a different failure."""
    if rel <= 2e-2:
        return base
    if Kp < 1.05:
        return "seegerbeste-spurious-root-kp-near-one"
    return "seegerbeste-wrong-root"


def fn(law, name, branch):
    return getattr(law, name + ("" if branch == 1 else "_secondary_branch"))


# ------------------------------------------------------------------ generators
def zero_vector(loads):
    """A container of more than one load that holds exact zeros (+0.0 and -0.0) among non-zero loads of both signs."""
    Ls = [float(x) for x in loads]
    return [Ls[0], 0.0, -Ls[-1], -0.0, Ls[len(Ls) // 2]]


def gen_case(rng, law=None, Kp=None, group=None, hi=None):
    law = law or rng.choice(["neuber", "sb"])
    g = group or rng.choice(GROUPS)
    Rm = rng.choice([rng.uniform(200, 2000), 200.0, 2000.0, 600.0])
    E, K, n = material(g, Rm)
    if Kp is None:
        Kp = rng.choice(KPS if law == "neuber" else KPS[1:])
        if rng.random() < 0.2:
            Kp = rng.uniform(1.0 if law == "neuber" else 1.05, 12.0)
    tol = rng.choice([1e-4, 1e-4, 1e-6, 1e-8, 1e-10, 10 ** rng.uniform(-10, -4)])
    top = 4 * Rm
    k = rng.randint(4, 9)
    mode = rng.random()
    if mode < 0.5:
        loads = sorted(rng.uniform(0.02, 1) * top for _ in range(k))
    elif mode < 0.8:
        loads = sorted(10 ** rng.uniform(math.log10(top) - 2.5, math.log10(top)) for _ in range(k))
    else:
        loads = [top * (i + 1) / k for i in range(k)]
    # keep the grid spaced (monotonicity is checked between neighbours)
    grid = [loads[0]]
    for L in loads[1:]:
        if L >= grid[-1] * 1.02:
            grid.append(L)
    # loads at the upper edge of "a few times the tensile strength" for the scalar round trip load(stress(L))
    if hi is None:
        hi = sorted(rng.uniform(3, 6) for _ in range(2))
    return {"law": law, "group": g, "Rm": Rm, "E": E, "K": K, "n": n, "Kp": Kp, "tol": tol, "loads": grid,
            "hi": [m * Rm for m in hi]}


def add_history(rng, case):
    """Turn a case into a history case: the same reported parameters, reached through the setters of a used object."""
    law = case["law"]
    Kp0 = rng.choice([k for k in (KPS if law == "neuber" else KPS[1:]) + [2.0, 5.0] if k != case["Kp"]])
    via = rng.choice(["K", "K_prime", "none"])
    K0 = case["K"] if via == "none" else case["K"] * rng.choice([0.7, 1.25, rng.uniform(0.5, 1.6)])
    case["history"] = {"Kp0": Kp0, "K0": K0, "via": via, "warm": 1.5 * case["Rm"]}
    return case


# ------------------------------------------------------------------ the property
class C06(Prop):
    ID = "C06"
    SOURCES = SOURCES
    LEAN_MODULES = ["Proofs.C06", "Proofs.C06SeegerBeste"]
    THEOREMS = [f"PylifeVerif.C06.{t}" for t in [
        "neuber_bracket", "neuber_strictMono_in_stress", "neuber_exists_unique_root", "neuber_root_odd",
        "neuber_root_strictMono_in_load", "neuber_load_inverse",
        "neuber_secondary_masing", "neuber_secondary_exists_unique_root", "neuber_secondary_odd_strictMono",
        "neuber_secondary_load_inverse",
        "seegerBeste_root_odd", "seegerBeste_secondary_masing", "seegerBeste_domain_partial", "seegerBeste_root_iff_partial",
        "zero_load",
        # Seeger-Beste on the open bracket (Proofs/C06SeegerBeste.lean)
        "seegerBeste_middle_limit",
        "seegerBeste_bracket",
        "seegerBeste_exists_root",
        "seegerBeste_strictMono_in_stress",
        "seegerBeste_exists_unique_root",
        "seegerBeste_exists_unique_root_neg",
        "seegerBeste_root_strictMono_in_load",
        "seegerBeste_load_inverse",
        "seegerBeste_secondary_exists_unique_root",
        "seegerBeste_secondary_load_inverse",
    ]]
    PARTIAL = {
        "PylifeVerif.C06.seegerBeste_exists_unique_root":
            "Seeger-Beste: existence, uniqueness, monotonicity in stress and load and the inverse are proved for the mathematical equation on the "
            "OPEN bracket L/K_p < sigma < L (Proofs/C06SeegerBeste.lean; lim 2/u^2 ln(1/cos u) = 1 at 0+ and +inf at (pi/2)-).  Not claimed: the end "
            "points themselves (there the code evaluates np.divide fall-back values that differ from the limits), roots outside the bracket, and the "
            "behaviour of scipy's secant/Newton iteration - the solver results are measured per run against an independent bisection and four solver "
            "defects are open known findings",
    }
    RULE = ("case = law (extended Neuber / Seeger-Beste) x FKM-estimated material (3 groups, R_m in [200, 2000]) x K_p in "
            "{1, 1.001, 1.5, 3.5, 10} (Seeger-Beste > 1) or random x tolerance rtol = tol in [1e-10, 1e-4] x spaced grid of loads up to "
            "4 R_m, both signs, both branches; extended Neuber in addition: a vector holding exact zeros (+0.0, -0.0) among non-zero loads as ndarray / Series / list, and scalar round trips load(stress(L)) at 3 ... 6 R_m (secondary: twice that) for all three material groups.  Correspondence: defining functions of the real objects vs the model at Float "
            "(relative 1e-11 on the terms; Seeger-Beste widened by the conditioning of the middle term) at the returned roots, inside "
            "/ at the ends of the bracket, at zero stress and for negative arguments; extended Neuber forward and backward values vs "
            "the model's bisection roots within tol + rtol |root|.  Oracle (no Lean): reference root by an independent bisection; "
            "|value - root| <= tol + rtol |root|; |L|/K_p <= |value| <= |L| (within the tolerance); odd; increasing on the grid; "
            "load(stress(L)) = L; ndarray = Series bit for bit, scalar = array within the tolerance; every element of a vector with zeros as its scalar call (zero -> zero, nan is a failure); a scalar backward call returns the load or raises; a zero load / stress (scalar +0.0, -0.0, or an element of a vector, all four functions of both laws) gives zero, never nan or an error; a re-used object whose K_p / K' were changed through the setters behaves as a freshly constructed one; solver RuntimeErrors counted.  "
            "Non-trivial = every case in which at least one solver call returned")
    ASSUMPTIONS = [
        "C06: theorems are over the reals about the defining functions as coded (incl. the np.divide fall-backs); what "
        "scipy.optimize.newton returns (convergence, the branch it lands on) is not provable from here - measured per run",
        "C06: admissible parameters E, K' > 0, 0 < n' < 1, K_p >= 1 (Seeger-Beste K_p > 1) - the code checks none; loads are "
        "non-zero floats (ints and lists are rejected by the code with AttributeError / TypeError and are not generated)",
        "C06: 'to within the requested tolerance' is read as |returned - exact root| <= tol + rtol |root| with rtol = tol; "
        "'element-wise identical' as bit-identical for ndarray vs Series (same code path) and equal within that tolerance for "
        "scalar vs array (scipy's scalar and vectorised iterations stop at different iterates)",
        "C06: a load (stress) of exactly zero belongs to the quantifier ('every load ... both signs'): the stress (load) is zero "
        "(theorem zero_load: the equations are trivially satisfied there); for it a RuntimeError of the solver is a failure, not a "
        "counted solver failure, because nothing has to be solved",
        "C06: a law's result is a function of its REPORTED parameters (E, K', n', K_p as the object shows them), not of the object's "
        "history: history cases build an object with other values, use it, set K_p and K' through the setters (`K_p`, `K`, `K_prime`; "
        "there is no setter for E and n') and require (a) equality with a freshly constructed law within the solver tolerance, (b) all "
        "other checks (root of the independently evaluated equation for the reported parameters, bracket, ...) and (c) agreement of the "
        "object's defining functions with the model at the reported parameters in the correspondence",
        "C06: uniqueness is among stresses (loads) of the load's (stress's) sign: F(-s, L) = -F(s, L) and F(s, -L) = F(s, L), the "
        "solver's start value selects the sign",
    ]

    def __init__(self):
        self.stats = {}
        self.exhaustive = False
        self._cache = {}

    def _count(self, key, n=1):
        self.stats[key] = self.stats.get(key, 0) + n

    def generate(self, rng, tier):
        big = tier != "quick"
        for law in ("neuber", "sb"):
            for Kp in (KPS if law == "neuber" else KPS[1:]):
                for _ in range(4 if not big else 12):
                    yield gen_case(rng, law, Kp)
        # scalar backward calls at 3 ... 6 R_m for all three material groups (where the backward Newton iteration runs out of
        # iterations: it must then raise, never return the last iterate)
        for g in GROUPS:
            for Kp in (2.0, 3.5, 4.0, 10.0):
                for _ in range(1 if not big else 4):
                    c = gen_case(rng, "neuber", Kp, group=g, hi=[3.0, 4.0, 5.0, 6.0])
                    c["tol"] = 1e-4
                    yield c
        # history cases: one object, used, then brought to the reported parameters through the setters
        for law in ("neuber", "sb"):
            for Kp in (1.5, 3.5, 10.0):
                for _ in range(2 if not big else 8):
                    yield add_history(rng, gen_case(rng, law, Kp))
        for _ in range(130 if not big else 1500):
            c = gen_case(rng)
            yield add_history(rng, c) if rng.random() < 0.25 else c

    # -------------------------------------------------------------- running the real code once per case
    def _run(self, case):
        key = json.dumps(case, sort_keys=True)
        if key in self._cache:
            return self._cache[key]
        if len(self._cache) > 12:
            self._cache.clear()
        law = make_law(case)
        t = case["tol"]
        Ls = [float(x) for x in case["loads"]]
        arr = np.array(Ls + [-x for x in Ls])
        out = {}
        for br in (1, 2):
            f = fn(law, "stress", br)
            a = call(f, arr, t)
            s = call(f, pd.Series(arr), t)
            sc = {}
            for i in sorted({0, len(Ls) // 2, len(Ls) - 1}):
                sc[i] = (call(f, float(Ls[i]), t), call(f, float(-Ls[i]), t))
            back = None
            if isinstance(a, list):
                g = fn(law, "load", br)
                if case["law"] == "neuber":
                    back = call(g, np.array(a[:len(Ls)]), t)
                else:       # "only implemented for the scalar case"
                    back = [call(g, float(v), t) for v in a[:len(Ls)]]
                    back = [b[0] if isinstance(b, list) else b for b in back]
            hi = None
            zl = zero_vector(Ls)
            g = fn(law, "load", br)
            # the same vector on the stress axis for the backward functions (reference roots, zeros kept)
            sz = [0.0 * x if x == 0 else math.copysign(ref_root(case, br, abs(x)), x) for x in zl]
            zero = {"loads": zl, "arr": call(f, np.array(zl), t), "ser": call(f, pd.Series(zl), t), "list": call(f, list(zl), t),
                    "scalar": [call(f, x, t) for x in zl],
                    "stresses": sz, "back_arr": call(g, np.array(sz), t), "back_ser": call(g, pd.Series(sz), t),
                    "back_scalar0": [call(g, 0.0, t), call(g, -0.0, t)]}
            if case["law"] == "neuber":
                hi = []
                for L in case.get("hi", []):
                    for L1 in (float(L) * br, -float(L) * br):        # load ranges of the secondary branch reach twice as far
                        v = call(f, L1, t)
                        bk = call(g, v[0], t) if isinstance(v, list) and v[0] == v[0] else None
                        hi.append((L1, v, bk))
            out[br] = {"arr": a, "ser": s, "scalar": sc, "back": back, "zero": zero, "hi": hi}
        self._cache[key] = out
        return out

    # -------------------------------------------------------------- correspondence
    def _points(self, case, run):
        """(branch, stress, load) points at which the defining function is compared"""
        pts = []
        Ls = case["loads"]
        Kp = case["Kp"]
        for br in (1, 2):
            a = run[br]["arr"]
            for i in sorted({0, len(Ls) // 2, len(Ls) - 1}):
                L = Ls[i]
                lo = L / Kp
                ss = [lo + (L - lo) * 0.5, lo + (L - lo) * 0.05, lo + (L - lo) * 0.95, lo, L, 0.0, 0.3 * lo, 1.2 * L]
                if isinstance(a, list) and a[i] == a[i] and abs(a[i]) < 1e300:
                    ss.append(a[i])
                for s in ss:
                    pts.append((br, s, L))
                pts.append((br, -ss[0], -L))
                pts.append((br, ss[1], -L))
        return pts

    def model_lines(self, case):
        run = self._run(case)
        mat = f"{f2h(case['E'])} {f2h(case['K'])} {f2h(case['n'])} {f2h(case['Kp'])}"
        lines = []
        for br, s, L in self._points(case, run):
            lines.append(f"c06.F {kind_of(case, br)} {mat} {f2h(s)} {f2h(L)}")
        if case["law"] == "neuber":
            for br in (1, 2):
                Ls = case["loads"]
                for L in Ls + [-x for x in Ls]:
                    lines.append(f"c06.root {kind_of(case, br)} {mat} {f2h(L)}")
                if isinstance(run[br]["arr"], list) and isinstance(run[br]["zero"]["arr"], list):
                    for L in run[br]["zero"]["loads"]:
                        lines.append(f"c06.root {kind_of(case, br)} {mat} {f2h(L)}")
                a = run[br]["arr"]
                if isinstance(a, list) and isinstance(run[br]["back"], list):
                    for v in a[:len(Ls)]:
                        lines.append(f"c06.load {kind_of(case, br)} {mat} {f2h(v)}")
        return lines

    def impl_lines(self, case):
        run = self._run(case)
        law = make_law(case)
        self._count(f"cases_{case['law']}_Kp{case['Kp'] if case['Kp'] in KPS else 'random'}")
        out = []
        with warnings.catch_warnings():
            warnings.simplefilter("ignore")
            with np.errstate(all="ignore"):
                for br, s, L in self._points(case, run):
                    f = law._stress_implicit if br == 1 else law._stress_secondary_implicit
                    out.append(f2h(float(f(np.float64(s), np.float64(L)))))
        if case["law"] == "neuber":
            for br in (1, 2):
                a = run[br]["arr"]
                n = len(case["loads"])
                if isinstance(a, list):
                    out.extend(f2h(v) for v in a)
                    self._count("neuber_forward_values", len(a))
                    if isinstance(run[br]["zero"]["arr"], list):
                        out.extend(f2h(v) for v in run[br]["zero"]["arr"])
                        self._count("neuber_forward_values_in_a_vector_with_zeros", len(run[br]["zero"]["arr"]))
                    if isinstance(run[br]["back"], list):
                        out.extend(f2h(v) for v in run[br]["back"])
                        self._count("neuber_backward_values", n)
                else:
                    out.extend([a] * (2 * n))
                    self._count("neuber_forward_" + a)
        return out

    def compare(self, case, model_out, impl_out):
        if len(model_out) != len(impl_out):
            return f"length {len(model_out)} vs {len(impl_out)}"
        run = self._run(case)
        pts = self._points(case, run)
        t = case["tol"]
        ops = [l.split(" ", 1)[0] for l in self.model_lines(case)]
        for i, (a, b) in enumerate(zip(model_out, impl_out)):
            if i < len(pts):
                br, s, L = pts[i]
                toks = a.split()
                Fm, ta, tb, u = (h2f(x) for x in toks)
                Fi = h2f(b)
                if Fm != Fm and Fi != Fi:
                    continue
                if case["law"] == "neuber":
                    ok = abs(Fm - Fi) <= 1e-11 * (abs(ta) + abs(tb)) + 1e-300
                else:
                    if not (math.isfinite(Fm) and math.isfinite(Fi)):
                        ok = (Fm == Fi) or (tb == 0) or abs(tb) < 1e-12 * abs(ta)
                    else:
                        # conditioning of the middle term: f1 ln(1/cos u) + f^2 - f with f1 = 2/u^2
                        c = math.cos(u)
                        f1 = 2 / (u * u) if u != 0 else 1.0
                        fr = (s / L) if L != 0 else 1.0
                        if c > 0:
                            lg = math.log(1 / c)
                            err = f1 * (4e-16 / c * max(abs(u), 1.0) + 4e-16 * (1 + abs(lg))) + 4e-16 * (fr * fr + abs(fr))
                        else:
                            lg = 0.0
                            err = 4e-16 * (fr * fr + abs(fr))
                        mid = f1 * lg + fr * fr - fr
                        rel = 1e-11 + 10 * err / max(abs(mid), 1e-300)
                        if rel > 1e-3 or abs(c) < 1e-9:
                            self._count("sb_F_illconditioned_not_compared")
                            continue
                        ok = abs(Fm - Fi) <= rel * (abs(Fm + 1) + abs(Fi + 1)) + 1e-13
                if not ok:
                    return (f"line {i}: defining function {kind_of(case, br)} at stress {s!r}, load {L!r}: model={Fm!r} impl={Fi!r} "
                            f"(terms {ta!r}, {tb!r}, u={u!r})")
            else:
                if b == "RuntimeError" or len(b) != 16:
                    continue
                vm, vi = h2f(a), h2f(b)
                if not abs(vm - vi) <= t + t * abs(vm):
                    if ops[i] == "c06.load":
                        # backward values: a miss does not invalidate the model (its root is confirmed by the forward
                        # direction); it is a property failure and is reported, with its class, by the oracle
                        self._count("neuber_backward_value_off_model_root")
                        continue
                    return f"line {i}: extended Neuber returned {vi!r}, bisection root of the model {vm!r}, tolerance {t!r}"
        return None

    def nontrivial(self, case, model_out):
        run = self._run(case)
        if any(isinstance(run[br]["arr"], list) for br in (1, 2)):
            return json.dumps(case, sort_keys=True)
        return None

    # -------------------------------------------------------------- direct property oracle (real code only)
    def _oracle_history(self, case):
        """A law's result is a function of its reported parameters, not of the object's history: the re-used object must give
        what a freshly constructed law with the same parameters gives."""
        fresh_case = {k: v for k, v in case.items() if k != "history"}
        used, fresh = self._run(case), self._run(fresh_case)
        t = case["tol"]
        name = "neuber" if case["law"] == "neuber" else "seegerbeste"
        h = case["history"]
        how = (f"object constructed with K_p={h['Kp0']!r}, K'={h['K0']!r}, used, then set to K_p={case['Kp']!r}"
               + (f", K'={case['K']!r} (setter {h['via']})" if h["via"] != "none" else ""))

        def flat(r):
            items = [("array", r["arr"]), ("Series", r["ser"]), ("backward", r["back"])]
            items += [(f"scalar[{i}]", v) for i, pq in sorted(r["scalar"].items()) for v in pq]
            z = r.get("zero")
            if z:
                items += [("vector with zeros", z["arr"]), ("backward vector with zeros", z["back_arr"])]
            return items
        for br in (1, 2):
            for (label, a), (_l, b) in zip(flat(used[br]), flat(fresh[br])):
                if a is None or b is None:
                    continue
                if isinstance(a, str) or isinstance(b, str):
                    if a != b and not (isinstance(a, str) and isinstance(b, str)):
                        self._count(f"{name}_history_one_side_raises")
                    continue
                for i, (x, y) in enumerate(zip(a, b)):
                    if isinstance(x, str) or isinstance(y, str):
                        continue
                    self._count(f"{name}_history_values_compared")
                    if not (x == y or (x != x and y != y) or abs(x - y) <= 2 * (t + t * abs(y))):
                        return (f"{case['law']} branch {br}, {label}[{i}] (E={case['E']!r}, K'={case['K']!r}, n'={case['n']!r}, K_p={case['Kp']!r}, "
                                f"rtol=tol={t!r}, loads {case['loads']!r}): the {how} returns {x!r}, a freshly constructed law with the same "
                                f"parameters {y!r}", f"{name}-history")
        return None

    def oracle(self, case):
        if case.get("history"):
            d = self._oracle_history(case)
            if d:
                return d
        run = self._run(case)
        t = case["tol"]
        Ls = case["loads"]
        n = len(Ls)
        Kp = case["Kp"]
        name = "neuber" if case["law"] == "neuber" else "seegerbeste"
        for br in (1, 2):
            what = f"{case['law']} {'stress' if br == 1 else 'stress_secondary_branch'} (E={case['E']!r}, K'={case['K']!r}, n'={case['n']!r}, K_p={Kp!r}, rtol=tol={t!r})"
            r = run[br]
            a, s = r["arr"], r["ser"]
            for v in (a, s):
                if isinstance(v, str) and v != "RuntimeError":
                    return (f"{what}: array / Series input raises {v}", f"{name}-containers")
            if isinstance(a, str) or isinstance(s, str):
                self._count(f"{name}_solver_raises_array")
                if a != s:
                    return (f"{what}: ndarray gives {a if isinstance(a, str) else 'values'}, Series gives {s if isinstance(s, str) else 'values'}",
                            f"{name}-containers")
                continue
            if len(a) != 2 * n or a != s and not all(x == y or (x != x and y != y) for x, y in zip(a, s)):
                return (f"{what}: ndarray and Series inputs give different results", f"{name}-containers")
            roots = [ref_root(case, br, L) for L in Ls]
            tolv = [t + t * abs(x) for x in roots]
            self._count(f"{name}_values_checked", 2 * n)
            # --- bracket and sign (within the tolerance)
            for L, v, tv in zip(Ls + [-x for x in Ls], a, tolv + tolv):
                if not (v == v) or not (abs(L) / Kp - tv <= abs(v) <= abs(L) + tv) or (v > 0) != (L > 0):
                    rel = max(abs(L) / Kp - abs(v), abs(v) - abs(L)) / abs(L) if (v == v and (v > 0) == (L > 0)) else math.inf
                    return (f"{what}: load {L!r} -> {v!r}, outside [|L|/K_p, |L|] = [{abs(L) / Kp!r}, {abs(L)!r}] (sign of the load)",
                            f"{name}-outside-bracket" if name == "neuber" else sb_class(f"{name}-outside-bracket", rel, Kp))
            # --- root of the defining equation within the requested tolerance
            for L, v, x, tv in zip(Ls, a[:n], roots, tolv):
                if abs(v - x) > tv:
                    return (f"{what}: load {L!r} -> {v!r}; root of the defining equation {x!r}: off by {abs(v - x)!r} > tol + rtol |root| = {tv!r}",
                            f"{name}-tolerance" if name == "neuber" else sb_class(f"{name}-tolerance", abs(v - x) / abs(x), Kp))
            # --- odd
            for L, v, w, tv in zip(Ls, a[:n], a[n:], tolv):
                if abs(v + w) > 2 * tv:
                    return (f"{what}: not odd: f({L!r}) = {v!r}, f({-L!r}) = {w!r}", f"{name}-odd")
            # --- strictly increasing on the (spaced) grid
            for (L1, v1, x1, t1), (L2, v2, x2, _t2) in zip(zip(Ls, a, roots, tolv), list(zip(Ls, a, roots, tolv))[1:]):
                if not v1 < v2 and x2 - x1 > 4 * t1:
                    return (f"{what}: not increasing: f({L1!r}) = {v1!r} >= f({L2!r}) = {v2!r}", f"{name}-monotone")
            # --- scalar = array within the tolerance; a scalar must be accepted (F-11)
            for i, (p, q) in r["scalar"].items():
                for L, v, ref in ((Ls[i], p, a[i]), (-Ls[i], q, a[n + i])):
                    if isinstance(v, str) and v != "RuntimeError":
                        return (f"{what}: scalar load {L!r} raises {v} (not a solver failure)", f"{name}-scalar-input")
                    if isinstance(v, str):
                        self._count(f"{name}_solver_raises_scalar")
                        continue
                    if abs(v[0] - ref) > 2 * tolv[i]:
                        return (f"{what}: scalar input {Ls[i]!r} gives {v[0]!r}, the same load inside an array {ref!r}",
                                f"{name}-containers" if name == "neuber" else sb_class(f"{name}-tolerance", abs(v[0] - ref) / abs(ref), Kp))
            # --- a vector that holds exact zeros among other loads: every element as for the scalar call, zero -> zero
            z = r.get("zero")
            if z is not None:
                d = self._oracle_zero(case, br, what, name, z)
                if d:
                    return d
            if z is not None and name == "neuber":
                refz = [0.0 if x == 0 else math.copysign(ref_root(case, br, abs(x)), x) for x in z["loads"]]
                for cname in ("arr", "ser", "list"):
                    got = z[cname]
                    if isinstance(got, str):
                        if got == "RuntimeError":
                            self._count("neuber_solver_raises_zero_vector")
                            continue
                        return (f"{what}: {cname} input {z['loads']!r} raises {got}", "neuber-containers")
                    self._count("neuber_zero_vector_elements_checked", len(got))
                    for x, v, rx, sc in zip(z["loads"], got, refz, z["scalar"]):
                        tv = t + t * abs(rx)
                        if not (v == v) or abs(v - rx) > tv or (x == 0 and v != 0):
                            scal = sc[0] if isinstance(sc, list) else sc
                            return (f"{what}: the load {x!r} inside the {cname} {z['loads']!r} gives {v!r}; as a scalar it gives {scal!r}, "
                                    f"root of the defining equation {rx!r}", "neuber-containers")
                for x, sc, rx in zip(z["loads"], z["scalar"], refz):
                    if isinstance(sc, list) and (not (sc[0] == sc[0]) or abs(sc[0] - rx) > t + t * abs(rx)):
                        return (f"{what}: scalar load {x!r} gives {sc[0]!r}, root {rx!r}", "neuber-tolerance")
            # --- scalar round trip at the upper edge of the load range: load(stress(L)) is L, or the solver raises - a scalar
            #     result is never covered by the recorded finding about silently unconverged ARRAY results
            for L1, v, bk in (r.get("hi") or []):
                if isinstance(v, str) or bk is None:
                    if isinstance(v, str) and v != "RuntimeError":
                        return (f"{what}: scalar load {L1!r} raises {v}", "neuber-scalar-input")
                    self._count("neuber_solver_raises_scalar_high_load")
                    continue
                if isinstance(bk, str):
                    if bk != "RuntimeError":
                        return (f"{what}: load({v[0]!r}) raises {bk}", "neuber-scalar-input")
                    self._count("neuber_backward_scalar_raises_high_load")
                    continue
                self._count("neuber_backward_scalar_returned_high_load")
                if not (bk[0] == bk[0]) or abs(bk[0] - L1) > 6 * (t + t * abs(L1)):
                    return (f"{what}: scalar round trip load(stress({L1!r})) = load({v[0]!r}) = {bk[0]!r} (R_m = {case['Rm']!r}, "
                            f"{case['group']}): returned without an error and is not the load", "neuber-inverse")
            # --- backward = inverse
            back = r["back"]
            if isinstance(back, str):
                if back != "RuntimeError":
                    return (f"{what}: load() raises {back}", f"{name}-containers")
                self._count(f"{name}_solver_raises_backward")
                continue
            for L, v, bk, tv in zip(Ls, a[:n], back, tolv):
                if isinstance(bk, str):
                    if bk != "RuntimeError":
                        return (f"{what}: load({v!r}) raises {bk}", f"{name}-scalar-input")
                    self._count(f"{name}_solver_raises_backward")
                    continue
                if abs(bk - L) > 6 * (t + t * abs(L)) + 6 * tv:
                    return (f"{what}: load(stress({L!r})) = load({v!r}) = {bk!r}",
                            self._neuber_backward_class(case, br, v, abs(bk - L), L) if name == "neuber" else sb_class(f"{name}-tolerance", abs(bk - L) / abs(L), Kp))
        return None

    def _neuber_backward_class(self, case, br, stress, dev, L):
        """Class of an ARRAY result of ExtendedNeuber.load that misses the load.  The recorded defect is: the vectorised Newton
        iteration returns elements that have not converged after 20 iterations without an error.  It is recognised by a small miss
        (<= 0.2 %), or - for a larger one - by the scalar call on the same stress reporting the non-convergence (RuntimeError).
        A miss while the scalar call returns is a different failure."""
        if dev <= 2e-3 * abs(L):
            return "neuber-backward-unconverged"
        sc = call(fn(make_law(case), "load", br), float(stress), case["tol"])
        if sc == "RuntimeError":
            self._count("neuber_backward_array_unconverged_confirmed_by_scalar_raise")
            return "neuber-backward-unconverged"
        return "neuber-inverse"

    def _oracle_zero(self, case, br, what, name, z):
        """A load (stress) of exactly zero, alone or inside a vector: the stress (load) is zero - never nan, never an error
        (the defining equations are trivially satisfied there).  Extended Neuber forward is judged by the caller."""
        t, Kp = case["tol"], case["Kp"]
        zcls = "neuber-backward-zero-nan" if name == "neuber" else "seegerbeste-zero-load-nan"
        refz = [0.0 if x == 0 else math.copysign(ref_root(case, br, abs(x)), x) for x in z["loads"]]
        runs = [("load" if br == 1 else "load_secondary_branch", z["stresses"], z["loads"], [z["back_arr"], z["back_ser"]], z["back_scalar0"])]
        if name != "neuber":
            runs.append(("stress" if br == 1 else "stress_secondary_branch", z["loads"], refz, [z["arr"], z["ser"], z["list"]],
                         [z["scalar"][1], z["scalar"][3]]))
        for fname, xs, want, results, scalar0 in runs:
            for sc, x in zip(scalar0, (0.0, -0.0)):
                if not (isinstance(sc, list) and sc[0] == 0):
                    return (f"{what}: {fname}({x!r}) {'raises ' + sc if isinstance(sc, str) else 'returns ' + repr(sc[0])} instead of 0", zcls)
            for got in results:
                if isinstance(got, str):
                    if got == "RuntimeError":
                        self._count(f"{name}_solver_raises_zero_vector")
                        continue
                    return (f"{what}: {fname}({xs!r}) raises {got}", zcls)
                self._count(f"{name}_zero_vector_elements_checked", len(got))
                if len(got) != len(xs):
                    return (f"{what}: {fname}({xs!r}) returns {len(got)} values", zcls)
                for x, v, w in zip(xs, got, want):
                    if x == 0:
                        if v != 0:
                            return (f"{what}: {fname} of the vector {xs!r} gives {v!r} for the element {x!r} instead of 0 "
                                    f"(the scalar call gives {scalar0[0][0]!r})", zcls)
                        continue
                    dev = abs(v - w) if v == v else math.inf
                    if fname.startswith("load"):
                        if dev > 12 * (t + t * abs(w)):
                            if name == "neuber":
                                return (f"{what}: {fname}({xs!r}) gives {v!r} for the stress {x!r} of the load {w!r}",
                                        self._neuber_backward_class(case, br, x, dev, w))
                            # a vector result that differs from the scalar call on the same stress is a failure of the vector
                            # path of the backward function (documented as 'only implemented for the scalar case')
                            sc = call(fn(make_law(case), "load", br), float(x), t)
                            if isinstance(sc, str) or abs(sc[0] - v) > 2 * (t + t * abs(w)) or v != v:
                                return (f"{what}: {fname}({xs!r}) gives {v!r} for the stress {x!r} of the load {w!r}; the scalar call "
                                        f"{'raises ' + sc if isinstance(sc, str) else 'gives ' + repr(sc[0])}", "seegerbeste-backward-vector")
                            return (f"{what}: {fname}({xs!r}) gives {v!r} for the stress {x!r} of the load {w!r}",
                                    sb_class("seegerbeste-tolerance", dev / abs(w), Kp))
                    elif dev > t + t * abs(w):
                        return (f"{what}: {fname}({xs!r}) gives {v!r} for the load {x!r}, root {w!r}",
                                sb_class("seegerbeste-tolerance", dev / abs(w), Kp))
        return None

    def shrink(self, case, still_fails):
        cur = dict(case)
        changed = True
        while changed and len(cur["loads"]) > 1:
            changed = False
            for i in range(len(cur["loads"])):
                cand = dict(cur, loads=cur["loads"][:i] + cur["loads"][i + 1:])
                try:
                    if still_fails(cand):
                        cur, changed = cand, True
                        break
                except Exception:      # noqa: BLE001
                    continue
        for key in ("hi",):
            changed = True
            while changed and len(cur.get(key, [])) > 0:
                changed = False
                for i in range(len(cur[key])):
                    cand = dict(cur, **{key: cur[key][:i] + cur[key][i + 1:]})
                    try:
                        if still_fails(cand):
                            cur, changed = cand, True
                            break
                    except Exception:      # noqa: BLE001
                        continue
        return cur
