"""C20: VMAP export followed by import returns the same mesh and fields; reading is repeatable; filtering by a
stored set returns its members; a failed export leaves no partial geometry or variable.

Correspondence: the Lean model `Model/Vmap.lean` (driver op `vmap …`, an abstract file + exporter/importer
state machines) against the real `VMAPExport` / `VMAPImport` working on temporary HDF5 files: after every
exporter call the content of /VMAP/GEOMETRY and /VMAP/VARIABLES is read back with h5py and compared with the
model's file (whether the call raised, point ids, coordinates bit for bit, elements with type and connectivity,
set members as sets, variables), every import chain's frame is compared cell by cell (bit patterns).
Oracle: the property's own relations evaluated on the real code with expectations computed directly from
the exported frames (independent of the Lean model): round trip right after the call AND again at the end of
the history, repeatable reads, filters, a valid call must succeed (the dimension of a mesh is judged from its
own frame), a failing call - including failures injected into h5py after data were written - must leave a
recursive dump of the whole file (names, shapes, dtypes, attributes, data) as it was.
Variable round trips are checked whenever the geometry's frame and the variable's frame are both valid (`frame_valid`) and
- NODE variables - from ANY such frame, or - ELEMENT_NODAL variables - whenever `en_valid(variable frame, geometry frame)`
holds (distinct (element, node) pairs that are those of whole elements of the geometry, in any row order); the variable's
frame need not be the frame the geometry was exported from.  An injected-failure trial needs the exporter to keep its path in `_file_name`; if it no longer
does, the trial is skipped silently (no count).
Three flags of a call never reach the model, which answers as for the plain call, and the code must agree: `ids_as_columns`
(NODE variable from a frame that carries node_id / element_id as columns), `extra_level` of a frame (an ELEMENT_NODAL variable
frame with one more index level) and `forget_cache` (the exporter's remembered connectivity `_connectivity` is cleared before
the call, so that it reads the file).  Every set container, also the object-dtype kinds objindex / objarray / objseries, reaches
the model as the list of its ids.  Three scenarios (`op: other`, calls `badmesh`, `collapsed`, `timing`) are oracle only: `badmesh` -
add_variable with something that is no mesh frame must raise the exporter's own error and leave the file as it was;
`collapsed` - a geometry with a node repeated in an element's connectivity, judged on a file of its own only; `timing` -
one corpus case only (corpus/C20/timing-element-nodal.json, not generated): an ELEMENT_NODAL export in stored order at most
4 x a NODE export of the same frame + 10 ms; the threshold is machine dependent (/repo a06569b)."""
import copy
import json
import os
import shutil
import struct
import tempfile

import numpy as np
import pandas as pd
import h5py

from . import core
from .core import Prop, f2h

SOURCES = [
    "src/pylife/vmap/vmap_export.py",
    "src/pylife/vmap/vmap_import.py",
    "src/pylife/vmap/vmap_structures.py",
    "src/pylife/vmap/vmap_attribute.py",
    "src/pylife/vmap/vmap_dataset.py",
    "src/pylife/vmap/vmap_element_type.py",
    "src/pylife/vmap/vmap_integration_type.py",
    "src/pylife/vmap/exceptions.py",
]

ELEMENT_TYPES = {(2, 3): 0, (2, 6): 1, (2, 4): 2, (2, 8): 3, (3, 4): 4, (3, 10): 5, (3, 6): 6, (3, 15): 7,
                 (3, 8): 8, (3, 20): 9}
INT32_MIN, INT32_MAX = -2 ** 31, 2 ** 31 - 1
NAN = float("nan")

# SEVEN finding classes are tied to an input mechanism (see `mechanism_from`): the four below and K_IDCOL, K_OBJSET, K_LEVEL
# further down (through `special_class`).  All were open known findings at some time; all
# are fixed in /repo (id-overflow-int32: 0e66e4b, sticky-dimension: ba72c38, set-container: 1c1257e - a regression of
# 0e66e4b -, element-nodal-row-order: 57828f0 - a leftover of c3a1079, node-id-column / set-object-dtype / extra-index-level:
# a06569b), so `mechanism_from` is called with an empty set of
# classes and is inert - a hit of any of them is reported as a violation.
K_OVERFLOW = "id-overflow-int32"
K_STICKY = "sticky-dimension"
K_ROWORDER = "element-nodal-row-order"
K_CONTAINER = "set-container"
BAD_CONTAINERS = ("set", "frozenset", "dict_keys", "generator")     # refused by 0e66e4b's _check_int32
# regressions / leftovers of 1c1257e / 57828f0 (review fixreview-d-vmap), repaired by /repo commit a06569b
K_IDCOL = "node-id-column"                  # NODE variable from a frame that carries node_id as a column
K_OBJSET = "set-object-dtype"               # set members in an object-dtype Index / array / Series
K_BADMESH = "unusable-mesh-exception"       # add_variable(mesh=5 / frame without ids) raises a raw AttributeError / KeyError
K_SLOW = "element-nodal-slow"               # add_variable(ELEMENT_NODAL) walks the stored elements in python
K_LEVEL = "extra-index-level"               # ELEMENT_NODAL variable frame with an additional index level
K_COLLAPSED = "collapsed-element"           # geometry with a node repeated in an element's connectivity
OBJ_CONTAINERS = ("objindex", "objarray", "objseries")
# state shared / kept between objects or calls
K_SHARED = "shared-exporter-state"          # an exporter behaves differently when another exporter is alive / was used in between
K_ALIAS = "result-aliases-state"            # a frame handed out by the importer, changed by the caller, shows in later reads
K_ARGMOD = "argument-modified"              # a frame / container passed to the exporter is changed by the call
K_READWRITES = "read-changes-file"          # reading changed the file
MUTATIONS = ["addcol", "sort", "overwrite", "rename", "drop"]

_MOD = {}


def mods():
    if not _MOD:
        from pylife.vmap import VMAPExport, VMAPImport
        from pylife.vmap import vmap_structures
        _MOD.update(exp=VMAPExport, imp=VMAPImport, loc=vmap_structures.VariableLocations,
                    table=vmap_structures.column_names)
    return _MOD


# ------------------------------------------------------------------ canonical text
def cell(x):
    x = float(x)
    return "nan" if x != x else f2h(x)


def err_name(e):
    return type(e).__name__


def err_cause(e):
    """Class name plus, for the exporter's wrapper exception, the class of the exception it wrapped (statistics only)."""
    inner = getattr(e, "__context__", None)
    if type(e).__name__ == "VMAPExportError" and inner is not None:
        return f"VMAPExportError<{type(inner).__name__}>"
    return type(e).__name__


def fits32(i):
    return INT32_MIN <= i <= INT32_MAX


def make_frame(fr):
    rows = fr["rows"]
    idx = pd.MultiIndex.from_arrays([np.asarray([r[0] for r in rows], dtype=np.int64),
                                     np.asarray([r[1] for r in rows], dtype=np.int64)],
                                    names=["element_id", "node_id"])
    data = np.asarray([r[2] for r in rows], dtype=float).reshape(len(rows), len(fr["cols"]))
    if fr.get("extra_level"):          # an additional index level besides element_id and node_id
        idx = pd.MultiIndex.from_arrays([idx.get_level_values(0), idx.get_level_values(1), np.ones(len(rows), dtype=np.int64)],
                                        names=["element_id", "node_id", "load_step"])
    df = pd.DataFrame(data, index=idx, columns=list(fr["cols"]))
    if fr.get("f32"):
        df = df.astype(np.float32)
    for c in fr.get("obj", []):
        if c in df.columns:
            df[c] = df[c].astype(object)
    return df


def decode(x):
    return x.decode("utf-8") if isinstance(x, bytes) else str(x)


def snapshot(fn):
    """Structured content of /VMAP/GEOMETRY and /VMAP/VARIABLES (what the model's `File` describes)."""
    snap = {"geoms": {}, "groups": {}, "vars": {}}
    with h5py.File(fn, "r") as f:
        for name, g in f["VMAP/GEOMETRY"].items():
            d = {"pts": [], "nc": 3, "xyz": [], "els": [], "sets": [], "partial": []}
            pts = g.get("POINTS")
            if pts is not None and "MYIDENTIFIERS" in pts:
                d["pts"] = [int(x) for x in pts["MYIDENTIFIERS"][:, 0]]
            else:
                d["partial"].append("no-point-ids")
            if pts is not None and "MYCOORDINATES" in pts:
                c = pts["MYCOORDINATES"][()]
                d["nc"] = int(c.shape[1])
                d["xyz"] = [[cell(v) for v in row] for row in c]
            else:
                d["partial"].append("no-coordinates")
            els = g.get("ELEMENTS")
            if els is not None and "MYELEMENTS" in els:
                for rec in els["MYELEMENTS"][:, 0]:
                    d["els"].append((int(rec["myIdentifier"]), int(rec["myElementType"]),
                                     [int(n) for n in rec["myConnectivity"]]))
            else:
                d["partial"].append("no-elements")
            sets = g.get("GEOMETRYSETS")
            if sets is not None:
                for sname in sorted(sets.keys()):
                    s = sets[sname]
                    d["sets"].append((int(s.attrs["MYSETTYPE"]), decode(s.attrs["MYSETNAME"]),
                                      [int(x) for x in s["MYGEOMETRYSETDATA"][()].flatten()]))
            snap["geoms"][name] = d
        for st, sg in f["VMAP/VARIABLES"].items():
            for gn, gg in sg.items():
                snap["groups"][(st, gn)] = int(gg.attrs["MYSIZE"])
                for vn, vg in gg.items():
                    v = {"loc": int(vg.attrs["MYLOCATION"]), "ncols": int(vg.attrs["MYDIMENSION"]),
                         "ids": None, "values": None}
                    if "MYGEOMETRYIDS" in vg:
                        v["ids"] = [int(x) for x in vg["MYGEOMETRYIDS"][:, 0]]
                    if "MYVALUES" in vg:
                        v["values"] = [[cell(x) for x in row] for row in vg["MYVALUES"][()]]
                    snap["vars"][(st, gn, vn)] = v
    return snap


def show_snapshot(snap):
    """The part of the file the model describes, in the model's text form.  Incidentals are normalised on both sides:
    set members as ascending distinct ids, the rows of a nodal variable by node id, (state, geometry) groups only when
    they hold a variable."""
    out = ["G"]
    for name in sorted(snap["geoms"]):
        d = snap["geoms"][name]
        els = ",".join(f"{e}:{t}:" + ".".join(str(n) for n in conn) for e, t, conn in d["els"])
        sets = ",".join(f"{k}:{n}:" + ".".join(str(i) for i in sorted(set(ids))) for k, n, ids in d["sets"])
        out.append(f"[{name}:pts={','.join(str(i) for i in d['pts'])};nc={d['nc']};xyz="
                   + "/".join(",".join(r) for r in d["xyz"]) + f";els={els};sets={sets}"
                   + "".join(";" + p for p in d["partial"]) + "]")
    out.append("S")
    for (st, gn) in sorted(snap["groups"], key=lambda p: p[0] + "/" + p[1]):
        keys = sorted(k for k in snap["vars"] if k[0] == st and k[1] == gn)
        if not keys:
            continue
        seg = f"[{st}/{gn}:size={snap['groups'][(st, gn)]}"
        for key in keys:
            v = snap["vars"][key]
            ids, vals = v["ids"], v["values"]
            if v["loc"] == 2 and ids is not None and vals is not None and len(ids) == len(vals):
                order = sorted(range(len(ids)), key=lambda i: ids[i])
                ids, vals = [ids[i] for i in order], [vals[i] for i in order]
            ids = "missing" if ids is None else ",".join(str(i) for i in ids)
            vals = "missing" if vals is None else "/".join(",".join(r) for r in vals)
            seg += f";{key[2]}:{v['loc']}:{v['ncols']}:{ids}:{vals}"
        out.append(seg + "]")
    return "".join(out)


def show_frame(df):
    rows = []
    vals = df.to_numpy(dtype=float) if df.shape[1] else np.empty((len(df), 0))
    for k, r in zip(df.index, vals):
        rows.append(f"{int(k[0])}:{int(k[1])}:" + ",".join(cell(v) for v in r))
    return "cols=" + ",".join(str(c) for c in df.columns) + ";rows=" + ";".join(rows)


# ------------------------------------------------------------------ full dump of a file (oracle side)
def canon(x):
    if isinstance(x, np.ndarray):
        if x.dtype.kind == "O" or x.dtype.names:
            return [canon(v) for v in x.tolist()]
        return (str(x.dtype), tuple(x.shape), x.tobytes())
    if isinstance(x, (tuple, list)):
        return [canon(v) for v in x]
    if isinstance(x, np.generic):
        return (str(x.dtype), x.tobytes())
    if isinstance(x, float):
        return struct.pack("<d", x)
    return x


def full_dump(fn):
    """path -> everything h5py shows of the object: kind, shape, dtype, data, all attributes."""
    out = {}

    def visit(name, obj):
        attrs = {k: canon(obj.attrs[k]) for k in obj.attrs.keys()}
        if isinstance(obj, h5py.Dataset):
            out[name] = ("dataset", tuple(obj.shape), str(obj.dtype), canon(obj[()]), attrs)
        else:
            out[name] = ("group", attrs)
    with h5py.File(fn, "r") as f:
        out["/"] = ("group", {k: canon(f.attrs[k]) for k in f.attrs.keys()})
        f.visititems(visit)
    return out


def dump_diff(before, after):
    """Paths that differ.  The (state) and (state, geometry) groups under /VMAP/VARIABLES that hold no variable are not
    content: a failing add_variable may leave them or clear them away."""
    def content(d):
        hold = set()
        for k in d:
            parts = k.split("/")
            if parts[:2] == ["VMAP", "VARIABLES"] and len(parts) >= 5:
                hold.add("/".join(parts[:3]))
                hold.add("/".join(parts[:4]))
        return {k: v for k, v in d.items()
                if not (k.startswith("VMAP/VARIABLES/") and len(k.split("/")) in (3, 4) and k not in hold)}
    before, after = content(before), content(after)
    return sorted([k for k in after if k not in before or after[k] != before[k]] + [k for k in before if k not in after])


class Inject:
    """Makes the k-th `Group.create_dataset` ('ds') or the k-th `attrs[...] = value` ('attr') inside the block raise:
    a failure of the storage layer at a point where earlier parts of the call have already been written."""

    def __init__(self, what, k):
        self.what, self.k, self.n, self.fired = what, k, 0, False

    def __enter__(self):
        outer = self
        if self.what == "ds":
            self.cls, self.attr = h5py.Group, "create_dataset"
        else:
            self.cls, self.attr = h5py.AttributeManager, "__setitem__"
        self.orig = orig = getattr(self.cls, self.attr)

        def wrapper(this, *a, **kw):
            outer.n += 1
            if outer.n == outer.k:
                outer.fired = True
                raise RuntimeError("storage failure (inject())")
            return orig(this, *a, **kw)
        setattr(self.cls, self.attr, wrapper)
        return self

    def __exit__(self, *a):
        setattr(self.cls, self.attr, self.orig)


# ------------------------------------------------------------------ protocol line
def S(x):
    return "s:" + x


def opt(x):
    return "-" if x is None else S(x)


def cols_tok(c):
    return ["-"] if c is None else [str(len(c))] + [S(x) for x in c]


def encode(case):
    t = ["vmap", str(len(case["frames"]))]
    for fr in case["frames"]:
        t.append(str(len(fr["cols"])))
        t += [S(c) for c in fr["cols"]]
        obj = [c for c in fr.get("obj", []) if c in fr["cols"]]
        t.append(str(len(obj)))
        t += [S(c) for c in obj]
        t.append(str(len(fr["rows"])))
        for e, n, vals in fr["rows"]:
            t += [str(e), str(n)] + [f2h(v) for v in vals]
    t.append(str(len(case["ops"])))
    for op in case["ops"]:
        k = op["op"]
        if k == "geom":
            t += ["G", S(op["name"]), str(op["frame"])]
        elif k == "var":
            t += ["V", S(op["state"]), S(op["geom"]), S(op["var"]), str(op["frame"])] + cols_tok(op.get("cols"))
            t.append("-" if op.get("loc") is None else str(op["loc"]))
        elif k == "set":
            t += ["S", str(op["kind"]), S(op["geom"]), str(len(op["ids"]))] + [str(i) for i in op["ids"]]
            name = op.get("name")
            ok = name is None or isinstance(name, str)
            t += [str(op["frame"]), "1" if ok else "0", S(name if isinstance(name, str) else "")]
        elif k == "list":
            t += ["L", S(op["geom"])]
        elif k == "other":
            t.append("X")
        elif k == "import":
            t += ["I", str(len(op["chains"]))]
            for ch in op["chains"]:
                t.append(str(len(ch)))
                for st in ch:
                    if st[0] == "mesh":
                        t += ["M", S(st[1]), opt(st[2])]
                    elif st[0] == "coords":
                        t.append("C")
                    elif st[0] == "var":
                        t += ["J", S(st[1]), opt(st[2])] + cols_tok(st[3])
                    elif st[0] == "fn":
                        t += ["N", S(st[1])]
                    elif st[0] == "fe":
                        t += ["E", S(st[1])]
    return " ".join(t)


# ------------------------------------------------------------------ running the real code
def location_arg(loc):
    if loc is None:
        return None
    L = mods()["loc"]
    for m in L:
        if m.value == loc:
            return m
    return loc       # not a VariableLocations member


IT_CONTENT = {
    "TYPE1": [0, "GAUSS_TRIANGLE_3", 3, 2, 0.0, [0.166667, 0.166667, 0.666667, 0.166667, 0.166667, 0.666667],
              [0.333333, 0.333333, 0.333333], []],
    "TYPE2": [1, "GAUSS_QUAD_4", 4, 2, 0.0, [-0.5, -0.5, 0.5, -0.5, 0.5, 0.5, -0.5, 0.5], [1.0, 1.0, 1.0, 1.0], []],
}


def make_container(ids, kind):
    """The `indices` argument of add_node_set / add_element_set: any iterable of ids."""
    ids = list(ids)
    if kind == "index":
        return pd.Index(ids, dtype=np.int64)
    if kind == "series":
        return pd.Series(ids, dtype=np.int64, index=range(100, 100 + len(ids)))
    if kind == "ndarray":
        return np.asarray(ids, dtype=np.int64)
    if kind == "int32array":
        return np.asarray(ids, dtype=np.int32) if all(fits32(i) for i in ids) else np.asarray(ids, dtype=np.int64)
    if kind == "floatarray":
        return np.asarray(ids, dtype=np.float64) if all(abs(i) < 2 ** 53 for i in ids) else np.asarray(ids, dtype=np.int64)
    if kind == "objindex":
        return pd.Index(ids, dtype=object)
    if kind == "objarray":
        return np.array(ids, dtype=object)
    if kind == "objseries":
        return pd.Series(ids, dtype=object)
    if kind == "tuple":
        return tuple(ids)
    if kind == "set":
        return set(ids)
    if kind == "frozenset":
        return frozenset(ids)
    if kind == "dict_keys":
        return {i: None for i in ids}.keys()
    if kind == "generator":
        return (i for i in ids)
    if kind == "range" and ids and ids == list(range(ids[0], ids[0] + len(ids))):
        return range(ids[0], ids[0] + len(ids))
    return ids          # "list" (and a "range" that is not one)


def container_is_bad(op):
    """The set call hits the container defect of 0e66e4b / the (0, 0) shaped dataset of an empty list."""
    c = op.get("container", "index")
    return c in BAD_CONTAINERS or (not op["ids"] and c in ("list", "tuple", "range"))


def same_container(a, b):
    """The members and their order (what a later call with the same object would store); names are not looked at."""
    if isinstance(a, (set, frozenset)):
        return a == b
    return len(a) == len(b) and [int(x) for x in a] == [int(x) for x in b]


def frame_changes(a, b):
    """a: the frame after the call, b: as it was.  ('content' | 'cosmetic' | None): content = what a later call with the same
    frame computes from - the index labels and their order, the values of its columns; cosmetic = anything else (names of the
    index levels, additional columns): outside the property, only counted."""
    if not a.index.equals(b.index) or any(c not in a.columns for c in b.columns) or not a[list(b.columns)].equals(b):
        return "content"
    if list(a.columns) != list(b.columns) or a.index.names != b.index.names:
        return "cosmetic"
    return None


def apply_export(ex, op, frames, notes=None):
    k = op["op"]
    if k == "geom":
        ex.add_geometry(op["name"], frames[op["frame"]])
    elif k == "var":
        mesh = frames[op["frame"]]
        if op.get("forget_cache") and isinstance(getattr(ex, "_connectivity", None), dict):
            ex._connectivity.clear()           # what the exporter remembers of its geometries: it has to manage with the file
        if op.get("ids_as_columns"):           # node_id (and element_id) as columns: groupby('node_id') takes either
            mesh = mesh.reset_index()
        ex.add_variable(op["state"], op["geom"], op["var"], mesh,
                        column_names=None if op.get("cols") is None else list(op["cols"]),
                        location=location_arg(op.get("loc")))
    elif k == "set":
        name = op.get("name")
        fn = ex.add_node_set if op["kind"] == 0 else ex.add_element_set
        members = make_container(op["ids"], op.get("container", "index"))
        cont = op.get("container")
        kept = None if cont == "generator" else (list(members) if cont == "dict_keys" else copy.deepcopy(members))
        try:
            fn(op["geom"], members, frames[op["frame"]], name)
        finally:
            if notes is not None and kept is not None and \
                    not (list(members) == kept if cont == "dict_keys" else same_container(members, kept)):
                notes.append(f"the {type(members).__name__} of set members passed to the call was changed by it")
    elif k == "other":
        if op["call"] == "it":
            content = {0: {}, 1: IT_CONTENT, 2: {"T": [0, "BAD"]}}[op["content"]]
            ex.add_integration_types(content)
        elif op["call"] == "badmesh":
            mesh = {"int": 5, "none": None, "noids": frames[0].reset_index(drop=True) if frames else pd.DataFrame({"x": [1.0]})}[op["kind"]]
            ex.add_variable("S-bad", op["geom"], "V", mesh, column_names=["x"], location=location_arg(op["loc"]))
        else:
            ex.set_group_attribute(op["path"], op["key"], op["value"])


def apply_import(im, st):
    if st[0] == "mesh":
        im.make_mesh(st[1], st[2])
    elif st[0] == "coords":
        im.join_coordinates()
    elif st[0] == "var":
        im.join_variable(st[1], st[2], None if st[3] is None else list(st[3]))
    elif st[0] == "fn":
        im.filter_node_set(st[1])
    elif st[0] == "fe":
        im.filter_element_set(st[1])


def mutate_frame(df, kind):
    """What a caller may do with a frame the importer handed out: it is the caller's."""
    try:
        if kind == "addcol":
            df["damage"] = np.arange(len(df), dtype=float)
        elif kind == "sort":
            df.sort_index(inplace=True, ascending=False)
        elif kind == "overwrite":
            for c in list(df.columns)[:2]:
                df[c] = -12345.0
            if not len(df.columns):
                df["x"] = -1.0
        elif kind == "rename":
            df.index.rename(["e", "n"], inplace=True)
            df.rename(columns={c: "was_" + str(c) for c in df.columns}, inplace=True)
        elif kind == "drop" and len(df):
            df.drop(df.index[: max(1, len(df) // 2)], inplace=True)
    except Exception:
        pass                    # (a frame that cannot be changed this way is just left alone)


def run_chain(im, chain, errs=None, mutate=None):
    for i, st in enumerate(chain):
        try:
            apply_import(im, st)
        except Exception as e:
            if errs is not None:
                errs.append(err_name(e))
            return f"err@{i}"
    try:
        fr = im.to_frame()
    except Exception as e:
        if errs is not None:
            errs.append(err_name(e))
        return f"err@{len(chain)}"
    text = show_frame(fr)
    if mutate:
        mutate_frame(fr, mutate)
    return text


class Importer:
    def __init__(self, fn):
        self.im = mods()["imp"](fn)

    def __enter__(self):
        return self.im

    def __exit__(self, *a):
        try:
            self.im._file.close()
        except Exception:
            pass


# ------------------------------------------------------------------ expectations (oracle side, plain Python)
def coord_names(fr):
    return ["x", "y", "z"] if "z" in fr["cols"] else ["x", "y"]


def frame_ids_fit(fr):
    return all(fits32(r[0]) and fits32(r[1]) for r in fr["rows"])


def frame_valid(fr):
    """A valid mesh frame: non-empty, (element, node) pairs distinct, x and y present, coordinate columns storable."""
    rows = fr["rows"]
    if not rows or "x" not in fr["cols"] or "y" not in fr["cols"]:
        return False
    if any(c in fr.get("obj", []) for c in coord_names(fr)):
        return False
    keys = [(r[0], r[1]) for r in rows]
    return len(set(keys)) == len(keys)


def column_consistent_per_node(fr, names):
    idx = [fr["cols"].index(n) for n in names]
    seen = {}
    for e, n, vals in fr["rows"]:
        v = tuple(cell(vals[i]) for i in idx)
        if seen.setdefault(n, v) != v:
            return False
    return True


def node_cells(fr, name):
    """node -> set of the cells the node's rows carry in column `name`."""
    i = fr["cols"].index(name)
    out = {}
    for e, n, vals in fr["rows"]:
        out.setdefault(n, set()).add(cell(vals[i]))
    return out


def own_dim(fr):
    """The dimension of a mesh frame judged from the frame alone: 3 iff there is a z column whose values are not all
    equal (IEEE comparison: a NaN differs from everything).  None when z differs between the rows of one node (the
    frame then does not say what the node's z is)."""
    if "z" not in fr["cols"] or not fr["rows"]:
        return 2
    if not column_consistent_per_node(fr, ["z"]):
        return None
    i = fr["cols"].index("z")
    zs = [float(r[2][i]) for r in fr["rows"]]
    return 2 if all(z == zs[0] for z in zs) else 3


def element_sizes(fr):
    sizes = {}
    for e, n, _ in fr["rows"]:
        sizes[e] = sizes.get(e, 0) + 1
    return sizes


def contiguous(fr):
    seen, last = set(), None
    for e, n, vals in fr["rows"]:
        if e != last:
            if e in seen:
                return False
            seen.add(e)
            last = e
    return True


def expected_rows(fr):
    return sorted(fr["rows"], key=lambda r: r[0])     # stable: node order inside an element is kept


def parse_frame(text):
    """cols, [(e, n, [cells])] of a frame segment; None for an error segment."""
    if not text.startswith("cols="):
        return None
    head, _, body = text.partition(";rows=")
    cols = [c for c in head[5:].split(",") if c]
    rows = []
    if body:
        for r in body.split(";"):
            e, n, cells = r.split(":")
            rows.append((int(e), int(n), [c for c in cells.split(",") if c]))
    return cols, rows


def per_element_nodes(fr):
    out = {}
    for e, n, _ in fr["rows"]:
        out.setdefault(e, []).append(n)
    return out


def en_valid(vfr, gfr):
    """The frame of an ELEMENT_NODAL variable fits the geometry: distinct keys, and they are the (element, node) pairs of
    whole elements of the geometry's frame (any row order)."""
    keys = [(r[0], r[1]) for r in vfr["rows"]]
    if len(set(keys)) != len(keys):
        return False
    v, g = per_element_nodes(vfr), per_element_nodes(gfr)
    return all(e in g and sorted(ns) == sorted(g[e]) and len(set(g[e])) == len(g[e]) for e, ns in v.items())


def en_aligned(vfr, gfr):
    """... and every element's rows come in the same order as in the geometry's frame (then the row order is no issue)."""
    v, g = per_element_nodes(vfr), per_element_nodes(gfr)
    return all(g.get(e) == ns for e, ns in v.items())


def resolved_loc(op):
    loc = op.get("loc")
    if loc is None and op["var"] in mods()["table"]:
        loc = mods()["table"][op["var"]][1].value
    return loc


def special_class(case, op):
    """The finding class of review fixreview-d-vmap whose input mechanism this call has, else None."""
    if op["op"] == "set" and op.get("container") in OBJ_CONTAINERS:
        return K_OBJSET
    if op["op"] == "var":
        loc = resolved_loc(op)
        if op.get("ids_as_columns") and loc == 2:
            return K_IDCOL
        if loc == 6 and case["frames"][op["frame"]].get("extra_level"):
            return K_LEVEL
    return None


def op_has_overflow(case, op):
    """The ids this call has to store do not all fit int32."""
    if op["op"] == "set":
        return not all(fits32(i) for i in op["ids"])
    if op["op"] in ("geom", "var"):
        return not frame_ids_fit(case["frames"][op["frame"]])
    return False


def mechanism_from(case, classes):
    """Index of the first op at which the input mechanism of one of the finding classes `classes` acts, else None:
    id-overflow-int32 - the call has to store an id outside int32;
    set-container     - add_node_set / add_element_set with a set, frozenset, dict keys view or generator of ids (or an empty list);
    element-nodal-row-order - add_variable(ELEMENT_NODAL) with a frame whose rows are not, element by element, in the order of
                        the frame the geometry was exported from;
    sticky-dimension  - add_geometry of a frame whose own dimension is not 3 (i.e. 2, or None = z differs between the
                        rows of a node) after an add_geometry (whatever its outcome) of a frame whose own dimension
                        is not 2 (i.e. 3 or None): `own_dim(...) == None` counts on both sides;
    through `special_class` (all three fixed by /repo a06569b):
    node-id-column    - add_variable(NODE) with `ids_as_columns` (node_id / element_id as columns of the frame);
    set-object-dtype  - add_node_set / add_element_set with the ids in an object-dtype Index / array / Series;
    extra-index-level - add_variable(ELEMENT_NODAL) with a frame that has an additional index level (`extra_level`).
    (`Run.export_op` assigns the class sticky-dimension more narrowly: only to a frame whose own dimension IS 2 (`d == 2`) after
    a frame whose own dimension is not 2; here the test is `d != 3`, so a frame with `own_dim(...) == None` that follows a 3D /
    None frame stops the comparison here but would not get the class there.  The two places do not agree on `None`; the logic is
    left as it is: it only matters while the class is open, which it is not (fixed by ba72c38, `classes` is empty).)"""
    seen3 = False
    geoms = {}
    for i, op in enumerate(case["ops"]):
        if K_OVERFLOW in classes and op_has_overflow(case, op):
            return i
        if K_CONTAINER in classes and op["op"] == "set" and container_is_bad(op):
            return i
        if special_class(case, op) in classes:
            return i
        if op["op"] == "geom":
            geoms.setdefault(op["name"], []).append(op["frame"])
        if K_ROWORDER in classes and op["op"] == "var" and resolved_loc(op) == 6:
            if any(not en_aligned(case["frames"][op["frame"]], case["frames"][gi]) for gi in geoms.get(op["geom"], [])):
                return i
        if op["op"] == "geom":
            d = own_dim(case["frames"][op["frame"]])
            if K_STICKY in classes and seen3 and d != 3:
                return i
            if d != 2:
                seen3 = True
    return None


class Result:
    """What a run leaves behind (picklable: it travels from the forked workers to the parent)."""

    def __init__(self, run):
        self.segs, self.fails, self.info = run.segs, run.fails, run.info
        self.import_errs, self.injected = run.import_errs, run.injected
        self.cosmetic = run.cosmetic


class Run:
    """One history on the real code: segments for the correspondence, failures for the oracle, statistics."""

    def __init__(self, case):
        self.case = case
        self.segs = []
        self.fails = []          # (description, class) in the order found
        self.info = []           # per op: exception class name or None
        self.import_errs = []
        self.injected = {}
        self.seen3 = False
        self.cosmetic = 0        # changes of arguments that are outside the property (names, added columns)
        self._dump = None        # full dump / snapshot of the file as it is now (None: not taken yet)
        self._snap = None

    def dump(self):
        if self._dump is None:
            self._dump = full_dump(self.fn)
        return self._dump

    def snap(self):
        if self._snap is None:
            self._snap = snapshot(self.fn)
        return self._snap

    def fail(self, desc, klass):
        self.fails.append((desc, klass))

    # ---- classes tied to the input mechanism
    def klass_for(self, op, default):
        if op_has_overflow(self.case, op):
            return K_OVERFLOW
        return default

    def run(self):
        M = mods()
        case = self.case
        self.frames = [make_frame(fr) for fr in case["frames"]]
        self.pristine = [make_frame(fr) for fr in case["frames"]]
        tmp = tempfile.mkdtemp(prefix="c20_", dir=tempfile.gettempdir())
        self.fn = fn = os.path.join(tmp, "case.vmap")
        # A changed importer whose joins multiply rows can ask for tens of GB: let it get a MemoryError (an exception of
        # that call, caught where the call is made) instead of having the kernel kill the worker process.
        import resource
        limits = resource.getrlimit(resource.RLIMIT_AS)
        cap = 6 * 2 ** 30
        try:
            resource.setrlimit(resource.RLIMIT_AS, (cap if limits[1] == resource.RLIM_INFINITY else min(cap, limits[1]), limits[1]))
        except (ValueError, OSError):
            limits = None
        try:
            self.ex = M["exp"](fn)
            self.geom_frame = {}      # geometry name -> index of the frame it was exported from
            self.stored = []          # re-checks at the end of the history
            for pos, op in enumerate(case["ops"]):
                k = op["op"]
                if k in ("geom", "var", "set"):
                    self.export_op(pos, op)
                elif k == "other":
                    self.other_op(pos, op)
                elif k == "list":
                    self.list_op(pos, op)
                elif k == "import":
                    self.import_op(pos, op)
            # ---- what was exported successfully is still read back the same after everything that followed
            for chk in self.stored:
                chk("at the end of the history, ")
            return Result(self)
        finally:
            if limits is not None:
                resource.setrlimit(resource.RLIMIT_AS, limits)
            shutil.rmtree(tmp, ignore_errors=True)

    # ------------------------------------------------------------ exporter calls
    def injected_trial(self, pos, op):
        """The same call on a COPY of the file with a storage failure injected: whatever the call had written before
        the failure has to be gone afterwards."""
        what, k = op["inject"]
        fn2 = self.fn + ".inj"
        shutil.copyfile(self.fn, fn2)
        try:
            ex2 = copy.deepcopy(self.ex)
            ex2._file_name = fn2
            if getattr(ex2, "file_name", None) != fn2:
                return                                  # the exporter no longer keeps its path there: no trial
            before = self.dump()                      # the copy holds what the file holds
            exc = None
            with Inject(what, k) as inj:
                try:
                    apply_export(ex2, op, self.frames)
                except Exception as e:
                    exc = e
            key = f"{op['op']}:{what}{k}:" + ("fired" if inj.fired else "not-reached")
            self.injected[key] = self.injected.get(key, 0) + 1
            if exc is not None:
                self.check_unchanged(pos, op, before, full_dump(fn2), exc,
                                     f" (storage failure injected at {what} #{k})" if inj.fired else "")
        finally:
            if os.path.exists(fn2):
                os.remove(fn2)

    def check_unchanged(self, pos, op, before, after, exc, note=""):
        """A failed export leaves no partial geometry or variable: the dump of the whole file is as before (groups under
        /VMAP/VARIABLES that hold no variable are not content, see dump_diff)."""
        diff = dump_diff(before, after)
        if diff:
            self.fail(f"op {pos} ({op['op']}) raised {err_name(exc)}{note} but the file changed at {diff[:4]}",
                      "partial-after-failure")

    def export_op(self, pos, op):
        case, fn = self.case, self.fn
        k = op["op"]
        fr = case["frames"][op["frame"]]
        if op.get("inject"):
            self.injected_trial(pos, op)
        before = self.dump()
        snap_before = self.snap()
        exc = None
        notes = []
        try:
            apply_export(self.ex, op, self.frames, notes)
        except Exception as e:
            exc = e
        self._dump = self._snap = None
        after = self.snap()
        # --- what was passed to the call is the caller's: unchanged afterwards (values, index, names, dtypes)
        # (values and index labels / order: a later call with the same object must compute the same; names of the index levels or
        # added columns are outside the property and only counted)
        ch = frame_changes(self.frames[op["frame"]], self.pristine[op["frame"]])
        if ch == "content":
            notes.append("the values / index of the mesh frame passed to the call were changed by it")
        elif ch == "cosmetic":
            self.cosmetic += 1
        if ch:
            self.frames[op["frame"]] = self.pristine[op["frame"]].copy(deep=True)
        for n in notes:
            self.fail(f"op {pos} ({k}): {n}", K_ARGMOD)
        self.info.append(None if exc is None else err_cause(exc))
        self.segs.append(("ok" if exc is None else "err") + ";" + show_snapshot(after))
        d = own_dim(fr) if k == "geom" else None
        # (`d == 2` here, `d != 3` in `mechanism_from`: the two disagree on own_dim None, see the doc string there; inert)
        sticky = k == "geom" and self.seen3 and d == 2
        if k == "geom" and d != 2:
            self.seen3 = True
        if exc is not None:
            self.check_unchanged(pos, op, before, self.dump(), exc)
            # --- a valid call must not fail
            why = self.valid_call(op, fr, snap_before)
            if why is not None:
                klass = K_STICKY if sticky else why[1]
                if k == "set" and container_is_bad(op):
                    klass = K_CONTAINER
                klass = special_class(self.case, op) or klass
                self.fail(f"op {pos}: {why[0]} raised {err_name(exc)}: {str(exc)[:120]}"
                          + (" (an earlier add_geometry had a 3D frame)" if sticky else ""), klass)
            return
        # --- successful export: round trip now and at the end of the history
        if k == "geom":
            self.geom_frame[op["name"]] = op["frame"]
            if frame_valid(fr):
                chk = lambda pre="", o=op, f=fr, p=pos, s=sticky: self.check_geometry(o, f, p, s, pre)
                chk()
                self.stored.append(chk)
        elif k == "var":
            gi = self.geom_frame.get(op["geom"])
            if gi is not None and frame_valid(case["frames"][gi]) and frame_valid(fr) and \
                    (resolved_loc(op) == 2 or en_valid(fr, case["frames"][gi])):
                chk = lambda pre="", o=op, f=fr, g=case["frames"][gi], p=pos: self.check_variable_roundtrip(o, f, g, p, pre)
                chk()
                self.stored.append(chk)
        elif k == "set":
            gi = self.geom_frame.get(op["geom"])
            if gi is not None and frame_valid(case["frames"][gi]):
                name = op.get("name") or ""
                # a later set of the same kind and name replaces this one in look-ups by name
                self.stored = [c for c in self.stored if getattr(c, "set_key", None) != (op["geom"], op["kind"], name)]
                chk = lambda pre="", o=op, g=case["frames"][gi], p=pos: self.check_set(o, g, p, pre)
                chk.set_key = (op["geom"], op["kind"], name)
                chk()
                self.stored.append(chk)

    def valid_call(self, op, fr, snap):
        """(what, class) when the call is one the exporter has to accept, else None."""
        k = op["op"]
        if k == "geom":
            if not frame_valid(fr) or not frame_ids_fit(fr) or op["name"] in snap["geoms"]:
                return None
            d = own_dim(fr)
            sizes = set(element_sizes(fr).values())
            if d is None or not all((d, s) in ELEMENT_TYPES for s in sizes):
                return None
            return (f"add_geometry of a valid frame (element sizes {sorted(sizes)}, own dimension {d})",
                    "mixed-element-types" if len(sizes) > 1 else "export-raises")
        if k == "var":
            M = mods()
            if op["geom"] not in snap["geoms"] or (op["state"], op["geom"], op["var"]) in snap["vars"]:
                return None
            names, loc = op.get("cols"), op.get("loc")
            if names is None:
                names = M["table"].get(op["var"], [None])[0]
            if loc is None and op["var"] in M["table"]:
                loc = M["table"][op["var"]][1].value
            if names is None or loc not in (2, 6):
                return None
            if any(c not in fr["cols"] or c in fr.get("obj", []) for c in names):
                return None
            ids = [r[1] if loc == 2 else r[0] for r in fr["rows"]]
            if not all(fits32(i) for i in ids):
                return None
            if loc == 6:
                gi = self.geom_frame.get(op["geom"])
                if gi is None or not en_valid(fr, self.case["frames"][gi]):
                    return None
            return (f"add_variable {op['var']!r} (location {loc}, columns {list(names)}) with valid arguments", "export-raises")
        if k == "set":
            name = op.get("name")
            pool = {(r[1] if op["kind"] == 0 else r[0]) for r in fr["rows"]}
            if op["geom"] not in snap["geoms"] or not (name is None or isinstance(name, str)):
                return None
            if not set(op["ids"]) <= pool or not all(fits32(i) for i in op["ids"]):
                return None
            return ("add_node_set / add_element_set with members of the mesh", "export-raises")
        return None

    def scenario_op(self, pos, op):
        """Scenarios outside the model, each on a file of its own (the history's file is not touched)."""
        self.info.append(None)
        self.segs.append("x")
        tmp = tempfile.mkdtemp(prefix="c20s_", dir=tempfile.gettempdir())
        try:
            if op["call"] == "collapsed":
                self.collapsed_scenario(pos, op, os.path.join(tmp, "s.vmap"))
            elif op["call"] == "interleave":
                self.interleave_scenario(pos, op, tmp)
            else:
                self.timing_scenario(pos, op, os.path.join(tmp, "s.vmap"))
        finally:
            shutil.rmtree(tmp, ignore_errors=True)

    def interleave_scenario(self, pos, op, tmp):
        """Two or three exporters, each writing a file of its own (geometries of the same names), their calls interleaved:
        every call is accepted / refused as when its exporter runs alone, every file ends up as when written alone, and reads
        back (one importer per file, reads interleaved as well)."""
        M = mods()
        scripts, order = op["scripts"], op["order"]

        def call(ex, o):
            try:
                apply_export(ex, o, self.frames)
                return "ok"
            except Exception as e:
                return "err:" + err_name(e)

        def reads(fn, script):
            out = []
            with Importer(fn) as im:
                for g in sorted({o["name"] for o in script if o["op"] == "geom"}):
                    ch = [["mesh", g, None], ["coords"]] + [["var", o["var"], o["state"], [o["var"] + "_" + c for c in o["cols"]]]
                                                           for o in script if o["op"] == "var" and o["geom"] == g]
                    out.append(run_chain(im, ch))
            return out

        alone, dumps, texts = [], [], []
        for i, script in enumerate(scripts):
            fn = os.path.join(tmp, f"alone{i}.vmap")
            ex = M["exp"](fn)
            alone.append([call(ex, o) for o in script])
            dumps.append(full_dump(fn))
            texts.append(reads(fn, script))
        fns = [os.path.join(tmp, f"mixed{i}.vmap") for i in range(len(scripts))]
        exs = [M["exp"](fn) for fn in fns]
        nxt = [0] * len(scripts)
        for i in order:
            o = scripts[i][nxt[i]]
            got = call(exs[i], o)
            if got != alone[i][nxt[i]]:
                self.fail(f"op {pos}: exporter {i}, call {nxt[i]} ({o['op']} {o.get('var', o.get('name'))!r}): {got} when the calls of "
                          f"{len(scripts)} exporters are interleaved (order {order}), {alone[i][nxt[i]]} when it runs alone", K_SHARED)
                return
            nxt[i] += 1
        for i, script in enumerate(scripts):
            diff = dump_diff(dumps[i], full_dump(fns[i]))
            if diff:
                got = reads(fns[i], script)
                self.fail(f"op {pos}: the file of exporter {i} differs at {diff[:3]} from the file it writes alone (calls of "
                          f"{len(scripts)} exporters interleaved, order {order}); read back {str(got)[:160]}, alone {str(texts[i])[:160]}",
                          K_SHARED)
                return

    def collapsed_scenario(self, pos, op, fn):
        """A mesh with collapsed elements (a node repeated in the connectivity, e.g. a quadrilateral 1 2 4 4): the key
        (element, node) is not unique, pyLife's own importer multiplies such rows, so only the FILE is judged: MYVALUES of an
        element nodal variable follow the stored connectivity, the occurrences of a repeated pair in their order."""
        M = mods()
        gfr = {"cols": ["x", "y", "v"], "rows": op["rows"]}
        vrows = [op["rows"][i] for i in op["order"]]
        vfr = {"cols": ["x", "y", "v"], "rows": vrows}
        ex = M["exp"](fn)
        try:
            ex.add_geometry("g", make_frame(gfr))
            if op.get("forget_cache") and isinstance(getattr(ex, "_connectivity", None), dict):
                ex._connectivity.clear()
            ex.add_variable("s", "g", "V", make_frame(vfr), column_names=["v"], location=location_arg(6))
        except Exception as e:
            self.fail(f"op {pos}: a mesh with a collapsed element (rows {[(r[0], r[1]) for r in op['rows']][:8]}): "
                      f"add_geometry / add_variable(ELEMENT_NODAL) raised {err_name(e)}: {str(e)[:120]}", K_COLLAPSED)
            return
        with h5py.File(fn, "r") as f:
            els = f["VMAP/GEOMETRY/g/ELEMENTS/MYELEMENTS"][:, 0]
            stored = [(int(r["myIdentifier"]), int(n)) for r in els for n in r["myConnectivity"]]
            ids = [int(x) for x in f["VMAP/VARIABLES/s/g/V/MYGEOMETRYIDS"][:, 0]]
            vals = [cell(x) for x in f["VMAP/VARIABLES/s/g/V/MYVALUES"][:, 0]]
        pools = {}
        for e, n, v in vrows:
            pools.setdefault((e, n), []).append(cell(v[2]))
        want = [pools[k].pop(0) if pools.get(k) else None for k in stored]
        if ids != sorted({e for e, _ in stored}) or vals != want:
            self.fail(f"op {pos}: collapsed element: MYVALUES {vals[:8]} for the stored connectivity {stored[:8]}, the frame has "
                      f"{want[:8]}", K_COLLAPSED)
            return
        # a genuinely duplicated row is not the geometry's own repetition: refused, nothing stored
        try:
            ex.add_variable("s", "g", "W", make_frame({"cols": vfr["cols"], "rows": vrows + vrows[:1]}), column_names=["v"],
                            location=location_arg(6))
            self.fail(f"op {pos}: collapsed element: a frame with a surplus copy of a row is accepted", K_COLLAPSED)
        except Exception:
            with h5py.File(fn, "r") as f:
                if "W" in f["VMAP/VARIABLES/s/g"]:
                    self.fail(f"op {pos}: collapsed element: the refused variable W is in the file", "partial-after-failure")

    def timing_scenario(self, pos, op, fn):
        """Exporting an element nodal variable from the frame the geometry was exported from must not cost a multiple of
        exporting a nodal variable from it (generous: 4 x + 10 ms, best of three each; measured 0.6 x on the repaired tree,
        15 x with the python loops over the stored elements of 57828f0)."""
        import time
        M = mods()
        nel = op["elements"]
        e = np.repeat(np.arange(1, nel + 1), 4)
        b = np.arange(1, nel + 1)
        nn = np.column_stack([b, b + 1, b + nel + 2, b + nel + 1]).ravel()
        m = pd.DataFrame({"x": nn % 1000 * 1.0, "y": nn // 1000 * 1.0, "z": 0.0, "v": nn * 1.0},
                         index=pd.MultiIndex.from_arrays([e, nn], names=["element_id", "node_id"]))
        ex = M["exp"](fn)
        ex.add_geometry("1", m)
        t_en, t_node = [], []
        for i in range(3):
            t = time.perf_counter()
            ex.add_variable("S%d" % i, "1", "V", m, column_names=["v"], location=location_arg(6))
            t_en.append(time.perf_counter() - t)
            t = time.perf_counter()
            ex.add_variable("S%d" % i, "1", "N", m, column_names=["v"], location=location_arg(2))
            t_node.append(time.perf_counter() - t)
        self.injected["timing:en_over_node_x100"] = int(100 * min(t_en) / max(min(t_node), 1e-9))
        # recorded, never judged: speed is not part of C20 and a ratio of two timings taken next to 15 busy workers is no
        # verdict (the same kind of guard in C13 reported a harmless change on a loaded machine, DESIGN 9.4)
        if min(t_en) > 4.0 * min(t_node) + 0.010:
            self.injected["timing:slower_than_bound"] = self.injected.get("timing:slower_than_bound", 0) + 1

    def badmesh_op(self, pos, op):
        """add_variable with something that is not a mesh frame: refused with the exporter's own VMAPExportError (KeyError for
        an unknown geometry), the file stays as it is."""
        before = self.dump()
        exc = None
        try:
            apply_export(self.ex, op, self.frames)
        except Exception as e:
            exc = e
        self._dump = self._snap = None
        self.info.append(None if exc is None else err_name(exc))
        self.segs.append("x")
        diff = dump_diff(before, self.dump())
        known = op["geom"] in self.snap()["geoms"]
        want = "VMAPExportError" if known else "KeyError"
        if exc is None or err_name(exc) != want:
            self.fail(f"op {pos}: add_variable(mesh={op['kind']}) " + ("did not raise" if exc is None else
                      f"raised {err_name(exc)}: {str(exc)[:100]}") + f", expected {want}", K_BADMESH)
        if diff:
            self.fail(f"op {pos} (badmesh) changed the file at {diff[:4]}", "partial-after-failure")

    def other_op(self, pos, op):
        """Exporter calls outside the model (SYSTEM datasets, attributes): they must leave geometries and variables alone."""
        if op["call"] in ("collapsed", "timing", "interleave"):
            return self.scenario_op(pos, op)
        if op["call"] == "badmesh":
            return self.badmesh_op(pos, op)
        before = self.dump()
        exc = None
        try:
            apply_export(self.ex, op, self.frames)
        except Exception as e:
            exc = e
        self._dump = self._snap = None
        after = self.dump()
        self.info.append(None if exc is None else err_name(exc))
        self.segs.append("x")
        diff = dump_diff(before, after)
        if exc is not None:
            if diff:
                self.fail(f"op {pos} ({op['call']}) raised {err_name(exc)} but the file changed at {diff[:4]}",
                          "partial-after-failure")
            return
        if op["call"] == "it":
            bad = [k for k in diff if k != "VMAP/SYSTEM/INTEGRATIONTYPES"]
        else:
            bad = [k for k in diff if k != op["path"].strip("/")]
            path = op["path"].strip("/")
            if not bad and path in before and path in after:
                a, b = dict(after[path][-1]), dict(before[path][-1])
                if op["key"] not in a:
                    bad = [path + "@" + op["key"] + " not set"]
                a.pop(op["key"], None)
                b.pop(op["key"], None)
                if a != b or after[path][:-1] != before[path][:-1]:
                    bad = [path]
        if bad:
            self.fail(f"op {pos} ({op['call']}) changed {bad[:4]}", "unrelated-change")

    def list_op(self, pos, op):
        with Importer(self.fn) as im:
            gs = "geoms=" + ",".join(sorted(im.geometries()))
            vs = []
            for st in sorted(im.states()):
                try:
                    names = sorted(im.variables(op["geom"], st))
                except KeyError:
                    names = []
                if names:
                    vs.append(st + ":" + ".".join(names))
            vs = ";vars=" + ",".join(vs)
            try:
                ns = list(im.node_sets(op["geom"]))
                es = list(im.element_sets(op["geom"]))
                self.segs.append(gs + ";nsets=" + ",".join(ns) + ";esets=" + ",".join(es) + vs)
            except Exception as e:
                self.segs.append(gs + ";err" + vs)
                self.import_errs.append(err_name(e))
                if isinstance(e, AttributeError):
                    self.fail(f"op {pos}: listing the sets of geometry {op['geom']!r} raised AttributeError: {e}",
                              "set-name-decode")

    def import_op(self, pos, op):
        fn = self.fn
        before = self.dump()
        # every frame handed out is changed in place by the "caller" before the next read on the same importer object
        with Importer(fn) as im:
            res = [run_chain(im, ch, self.import_errs, MUTATIONS[(pos + j) % len(MUTATIONS)]) for j, ch in enumerate(op["chains"])]
        self.segs.append("/".join(res))
        self._dump = None
        diff = dump_diff(before, self.dump())
        if diff:
            self.fail(f"op {pos}: reading changed the file at {diff[:4]}", K_READWRITES)
        # --- the reads of one importer object equal the reads of fresh importer objects, whatever the caller did to the
        # frames it got
        for j, (ch, r) in enumerate(zip(op["chains"], res)):
            if ch and ch[0][0] == "mesh":
                with Importer(fn) as im1:
                    r0 = run_chain(im1, ch)
                if r != r0:
                    prev = MUTATIONS[(pos + j - 1) % len(MUTATIONS)] if j else None
                    self.fail(f"op {pos}: chain {j} {ch} on an importer that was used before reads {r[:90]}, a fresh importer "
                              f"{r0[:90]} (the frame of the previous read was changed in place: {prev})", K_ALIAS)
                    break
        # --- reading is repeatable: a chain that starts with make_mesh gives the same frame on the same importer
        # object again and on a fresh one
        for ch, r in zip(op["chains"], res):
            if ch and ch[0][0] == "mesh":
                with Importer(fn) as im2:
                    r1 = run_chain(im2, ch, None, MUTATIONS[(pos + 2) % len(MUTATIONS)])
                    r2 = run_chain(im2, ch, None, MUTATIONS[(pos + 3) % len(MUTATIONS)])
                    r3 = run_chain(im2, ch)
                if r1 == r and not (r1 == r2 == r3):
                    self.fail(f"op {pos}: chain {ch} read three times on one importer, the frames changed in place in between: "
                              f"{r1[:80]} / {r2[:80]} / {r3[:80]}", K_ALIAS)
                elif not (r == r1 == r2):
                    self.fail(f"op {pos}: chain {ch} is not repeatable: {r[:80]} / {r1[:80]} / {r2[:80]}",
                              "not-repeatable")

    # ------------------------------------------------------------ round trip checks
    def check_geometry(self, op, fr, pos, sticky, pre=""):
        self.check_mesh_roundtrip(op, fr, pos, pre)
        self.check_element_types(op, fr, pos, sticky, pre)

    def check_element_types(self, op, fr, pos, sticky, pre):
        """The element type stored for every element is the type the file's own ELEMENTTYPES table lists for the frame's
        own dimension and the element's node count."""
        d = own_dim(fr)
        if d is None:
            return
        sizes = element_sizes(fr)
        with h5py.File(self.fn, "r") as f:
            table = {int(r["myIdentifier"]): (int(r["myNumberOfNodes"]), int(r["myDimension"]))
                     for r in f["VMAP/SYSTEM/ELEMENTTYPES"][:, 0]}
            els = f[f"VMAP/GEOMETRY/{op['name']}/ELEMENTS/MYELEMENTS"][:, 0]
            stored = {int(r["myIdentifier"]): int(r["myElementType"]) for r in els}
        for e, s in sizes.items():
            t = stored.get(e)
            if t is None:
                continue                # reported by the mesh round trip
            if table.get(t) != (s, d):
                klass = K_STICKY if sticky else self.klass_for(op, "element-type")
                self.fail(f"{pre}op {pos}: element {e} ({s} nodes, mesh dimension {d}) is stored with element type {t} = "
                          f"(nodes, dimension) {table.get(t)} of the file's ELEMENTTYPES table", klass)
                return

    def check_mesh_roundtrip(self, op, fr, pos, pre=""):
        name = op["name"]
        fail = self.fail
        bad = self.klass_for(op, "roundtrip-mesh")
        with Importer(self.fn) as im:
            try:
                got = show_frame(im.make_mesh(name).join_coordinates().to_frame())
            except Exception as e:
                nc = 3 if "z" in fr["cols"] else 2
                klass = "two-column-coordinates" if (nc == 2 and isinstance(e, ValueError)) else bad
                fail(f"{pre}op {pos}: reading geometry {name!r} back raised {err_name(e)}: {str(e)[:120]}", klass)
                return
        cols, rows = parse_frame(got)
        names = coord_names(fr)
        idx = [fr["cols"].index(c) for c in names]
        exp = expected_rows(fr)
        if cols != names:
            fail(f"{pre}op {pos}: coordinate columns {cols} instead of {names}", bad)
            return
        if [(e, n) for e, n, _ in rows] != [(r[0], r[1]) for r in exp]:
            fail(f"{pre}op {pos}: rows of the imported mesh {[(e, n) for e, n, _ in rows][:8]} differ from the exported "
                 f"rows ordered by element id {[(r[0], r[1]) for r in exp][:8]}", bad)
            return
        self.compare_nodal(fr, names, rows, exp, pos, "coordinates", bad, pre)

    def compare_nodal(self, fr, names, rows, exp, pos, what, klass, pre):
        """Per node data (coordinates, NODE variables).  A column that is the same in all rows of a node has to come back
        exactly; of a column that differs between the rows of a node one of the node's cells has to come back - a
        non-missing one if the node has any."""
        for j, c in enumerate(names):
            i = fr["cols"].index(c)
            if column_consistent_per_node(fr, [c]):
                for (e, n, cells), r in zip(rows, exp):
                    if len(cells) <= j or cells[j] != cell(r[2][i]):
                        self.fail(f"{pre}op {pos}: {what}, column {c!r} of element {e} node {n} read back as "
                                  f"{cells[j] if len(cells) > j else None}, exported {cell(r[2][i])}", klass)
                        return
            else:
                pool = node_cells(fr, c)
                for n in pool:
                    if pool[n] != {"nan"}:
                        pool[n] = pool[n] - {"nan"}       # a node that has a value somewhere must not come back as missing
                for (e, n, cells) in rows:
                    if len(cells) <= j or cells[j] not in pool.get(n, ()):
                        self.fail(f"{pre}op {pos}: {what}, column {c!r} of node {n} read back as "
                                  f"{cells[j] if len(cells) > j else None}, none of the node's cells {sorted(pool.get(n, ()))}",
                                  klass)
                        return

    def check_variable_roundtrip(self, op, vfr, gfr, pos, pre=""):
        """The variable was exported from `vfr`, the geometry from `gfr` (the same frame, a reordered copy, a frame with
        other columns, a part of the mesh): every mesh row gets the value `vfr` has for its node (NODE) / for its
        (element, node) pair (ELEMENT_NODAL) - whatever the row order of `vfr` - and NaN where `vfr` has none."""
        M = mods()
        fail = self.fail
        names = op.get("cols")
        if names is None:
            names = M["table"][op["var"]][0]
        loc = resolved_loc(op)
        idx = [vfr["cols"].index(c) for c in names]
        kn = self.klass_for(op, "roundtrip-node-variable")
        ke = self.klass_for(op, "roundtrip-element-nodal")
        if loc != 2 and not en_aligned(vfr, gfr):
            ke = self.klass_for(op, K_ROWORDER)
        with Importer(self.fn) as im:
            try:
                got = show_frame(im.make_mesh(op["geom"], op["state"]).join_variable(op["var"], column_names=list(names))
                                 .to_frame())
            except Exception as e:
                fail(f"{pre}op {pos}: reading variable {op['var']!r} back raised {err_name(e)}: {str(e)[:120]}",
                     kn if loc == 2 else ke)
                return
        cols, rows = parse_frame(got)
        exp = expected_rows(gfr)
        if [(e, n) for e, n, _ in rows] != [(r[0], r[1]) for r in exp]:
            fail(f"{pre}op {pos}: rows differ after joining {op['var']!r}", self.klass_for(op, "roundtrip-mesh"))
            return
        nanrow = ["nan"] * len(idx)
        if loc == 2:
            nodes = {r[1] for r in vfr["rows"]}
            for (e, n, cells), r in zip(rows, exp):
                if r[1] not in nodes and cells != nanrow:
                    fail(f"{pre}op {pos}: nodal variable {op['var']!r}: node {n} is not in the variable's frame but reads {cells}", kn)
                    return
            # per node data of vfr, compared at the mesh rows (keyed by node)
            first = {}
            for r in vfr["rows"]:
                first.setdefault(r[1], r)
            inside = [(row, r) for row, r in zip(rows, exp) if r[1] in nodes]
            self.compare_nodal(vfr, list(names), [row for row, _ in inside], [first[r[1]] for _, r in inside], pos,
                               f"nodal variable {op['var']!r}", kn, pre)
        else:
            by_key = {(r[0], r[1]): r for r in vfr["rows"]}
            for (e, n, cells), r in zip(rows, exp):
                src = by_key.get((e, n))
                want = nanrow if src is None else [cell(src[2][i]) for i in idx]
                if cells != want:
                    klass = ke if (contiguous(vfr) or ke == K_ROWORDER) else self.klass_for(op, "element-nodal-interleaved")
                    fail(f"{pre}op {pos}: element nodal variable {op['var']!r} at element {e} node {n}: read {cells}, "
                         f"exported {want}"
                         + ("" if en_aligned(vfr, gfr) else " (the variable's frame has another row order than the geometry's)"),
                         klass)
                    return

    def check_set(self, op, gfr, pos, pre=""):
        fail = self.fail
        name = op.get("name") or ""
        kind = op["kind"]
        # (a geometry exported from a frame with ids outside int32 is the same finding as the ids themselves)
        bad = K_OVERFLOW if not frame_ids_fit(gfr) else self.klass_for(op, "filter-set")
        if bad == "filter-set" and container_is_bad(op):
            bad = K_CONTAINER
        members = set(op["ids"])
        # the set that a look-up by this name must find: the last one stored under the name
        stored = [s for s in self.snap()["geoms"][op["geom"]]["sets"] if s[0] == kind and s[1] == name]
        if not stored or set(stored[-1][2]) != members:
            fail(f"{pre}op {pos}: the members of set {name!r} are not stored as given "
                 f"({sorted(stored[-1][2])[:6] if stored else None} for {sorted(members)[:6]})", bad)
            return
        with Importer(self.fn) as im:
            try:
                listed = list(im.node_sets(op["geom"]) if kind == 0 else im.element_sets(op["geom"]))
                ch = im.make_mesh(op["geom"])
                ch = ch.filter_node_set(name) if kind == 0 else ch.filter_element_set(name)
                got = show_frame(ch.to_frame())
            except Exception as e:
                klass = "set-name-decode" if isinstance(e, AttributeError) else bad
                fail(f"{pre}op {pos}: listing / filtering by the stored set {name!r} raised {err_name(e)}: {str(e)[:100]}", klass)
                return
        if name not in listed:
            fail(f"{pre}op {pos}: stored set {name!r} is not listed ({listed})", bad)
            return
        _, rows = parse_frame(got)
        exp = [(r[0], r[1]) for r in expected_rows(gfr) if (r[1] if kind == 0 else r[0]) in members]
        if [(e, n) for e, n, _ in rows] != exp:
            fail(f"{pre}op {pos}: filtering by set {name!r} (members {sorted(members)[:8]}) returned rows "
                 f"{[(e, n) for e, n, _ in rows][:8]}, expected {exp[:8]}", bad)


# ------------------------------------------------------------------ generators
NODE_COUNTS = {2: [3, 4, 6, 8], 3: [4, 6, 8, 10, 15, 20]}
BAD_COUNTS = [1, 2, 5, 7, 9]
GEOMS = ["g", "h", "1", "part-2", "Gehäuse"]
STATES = ["STATE-1", "s2", "Zustand-β"]
SET_NAMES = ["ALL", "FIX", "a_b", "", "Rand-é"]
BEYOND = [2 ** 31, 2 ** 31 + 5, -2 ** 31 - 1, 2 ** 40, -2 ** 33 - 7]


def dy(rng):
    return rng.randint(-64, 64) / 8.0


def special(rng):
    return rng.choice([0.0, -0.0, 1e300, -1e-300, 5e-324, float("inf"), float("-inf"), 0.1, 1 / 3, 123456.789])


def coord(rng):
    """A coordinate: mostly not representable in binary32; the 1/8 grid, specials, NaN and infinities occur."""
    r = rng.random()
    if r < 0.35:
        return dy(rng)
    if r < 0.75:
        return rng.uniform(-1.0, 1.0) * 10.0 ** rng.randint(-9, 6)
    if r < 0.93:
        return rng.choice([0.1, 0.3, 1 / 3, 1e-7, 123456.789, -0.0, 1e300, -1e-300, 5e-324, 2.0 ** -30, 1.0 + 2.0 ** -40])
    return rng.choice([NAN, float("inf"), float("-inf")])


def id_pool(rng, n, mode):
    if mode == "dense":
        ids = list(range(1, n + 1))
    elif mode == "gaps":
        ids = rng.sample(range(1, 6 * n + 10), n)
    elif mode == "wide":
        ids = rng.sample(range(-50, 50), n) if n <= 100 else list(range(n))
    elif mode == "beyond":   # some ids outside int32
        k = rng.randint(1, min(2, n))
        ids = rng.sample(BEYOND, k) + rng.sample(range(1, 6 * n + 10), n - k)
    else:   # int32 borders
        pool = [INT32_MIN, INT32_MIN + 1, -1, 0, 1, 65536, INT32_MAX - 1, INT32_MAX] + rng.sample(range(2, 60000), n)
        ids = rng.sample(pool, n)
    rng.shuffle(ids)
    return ids


MODES = ["dense", "gaps", "gaps", "wide", "int32"]


def gen_frame(rng, tier, want=None):
    """A mesh frame.  want: None (no defect asked for - the frame can still be invalid or 3D by its own content: per-node
    coordinate conflicts / missing coordinates in 15 % of the frames, a 2D element set with noise in z) | 'badcount' |
    'noxy' | 'objcoord' | 'empty' | 'beyond'.  (Frames with a repeated
    (element, node) pair are not meshes - pandas joins multiply their rows - and are outside the property's quantifier.)"""
    dim = rng.choice([2, 2, 3])
    big = tier == "thorough"
    nel = rng.choice([1, 2, 2, 3, 4, 6] + ([9, 14] if big else []))
    mixed = rng.random() < 0.45
    counts = NODE_COUNTS[dim]
    base = rng.choice(counts)
    sizes = [rng.choice(counts) if mixed else base for _ in range(nel)]
    if want == "badcount":
        sizes[rng.randrange(nel)] = rng.choice(BAD_COUNTS + ([10] if dim == 2 else [3]))
    nnodes = max(max(sizes), int(sum(sizes) * rng.choice([0.4, 0.7, 1.0])))
    nmode, emode = rng.choice(MODES), rng.choice(MODES)
    if want == "beyond":
        if rng.random() < 0.5:
            nmode = "beyond"
        else:
            emode = "beyond"
    nids = id_pool(rng, nnodes, nmode)
    eids = id_pool(rng, nel, emode)
    has_z = dim == 3 or rng.random() < 0.75
    coords = {}
    # the z range of a 3D mesh: ordinary | a thin part far from the origin | a tiny mesh | flat (then it is a 2D mesh)
    zmode = rng.choice(["any", "any", "thin", "tiny", "flat"]) if dim == 3 else "plane"
    z0 = rng.choice([1250.0, -3.0e5, 87.5, 1.0e7])
    for j, n in enumerate(nids):
        if zmode == "any":
            z = coord(rng)
        elif zmode == "thin":
            z = z0 * (1.0 + rng.randint(0, 40) * 2.0 ** -22)
        elif zmode == "tiny":
            z = rng.randint(0, 50) * 1e-10
        elif zmode == "flat":
            z = 1.5
        else:
            z = 0.0
        coords[n] = [coord(rng), coord(rng), z]
    if zmode in ("thin", "tiny") and len({coords[n][2] for n in nids}) == 1:
        coords[nids[0]][2] = z0 * (1.0 + 2.0 ** -21) if zmode == "thin" else 7e-10
    if dim == 2 and has_z:
        q = rng.random()
        if q < 0.25:
            zc = rng.choice([-0.0, 2.5, -7.0, 1250.004, 1e-9])
            for n in nids:
                coords[n][2] = zc
        elif q < 0.29:
            coords[rng.choice(nids)][2] = 1e-12          # noise in z: by its own frame this is a 3D mesh of 2D elements
    # data columns: d* nodal fields (function of the node, may hold NaN), m1 a nodal field with missing (NaN) entries in
    # some rows, p* free NaN-free, q* free with specials
    named = rng.random() < 0.35
    ncol = [c for c in (["dx", "dy", "dz"] if named else ["d1", "d2"])]
    pcol = ["S11", "S22", "S33", "S12", "S13", "S23"] if named and rng.random() < 0.7 else ["p1", "p2"]
    mcol, qcol = ["m1"], ["q1"]
    nodal = {n: [rng.choice([dy(rng), coord(rng), special(rng), NAN]) if rng.random() < 0.3 else dy(rng)
                 for _ in ncol + mcol] for n in nids}
    cols = (["x", "y", "z"] if has_z else ["x", "y"]) + ncol + mcol + pcol + qcol
    if want == "noxy":
        cols[rng.randrange(2)] = "u"
    rows_by_el = []
    for e, s in zip(eids, sizes):
        ns = rng.sample(nids, s)
        rows_by_el.append([[e, n] for n in ns])
    order = rng.random()
    if order < 0.6:
        rows = [r for el in rows_by_el for r in el]                      # contiguous
    elif order < 0.8:
        rows = []                                                         # interleaved round robin
        pools = [list(el) for el in rows_by_el]
        while any(pools):
            for p in pools:
                if p:
                    rows.append(p.pop(0))
    else:
        pools = [list(el) for el in rows_by_el]                           # random interleaving, inner order kept
        rows = []
        while any(pools):
            p = rng.choice([p for p in pools if p])
            rows.append(p.pop(0))
    inconsistent = rng.random() < 0.15
    out = []
    for e, n in rows:
        c = list(coords[n][:3 if has_z else 2])
        if inconsistent and rng.random() < 0.3:
            j = rng.randrange(len(c))
            c[j] = NAN if rng.random() < 0.5 else c[j] + 0.5   # a coordinate differs between the rows of one node / is missing
        nv = list(nodal[n])
        if rng.random() < 0.3:
            nv[-1] = NAN                                        # m1: missing in this row
        vals = c + nv + [dy(rng) if rng.random() < 0.9 else rng.choice([0.1, 1 / 3, 1e300, -0.0]) for _ in pcol] \
            + [rng.choice([dy(rng), special(rng), NAN]) for _ in qcol]
        out.append([e, n, vals])
    fr = {"cols": cols, "rows": out}
    if want == "empty":
        fr["rows"] = []
    if want == "objcoord":
        fr["obj"] = [rng.choice(coord_names(fr))]
    elif rng.random() < 0.12:
        fr["obj"] = [rng.choice(pcol + mcol)]                   # a data column that cannot be stored
    if want is None and rng.random() < 0.06:
        fr["extra_level"] = True                                # a third index level besides element_id / node_id
    if want is None and "obj" not in fr and rng.random() < 0.08:
        fr["f32"] = True                                        # a binary32 frame: cells are binary32 values
        for r in fr["rows"]:
            with np.errstate(over="ignore"):
                r[2] = [float(np.float32(v)) for v in r[2]]
    return fr


CONTAINERS = ["index", "index", "list", "tuple", "set", "frozenset", "dict_keys", "generator", "range", "series", "ndarray",
              "int32array", "floatarray", "objindex", "objarray", "objseries"]


def reordered(rng, fr, mode):
    """A variable frame for the geometry exported from `fr`: the same (element, node) pairs in another row order (or, for the
    refusals, not quite the same pairs), with other values in the free columns."""
    rows = [[r[0], r[1], list(r[2])] for r in fr["rows"]]
    free = [i for i, c in enumerate(fr["cols"]) if c in ("p1", "p2", "S11", "S22", "S33", "S12", "S13", "S23")]
    for r in rows:
        for i in free:
            r[2][i] = dy(rng) + 1000.0
    if mode == "sorted":
        rows.sort(key=lambda r: (r[0], r[1]))
    elif mode == "reversed":
        rows.reverse()
    elif mode == "bynode":
        rows.sort(key=lambda r: (r[1], r[0]))
    elif mode == "shuffled":
        rng.shuffle(rows)
    elif mode == "part":                       # whole elements only, shuffled
        els = sorted({r[0] for r in rows})
        keep = set(rng.sample(els, max(1, len(els) // 2)))
        rows = [r for r in rows if r[0] in keep]
        rng.shuffle(rows)
    elif mode == "missing" and len(rows) > 1:
        rows.pop(rng.randrange(len(rows)))
        rng.shuffle(rows)
    elif mode == "extra" and rows:
        r = rng.choice(rows)
        rows.append([r[0], max(x[1] for x in rows) + 1 if max(x[1] for x in rows) < INT32_MAX else 5, list(r[2])])
        rng.shuffle(rows)
    out = {"cols": list(fr["cols"]), "rows": rows}
    if fr.get("obj"):
        out["obj"] = list(fr["obj"])
    if rng.random() < 0.25:
        out["extra_level"] = True
    return out


def gen_interleave(rng, frames, variants):
    """Scripts for two or three exporters (a geometry of the same name each, from the same frame, a reordered copy of it or
    another frame; a nodal, an element nodal variable and a set) and a random interleaving of their calls."""
    base = [i for i, f in enumerate(frames) if f["rows"]]
    if not base:
        return None
    n = rng.choice([2, 2, 3])
    f0 = rng.choice(base)
    pool = [f0] + ([variants[f0]] if f0 in variants else []) + [rng.choice(base)]
    name = rng.choice(["1", "g"])
    scripts = []
    for i in range(n):
        fi = pool[i % len(pool)] if rng.random() < 0.8 else rng.choice(base)
        fr = frames[fi]
        nodal, free = frame_info(fr)
        cols = (free or nodal or ["x"])[:2]
        sc = [{"op": "geom", "name": name, "frame": fi},
              {"op": "var", "state": "s", "geom": name, "var": "EN", "frame": fi, "cols": cols, "loc": 6},
              {"op": "var", "state": "s", "geom": name, "var": "N", "frame": fi, "cols": (nodal or ["x"])[:1], "loc": 2}]
        if rng.random() < 0.5:
            ids = sorted({r[1] for r in fr["rows"]})
            sc.append({"op": "set", "kind": 0, "geom": name, "ids": rng.sample(ids, max(1, len(ids) // 2)), "frame": fi,
                       "name": "S", "container": rng.choice(["index", "list", "ndarray"])})
        if rng.random() < 0.4:
            sc.insert(rng.randint(1, len(sc)), {"op": "geom", "name": "h", "frame": rng.choice(base)})
        scripts.append(sc)
    order = [i for i, sc in enumerate(scripts) for _ in sc]
    rng.shuffle(order)
    return {"op": "other", "call": "interleave", "scripts": scripts, "order": order}


def gen_collapsed(rng):
    """A mesh with one or two collapsed elements and a permutation of its rows for the variable's frame."""
    rows, nid = [], 1
    for e in rng.sample(range(1, 40), rng.randint(1, 3)):
        ns = rng.sample(range(1, 30), rng.choice([3, 4]))
        if rng.random() < 0.75:
            ns[rng.randrange(1, len(ns))] = ns[0] if rng.random() < 0.5 else ns[-1]      # a repeated node
        for n in ns:
            rows.append([e, n, [float(n % 5), float(n // 5), float(len(rows)) + 0.5]])
    order = list(range(len(rows)))
    mode = rng.choice(["same", "reversed", "shuffled"])
    if mode == "reversed":
        order.reverse()
    elif mode == "shuffled":
        rng.shuffle(order)
    return {"op": "other", "call": "collapsed", "rows": rows, "order": order, "forget_cache": rng.random() < 0.4}


def frame_info(fr):
    nodal = [c for c in fr["cols"] if c in ("dx", "dy", "dz", "d1", "d2")]
    free = [c for c in fr["cols"] if c in ("p1", "p2", "S11", "S22", "S33", "S12", "S13", "S23")]
    return nodal, free


def gen_chain(rng, geoms, states, vars_known, sets_known):
    """vars_known: list of (state, geom, var, cols); sets_known: list of (geom, kind, name)."""
    g = rng.choice(geoms + ["nogeo"]) if rng.random() < 0.08 or not geoms else rng.choice(geoms)
    st = rng.choice([None, None] + states + ["nostate"]) if rng.random() < 0.5 else (rng.choice(states) if states else None)
    ch = [["mesh", g, st]]
    steps = rng.randint(0, 4)
    for _ in range(steps):
        r = rng.random()
        cand = [v for v in vars_known if v[1] == g]
        if r < 0.3:
            ch.append(["coords"])
        elif r < 0.7 and cand:
            v = rng.choice(cand)
            stt = rng.choice([None, v[0], v[0], rng.choice(states + ["nostate"])])
            cols = list(v[3]) if v[3] is not None else None
            if cols is not None and rng.random() < 0.2:
                cols = [c + "_r" for c in cols]                          # renamed on import
            if cols is not None and rng.random() < 0.06:
                cols = cols + ["extra"]                                  # wrong length
            if rng.random() < 0.06:
                ch.append(["var", "NOVAR", stt, ["a"]])
            else:
                ch.append(["var", v[2], stt, cols])
        elif r < 0.9:
            cs = [s for s in sets_known if s[0] == g]
            if cs and rng.random() < 0.85:
                s = rng.choice(cs)
                ch.append(["fn" if s[1] == 0 else "fe", s[2]])
            else:
                ch.append([rng.choice(["fn", "fe"]), rng.choice(SET_NAMES + ["nope"])])
        else:
            ch.append(["var", rng.choice(["DISPLACEMENT", "UNKNOWN"]), None, None])
    return ch


def gen_inject(rng, kind):
    r = rng.random()
    if r > 0.3 and kind != "var":
        return None
    if kind == "geom":
        return rng.choice([["ds", 1], ["ds", 2], ["ds", 3], ["ds", 3], ["attr", 1], ["attr", 2]])
    if kind == "var":
        return rng.choice([["ds", 1], ["ds", 2], ["ds", 2], ["attr", 1]]) if r < 0.3 or rng.random() < 0.5 else None
    return rng.choice([["ds", 1], ["attr", 1]])


def gen_case(rng, tier):
    nframes = rng.choice([1, 1, 2, 2, 3])
    frames = [gen_frame(rng, tier) for _ in range(nframes)]
    if rng.random() < 0.45:
        frames.append(gen_frame(rng, tier, rng.choice(["badcount", "badcount", "noxy", "objcoord", "empty", "beyond",
                                                       "beyond"])))
        rng.shuffle(frames)
    # variable frames in another row order than the frame the geometry is exported from
    variants = {}
    for fi in range(len(frames)):
        if frames[fi]["rows"] and not frames[fi].get("f32") and rng.random() < 0.45:
            mode = rng.choice(["sorted", "sorted", "reversed", "bynode", "shuffled", "shuffled", "part", "missing", "extra"])
            frames.append(reordered(rng, frames[fi], mode))
            variants[fi] = len(frames) - 1
    nbase = len(frames) - len(variants)
    ops = []
    geoms, states, vars_known, sets_known = [], [], [], []
    geom_frame = {}
    nops = rng.randint(3, 9 if tier == "quick" else 14)
    for _ in range(nops):
        r = rng.random()
        if r < 0.25 or not geoms:
            name = rng.choice(GEOMS) if rng.random() < 0.8 else rng.choice(geoms or GEOMS)
            fi = rng.randrange(nbase if rng.random() < 0.9 else len(frames))
            ops.append({"op": "geom", "name": name, "frame": fi})
            if name not in geoms:
                geoms.append(name)             # may have failed; the generator only needs candidates
                geom_frame[name] = fi
        elif r < 0.55:
            g = rng.choice(geoms) if rng.random() < 0.9 else "nogeo"
            fi = geom_frame.get(g, 0) if rng.random() < 0.85 else rng.randrange(len(frames))
            if fi in variants and rng.random() < 0.5:
                fi = variants[fi]
            nodal, free = frame_info(frames[fi])
            st = rng.choice(STATES)
            q = rng.random()
            if q < 0.12 and "dx" in frames[fi]["cols"]:
                op = {"op": "var", "state": st, "geom": g, "var": "DISPLACEMENT", "frame": fi, "cols": None, "loc": None}
            elif q < 0.24 and "S11" in frames[fi]["cols"]:
                op = {"op": "var", "state": st, "geom": g, "var": rng.choice(["STRESS_CAUCHY", "E"]), "frame": fi,
                      "cols": None if rng.random() < 0.5 else ["S11", "S22", "S33", "S12", "S13", "S23"], "loc": None}
            elif q < 0.34:
                # failing calls: unknown variable without columns / without location, bad location, missing column
                op = rng.choice([
                    {"op": "var", "state": st, "geom": g, "var": "UNKNOWN", "frame": fi, "cols": None, "loc": 2},
                    {"op": "var", "state": st, "geom": g, "var": "UNKNOWN", "frame": fi, "cols": nodal[:1] or ["x"], "loc": None},
                    {"op": "var", "state": st, "geom": g, "var": "V1", "frame": fi, "cols": nodal[:1] or ["x"], "loc": 4},
                    {"op": "var", "state": st, "geom": g, "var": "V2", "frame": fi, "cols": ["missing"], "loc": rng.choice([2, 6])},
                    {"op": "var", "state": st, "geom": g, "var": "V3", "frame": fi, "cols": (nodal[:1] or ["x"]) + ["missing"], "loc": 6},
                ])
            else:
                loc = rng.choice([2, 2, 6, 6, 6])
                pool = (nodal + ["x", "y", "m1", "m1"] + free) if loc == 2 else (free + nodal + ["q1", "x", "m1"])
                pool = [c for c in pool if c in frames[fi]["cols"]] or ["x"]
                k = rng.randint(1, min(3, len(set(pool))))
                cols = rng.sample(sorted(set(pool)), k)
                op = {"op": "var", "state": st, "geom": g, "var": rng.choice(["A", "B", "TEMP", "V1"]), "frame": fi,
                      "cols": cols, "loc": loc}
            if resolved_loc(op) == 2 and rng.random() < 0.15:
                op["ids_as_columns"] = True
            if resolved_loc(op) == 6 and rng.random() < 0.2:
                op["forget_cache"] = True
            ops.append(op)
            if st not in states:
                states.append(st)
            vars_known.append((st, g, op["var"], op["cols"]))
        elif r < 0.72:
            g = rng.choice(geoms) if rng.random() < 0.9 else "nogeo"
            fi = geom_frame.get(g, 0)
            if rng.random() < 0.12:
                fi = rng.randrange(len(frames))                          # the mesh argument is another frame
            kind = rng.choice([0, 1])
            pool = sorted({(row[1] if kind == 0 else row[0]) for row in frames[fi]["rows"]})
            ids = rng.sample(pool, rng.randint(0, len(pool))) if pool else []
            if ids and rng.random() < 0.15:
                ids = ids + [ids[0]]                                     # a repeated member
            q = rng.random()
            name = rng.choice(SET_NAMES)
            if q < 0.08:
                top = max(pool) if pool else 0
                ids = ids + [top + 1000 if top < INT32_MAX - 2000 else min(pool) - 7]   # not a subset
            elif q < 0.14:
                name = 7                                                 # not a string
            elif q < 0.22:
                name = None
            ops.append({"op": "set", "kind": kind, "geom": g, "ids": ids, "frame": fi, "name": name,
                        "container": rng.choice(CONTAINERS)})
            sets_known.append((g, kind, name if isinstance(name, str) else ""))
        elif r < 0.76:
            ops.append({"op": "list", "geom": rng.choice(geoms + ["nogeo"]) if rng.random() < 0.1 else rng.choice(geoms)})
        elif r < 0.83:
            q = rng.random()
            if q < 0.3:
                ops.append({"op": "other", "call": "it", "content": rng.choice([0, 1, 1, 2])})
            elif q < 0.5:
                ops.append({"op": "other", "call": "badmesh", "kind": rng.choice(["int", "none", "noids"]),
                            "geom": rng.choice(geoms + ["nogeo"]), "loc": rng.choice([2, 6])})
            elif q < 0.65:
                ops.append(gen_collapsed(rng))
            elif q < 0.85:
                o = gen_interleave(rng, frames, variants)
                if o:
                    ops.append(o)
            else:
                path = rng.choice(["VMAP/GEOMETRY/" + rng.choice(geoms), "INVALID", "VMAP/VARIABLES", "VMAP/GEOMETRY/nogeo"])
                ops.append({"op": "other", "call": "attr", "path": path, "key": rng.choice(["MYNAME", "MYSIZE"]),
                            "value": rng.choice(["PART-1-1", 7])})
        else:
            chains = [gen_chain(rng, geoms, states, vars_known, sets_known) for _ in range(rng.randint(1, 3))]
            if rng.random() < 0.3:
                chains.append(list(chains[0]))                           # the same read again on the same object
            if rng.random() < 0.15:
                chains.insert(0, [["coords"]])                           # no make_mesh yet
            ops.append({"op": "import", "chains": chains})
    for op in ops:
        if op["op"] in ("geom", "var", "set"):
            inj = gen_inject(rng, op["op"])
            if inj:
                op["inject"] = inj
    # always end with a full read of every geometry
    chains = []
    for g in geoms:
        ch = [["mesh", g, None], ["coords"]]
        for v in vars_known:
            if v[1] == g and rng.random() < 0.7:
                ch.append(["var", v[2], v[0], None if v[3] is None else [f"{v[2]}_{v[0]}_{c}" for c in v[3]]])
        chains.append(ch)
    ops.append({"op": "import", "chains": chains})
    if geoms:
        ops.append({"op": "list", "geom": rng.choice(geoms)})
    return {"frames": frames, "ops": ops}


def tiny_cases():
    """Systematic small scope: every supported element type alone and every pair of types of one dimension
    in one geometry, with a nodal and an element nodal variable, a second ELEMENT_NODAL variable `EN2` taken from a second
    frame (the same mesh rows sorted by (element, node) as `DataFrame.sort_index()` leaves them, other values), a node set
    and an element set whose ids are handed over in container kinds that rotate through CONTAINERS with the pair number
    (index, list, tuple, set, frozenset, dict keys, generator, range, Series, ndarray, int32 / float arrays, object-dtype
    Index / array / Series); the nodal variable `N` of every third pair is exported with `ids_as_columns`, the second frame of
    every other pair carries `extra_level`; contiguous
    and interleaved rows; coordinates that are not binary32 values; for 3D once with an ordinary z range and once as
    a thin layer far from the z origin; every exporter call except the one of `EN2` once more with a storage failure injected."""
    out = []
    for dim in (2, 3):
        counts = NODE_COUNTS[dim]
        pairs = [(a,) for a in counts] + [(a, b) for a in counts for b in counts if a < b]
        for pi, sizes in enumerate(pairs):
            for inter in (False, True):
                if inter and len(sizes) == 1:
                    sizes_ = (sizes[0], sizes[0])
                else:
                    sizes_ = sizes
                nn = max(sizes_) + 2
                rows_by_el = []
                for j, s in enumerate(sizes_):
                    e = 10 - 3 * j
                    rows_by_el.append([[e, ((j * 2 + i) % nn) * 2 + 1] for i in range(s)])
                rows = []
                if inter:
                    pools = [list(r) for r in rows_by_el]
                    while any(pools):
                        for p in pools:
                            if p:
                                rows.append(p.pop(0))
                else:
                    rows = [r for el in rows_by_el for r in el]
                thin = dim == 3 and inter
                fr_rows = []
                for i, (e, n) in enumerate(rows):
                    if dim == 2:
                        z = 0.0
                    elif thin:
                        z = 1250.0 + n * 0.0001            # 0.004 thick at z = 1250
                    else:
                        z = n * 0.5
                    fr_rows.append([e, n, [n * 0.1, n / 3.0, z, n * 2.0, 100.0 * e + i]])
                fr = {"cols": ["x", "y", "z", "d1", "p1"], "rows": fr_rows}
                # the same mesh rows sorted by (element, node) as `DataFrame.sort_index()` leaves them, with other values
                fr2 = {"cols": ["x", "y", "z", "d1", "p1"],
                       "rows": sorted(([r[0], r[1], r[2][:4] + [5000.0 + 10.0 * r[0] + r[1]]] for r in fr_rows),
                                      key=lambda r: (r[0], r[1]))}
                if pi % 2:
                    fr2["extra_level"] = True
                nodes = sorted({r[1] for r in rows})
                inj = [["ds", 1 + pi % 3], ["ds", 1 + pi % 2], ["attr", 1], ["ds", 1], ["attr", 1]]
                if pi % 2:
                    inj[0] = ["attr", 1 + (pi // 2) % 2]
                ops = [{"op": "geom", "name": "g", "frame": 0, "inject": inj[0]},
                       {"op": "var", "state": "s", "geom": "g", "var": "N", "frame": 0, "cols": ["d1"], "loc": 2, "inject": inj[1],
                        "ids_as_columns": pi % 3 == 0},
                       {"op": "var", "state": "s", "geom": "g", "var": "EN", "frame": 0, "cols": ["p1", "d1"], "loc": 6,
                        "inject": inj[2]},
                       {"op": "var", "state": "s", "geom": "g", "var": "EN2", "frame": 1, "cols": ["p1"], "loc": 6},
                       {"op": "set", "kind": 0, "geom": "g", "ids": nodes[::2], "frame": 0, "name": "half", "inject": inj[3],
                        "container": CONTAINERS[pi % len(CONTAINERS)]},
                       {"op": "set", "kind": 1, "geom": "g", "ids": [rows_by_el[-1][0][0]], "frame": 0, "name": "last",
                        "inject": inj[4], "container": CONTAINERS[(pi + 5) % len(CONTAINERS)]},
                       {"op": "other", "call": "interleave", "order": [0, 1, 0, 1, 1, 0], "scripts": [
                           [{"op": "geom", "name": "g", "frame": 0},
                            {"op": "var", "state": "s", "geom": "g", "var": "EN", "frame": 0, "cols": ["p1"], "loc": 6},
                            {"op": "var", "state": "s", "geom": "g", "var": "N", "frame": 0, "cols": ["d1"], "loc": 2}],
                           [{"op": "geom", "name": "g", "frame": 1},
                            {"op": "var", "state": "s", "geom": "g", "var": "EN", "frame": 1, "cols": ["p1"], "loc": 6},
                            {"op": "var", "state": "s", "geom": "g", "var": "N", "frame": 1, "cols": ["d1"], "loc": 2}]]},
                       {"op": "list", "geom": "g"},
                       {"op": "import", "chains": [
                           [["mesh", "g", "s"], ["coords"], ["var", "N", None, ["n"]], ["var", "EN", None, ["a", "b"]],
                            ["var", "EN2", None, ["c"]]],
                           [["mesh", "g", None], ["fn", "half"], ["coords"]],
                           [["mesh", "g", "s"], ["fe", "last"], ["var", "EN", None, ["a", "b"]]]]}]
                out.append({"frames": [fr, fr2], "ops": ops})
    return out


# ------------------------------------------------------------------ the property
class C20(Prop):
    ID = "C20"
    SOURCES = SOURCES
    LEAN_MODULES = ["Proofs.C20"]
    THEOREMS = [
        "PylifeVerif.C20.roundtrip_mesh",
        "PylifeVerif.C20.roundtrip_coordinates",
        "PylifeVerif.C20.node_value_is_own_cells",
        "PylifeVerif.C20.roundtrip_node_variable",
        "PylifeVerif.C20.roundtrip_element_nodal_variable",
        "PylifeVerif.C20.roundtrip_element_nodal_row_found",
        "PylifeVerif.C20.roundtrip_element_nodal_variable_same_frame",
        "PylifeVerif.C20.joinVar_step_element_nodal_any_order",
        "PylifeVerif.C20.enTarget_any_row_order",
        "PylifeVerif.C20.addVariable_succeeds_of_target",
        "PylifeVerif.C20.refused_addVariable_creates_nothing",
        "PylifeVerif.C20.joinCoords_step",
        "PylifeVerif.C20.joinVar_step_node",
        "PylifeVerif.C20.joinVar_step_element_nodal",
        "PylifeVerif.C20.joinVar_step_node_stored",
        "PylifeVerif.C20.joinVar_step_element_nodal_stored",
        "PylifeVerif.C20.find_own_row",
        "PylifeVerif.C20.import_repeatable",
        "PylifeVerif.C20.filter_returns_set",
        "PylifeVerif.C20.filter_returns_element_set",
        "PylifeVerif.C20.failed_addGeometry_leaves_file_unchanged",
        "PylifeVerif.C20.failed_addVariable_leaves_no_partial_variable",
        "PylifeVerif.C20.failed_addSet_leaves_file_unchanged",
        "PylifeVerif.C20.addGeometry_succeeds",
        "PylifeVerif.C20.addGeometry_history_independent",
        "PylifeVerif.C20.addVariable_succeeds",
        "PylifeVerif.C20.addSet_succeeds",
        "PylifeVerif.C20.addGeometry_ok_ids_fit",
        "PylifeVerif.C20.addVariable_ok_ids_fit",
        "PylifeVerif.C20.addGeometry_refuses_overflow",
        "PylifeVerif.C20.addSet_refuses_overflow",
        "PylifeVerif.C20.elemType_injective",
        "PylifeVerif.C20.stored_element_types",
        "PylifeVerif.C20.exported_after_addGeometry",
        "PylifeVerif.C20.exported_persists_addGeometry",
        "PylifeVerif.C20.exported_persists_addVariable",
        "PylifeVerif.C20.exported_persists_addSet",
        "PylifeVerif.C20.addGeometry_keeps_vars_groups",
        "PylifeVerif.C20.vars_persist_addGeometry",
        "PylifeVerif.C20.groups_persist_addGeometry",
        "PylifeVerif.C20.vars_persist_addVariable",
        "PylifeVerif.C20.groups_persist_addVariable",
        "PylifeVerif.C20.vars_persist_addSet",
        "PylifeVerif.C20.sets_persist_addSet",
        "PylifeVerif.C20.sets_persist_addVariable",
    ]
    PARTIAL = {}
    PARALLEL = 8          # impl_lines / oracle are sharded over forked processes by core.pmap
    RULE = ("export ops on an abstract file (geometries: point ids ascending + first non-missing cell per node and column, "
            "elements by id ascending with connectivity in frame order, type from (the frame's own dimension, node count); "
            "ids outside int32 refused; variables: arguments validated before anything is created, NODE = first non-missing "
            "cell per node, ELEMENT_NODAL = the frame's rows looked up by the (element, node) pairs of the stored connectivity "
            "(any row order; a frame that is not made of whole elements of the geometry is refused); sets appended, any "
            "iterable of ids) with the roll-back of the except-branches; import = mesh index from the "
            "connectivity, coordinates / variables joined by key, set filters; to_frame hands out the mesh and clears it - "
            "the selected geometry and state of the session stay")
    ASSUMPTIONS = [
        "HDF5/h5py is modelled as a store that returns what was written (groups, datasets, attributes; binary64 / binary32 "
        "cells bit for bit; ids as the 32 bit integers of the format).  h5py's integer conversions are NOT uniform (a "
        "vlen int32 connectivity and an int64->int32 dataset conversion saturate, `dtype=np.int32` on a DataFrame wraps, a "
        "Python int into a structured '<i4' field raises): the model has none of them because ids outside int32 are "
        "refused (/repo commit 0e66e4b; the dimension per geometry is commit ba72c38); the harness reads files with h5py as "
        "well (trusted)",
        "pandas groupby (sorted distinct keys, rows of a group in frame order), GroupBy.first (first non-NaN cell per "
        "column, NaN if there is none), MultiIndex.get_indexer / np.isin (element-nodal export since 57828f0: the position of every "
        "stored (element, node) pair in the variable's frame, -1 = absent; the elements of the geometry that occur in the frame, in "
        "stored order), DataFrame.merge / join by key (left order "
        "kept; a frame with distinct (element, node) pairs has no duplicate keys) are modelled by list functions; the "
        "correspondence check compares them with the real calls on this run's inputs.  NOT modelled (added by /repo a06569b): the "
        "connectivity the exporter remembers per geometry (`_connectivity`, read from the file when absent) with its shortcut for a frame "
        "already in stored order, groupby(['e', 'n']).cumcount to tell the occurrences of a repeated (element, node) pair apart "
        "(collapsed elements) and groupby('node_id', dropna=False) in the NODE branch; the flag `forget_cache` and the oracle's "
        "`collapsed` scenario exercise them on the real code only",
        "valid mesh frame (the oracle's `frame_valid` / `valid_call`) = non-empty, distinct (element_id, node_id) pairs, "
        "columns x and y present and of a numeric dtype, ids within int32; its dimension is judged from the frame alone (3 iff "
        "a z column is not constant).  The guard `ValidMesh` of the Lean success theorems is weaker: ids within int32, "
        "non-empty only when there is a z column, coordinate columns present and not of object dtype, every element's node "
        "count a type of the frame's own dimension; distinct pairs are a separate hypothesis of find_own_row, "
        "roundtrip_element_nodal_row_found, roundtrip_element_nodal_variable_same_frame, addVariable_succeeds (location 6: of the "
        "frame the geometry was exported from) and addVariable_succeeds_of_target (location 6: of the variable's frame); "
        "roundtrip_element_nodal_variable still carries the hypothesis but its proof does not use it",
        "an add_variable that fails AFTER its argument checks (variable exists already, an ELEMENT_NODAL frame that is not made of whole "
        "elements of the geometry, a storage failure) may leave the (empty) state / geometry groups it created under /VMAP/VARIABLES; "
        "they hold no variable, are not compared and not reported.  This describes the MODEL; since /repo a06569b the code collects and "
        "checks what it is going to write BEFORE it creates a group, so in the code only a storage failure can still leave new empty groups.  A call refused by the argument checks (unknown geometry, no column "
        "names / location, ids outside int32) creates nothing (theorem refused_addVariable_creates_nothing)",
        "outside the model, judged by the oracle on files of their own: a mesh with a collapsed element (a node repeated in "
        "an element's connectivity; the keys are not distinct, pyLife's importer multiplies such rows) - MYVALUES must follow "
        "the stored connectivity; add_variable with something that is no mesh frame must raise VMAPExportError; a timing clause "
        "(an ELEMENT_NODAL export in stored order costs at most 4 x a NODE export of the same 1e5-row frame + 10 ms; it runs in ONE corpus "
        "case only, timing-element-nodal, is not generated, and its threshold is machine dependent: measured ratio 0.6 - 0.7 here); the "
        "exporter's in-memory note of the connectivity it wrote is cleared before some calls (it then reads the file)",
        "state between objects and calls: the calls of two or three exporters (files of their own, geometries of the same names) "
        "are interleaved and compared with each exporter running alone; every frame an importer hands out is changed in "
        "place before the next read and the reads are compared with those of fresh importers; reading must leave the file "
        "as it is; the VALUES and the INDEX (labels, order) of the frames and the members of the containers passed to the "
        "exporter must be unchanged after the call - renamed index levels or added columns of an argument change no later "
        "result, are outside the property and only counted (argument_changes_outside_the_property)",
        "not compared with the model (incidental): exception classes, the order and multiplicity of set members in the "
        "file, the row order of a nodal variable's datasets; names with '/' (HDF5 paths) and re-opening an existing file "
        "with VMAPExport (truncates) are outside the generator; NaN / fractional ids in a frame or a set and files whose MYCOORDINATES "
        "are malformed (neither N x 2 nor N x 3: refused by the importer since c4385c5) are outside both the generator and the model",
    ]

    def __init__(self):
        self.stats = {"cases": 0, "ops": {}, "export_errors": {}, "import_errors": {}, "frames": 0,
                      "mixed_type_frames": 0, "interleaved_frames": 0, "two_column_frames": 0,
                      "frames_with_ids_outside_int32": 0, "empty_frames": 0, "object_column_frames": 0,
                      "binary32_frames": 0, "coordinate_cells": 0, "coordinate_cells_not_binary32": 0,
                      "coordinate_cells_nan_or_inf": 0, "thin_or_tiny_3d_frames": 0, "empty_sets": 0,
                      "max_rows": 0, "argument_changes_outside_the_property": 0, "injected_trials": {}, "oracle_findings": {}, "set_containers": {},
                      "element_nodal_frames_in_another_row_order": 0, "element_nodal_frames_not_matching_geometry": 0,
                      "exhaustive_scope_types": "every supported element type alone and every pair of types of one "
                                                "dimension in one geometry (tiny_cases)"}
        self.exhaustive = False
        self._cache = {}
        self._counted = set()
        self._open = None

    # ---- generation
    def generate(self, rng, tier):
        cases = tiny_cases()
        n = 100 if tier == "quick" else 1400
        for _ in range(n):
            cases.append(gen_case(rng, tier))
        return cases

    # ---- correspondence
    def model_lines(self, case):
        return [encode(case)]

    def _run(self, case, count=False):
        key = json.dumps(case, sort_keys=True)
        if key not in self._cache:
            self._cache[key] = Run(case).run()
        if count and key not in self._counted:      # the statistics describe the cases of the correspondence pass, each once
            self._counted.add(key)
            self._count(case, self._cache[key])
        return self._cache[key]

    def _count(self, case, res):
        st = self.stats
        st["cases"] += 1
        for fr in case["frames"]:
            st["frames"] += 1
            sizes = element_sizes(fr)
            st["mixed_type_frames"] += len(set(sizes.values())) > 1
            st["interleaved_frames"] += not contiguous(fr)
            st["two_column_frames"] += "z" not in fr["cols"]
            st["frames_with_ids_outside_int32"] += not frame_ids_fit(fr)
            st["empty_frames"] += not fr["rows"]
            st["object_column_frames"] += bool(fr.get("obj"))
            st["binary32_frames"] += bool(fr.get("f32"))
            st["max_rows"] = max(st["max_rows"], len(fr["rows"]))
            idx = [fr["cols"].index(c) for c in ("x", "y", "z") if c in fr["cols"]]
            zs = []
            for r in fr["rows"]:
                for i in idx:
                    v = r[2][i]
                    st["coordinate_cells"] += 1
                    if v != v or v in (float("inf"), float("-inf")):
                        st["coordinate_cells_nan_or_inf"] += 1
                    elif float(np.float32(v)) != v:
                        st["coordinate_cells_not_binary32"] += 1
                if "z" in fr["cols"]:
                    zs.append(r[2][fr["cols"].index("z")])
            fin = [z for z in zs if z == z and abs(z) != float("inf")]
            if fin and own_dim(fr) == 3 and np.allclose(fin, fin[0]):
                st["thin_or_tiny_3d_frames"] += 1
        for op, name in zip([o for o in case["ops"] if o["op"] in ("geom", "var", "set", "other")], res.info):
            if name is not None:
                k = op["op"] + ":" + name
                st["export_errors"][k] = st["export_errors"].get(k, 0) + 1
        for op in case["ops"]:
            st["ops"][op["op"]] = st["ops"].get(op["op"], 0) + 1
            if op["op"] == "set" and not op["ids"]:
                st["empty_sets"] += 1
            if op["op"] == "set":
                c = op.get("container", "index")
                st["set_containers"][c] = st["set_containers"].get(c, 0) + 1
            if op["op"] == "var" and resolved_loc(op) == 6:
                gi = next((o["frame"] for o in case["ops"] if o["op"] == "geom" and o["name"] == op["geom"]), None)
                if gi is not None:
                    v, g = case["frames"][op["frame"]], case["frames"][gi]
                    if not en_valid(v, g):
                        st["element_nodal_frames_not_matching_geometry"] += 1
                    elif not en_aligned(v, g):
                        st["element_nodal_frames_in_another_row_order"] += 1
        for n in res.import_errs:
            st["import_errors"][n] = st["import_errors"].get(n, 0) + 1
        st["argument_changes_outside_the_property"] += getattr(res, "cosmetic", 0)
        for k, v in res.injected.items():
            st["injected_trials"][k] = st["injected_trials"].get(k, 0) + v
        for _, klass in res.fails[:1]:
            st["oracle_findings"][klass] = st["oracle_findings"].get(klass, 0) + 1

    def impl_lines(self, case):
        return ["|".join(self._run(case, count=True).segs)]

    def _run_safe(self, case):
        alarm = getattr(core, "_with_alarm", None)          # per-case time limit of core._impl_safe, when core has one
        timeout = getattr(core, "_CaseTimeout", ())
        try:
            if alarm is not None:
                return alarm(core.CASE_TIMEOUT, lambda: self._run(case, count=True))
            return self._run(case, count=True)
        except timeout:
            return f"EXC does not return within {core.CASE_TIMEOUT} s"
        except Exception as e:
            if core._involves_implementation(e) or not core._harness_side(e):
                return f"EXC {type(e).__name__}: {str(e)[:200]}"
            raise

    def impl_all(self, cases):
        """Every case is executed once (in forked workers); the results are kept so that the oracle pass reads them."""
        out = []
        for c, r in zip(cases, core.pmap(self, "_run_safe", cases)):
            if isinstance(r, str):
                out.append([r])
            else:
                self._cache[json.dumps(c, sort_keys=True)] = r
                self._counted.add(json.dumps(c, sort_keys=True))
                out.append(["|".join(r.segs)])
        return out

    def _open_classes(self):
        if self._open is None:
            self._open = {e["class"] for e in core.load_known(self.ID) if e.get("status") == "open"}
        return self._open

    def compare(self, case, model_out, impl_out):
        if model_out == impl_out:
            return None
        a = model_out[0].split("|") if model_out else []
        b = impl_out[0].split("|") if impl_out else []
        # The model describes the repaired code (the eight /repo commits 5bedc75, 810bb8c, c3a1079, 6fd00f9, ba72c38, 0e66e4b,
        # 1c1257e, 57828f0; c4385c5 - import refuses malformed coordinates - has no model counterpart; a06569b - add_variable
        # checks what it is going to write - changed no model function: the inputs it repaired reach the model as the plain
        # call).  If one of the seven
        # mechanism classes were an OPEN known finding again, the segments from the first call on which that defect's
        # input mechanism acts would be the oracle's business (it reports the finding class) and model and code would have to
        # agree only up to that call.  All seven classes are fixed: the set below is empty, `stop` is None, every segment is compared.
        stop = mechanism_from(case, self._open_classes() & {K_OVERFLOW, K_STICKY, K_ROWORDER, K_CONTAINER, K_IDCOL, K_OBJSET, K_LEVEL})
        if stop is not None:
            a, b = a[:stop], b[:stop]
        for i, (x, y) in enumerate(zip(a, b)):
            if x != y:
                j = next((k for k in range(min(len(x), len(y))) if x[k] != y[k]), min(len(x), len(y)))
                lo = max(0, j - 60)
                op = case["ops"][i] if i < len(case["ops"]) else None
                return (f"op {i} {json.dumps(op)[:200]}: model=…{x[lo:j + 120]!r} impl=…{y[lo:j + 120]!r}")
        if len(a) != len(b):
            return f"segments {len(a)} vs {len(b)}"
        return None

    # ---- oracle
    def oracle(self, case):
        for desc, klass in self._run(case).fails:
            if not self.known(klass, desc):
                return (desc, klass)
        return None

    def nontrivial(self, case, model_out):
        if not model_out:
            return None
        segs = model_out[0].split("|")
        ok_geom = any(op["op"] == "geom" and s.startswith("ok") for op, s in zip(case["ops"], segs))
        has_frame = any(op["op"] == "import" and "cols=" in s for op, s in zip(case["ops"], segs))
        return json.dumps(case, sort_keys=True) if ok_geom and has_frame else None

    # ---- shrinking
    def shrink(self, case, still_fails):
        cur = case
        changed = True
        rounds = 0
        while changed and rounds < 6:
            changed = False
            rounds += 1
            # drop operations
            i = len(cur["ops"]) - 1
            while i >= 0:
                cand = {"frames": cur["frames"], "ops": cur["ops"][:i] + cur["ops"][i + 1:]}
                if cand["ops"] and still_fails(cand):
                    cur = cand
                    changed = True
                i -= 1
            # drop injected trials
            for i, op in enumerate(cur["ops"]):
                if op.get("inject"):
                    ops = list(cur["ops"])
                    ops[i] = {k: v for k, v in op.items() if k != "inject"}
                    cand = {"frames": cur["frames"], "ops": ops}
                    if still_fails(cand):
                        cur = cand
                        changed = True
            # drop whole elements
            for fi, fr in enumerate(cur["frames"]):
                for e in sorted({r[0] for r in fr["rows"]}):
                    rows = [r for r in fr["rows"] if r[0] != e]
                    if not rows:
                        continue
                    frames = list(cur["frames"])
                    frames[fi] = dict(fr, rows=rows)
                    cand = {"frames": frames, "ops": cur["ops"]}
                    try:
                        if still_fails(cand):
                            cur = cand
                            fr = frames[fi]
                            changed = True
                    except Exception:
                        pass
        # drop the frames no operation refers to
        used = sorted({op["frame"] for op in cur["ops"] if "frame" in op})
        if len(used) < len(cur["frames"]):
            remap = {old: new for new, old in enumerate(used)}
            cand = {"frames": [cur["frames"][i] for i in used],
                    "ops": [dict(op, frame=remap[op["frame"]]) if "frame" in op else op for op in cur["ops"]]}
            try:
                if still_fails(cand):
                    cur = cand
            except Exception:
                pass
        return cur
