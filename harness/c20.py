"""C20: VMAP export followed by import returns the same mesh and fields; reading is repeatable; filtering by a
stored set returns its members; a failed export leaves no partial geometry or variable.

Correspondence: the Lean model `Model/Vmap.lean` (driver op `vmap …`, an abstract file + exporter/importer
state machines) against the real `VMAPExport` / `VMAPImport` working on temporary HDF5 files: after every
exporter call the content of /VMAP/GEOMETRY and /VMAP/VARIABLES is read back with h5py and compared with the
model's file, every import chain's frame is compared cell by cell (bit patterns).
Oracle: the property's own relations evaluated on the real code with expectations computed directly from
the exported frames (independent of the Lean model)."""
import json
import math
import os
import shutil
import tempfile

import numpy as np
import pandas as pd
import h5py

from . import core
from .core import Prop, f2h

SOURCES = [
    "src/pylife/vmap/vmap_export.py",
    "src/pylife/vmap/vmap_import.py",
    "src/pylife/vmap/vmap_structures.py",
]

ELEMENT_TYPES = {(2, 3): 0, (2, 6): 1, (2, 4): 2, (2, 8): 3, (3, 4): 4, (3, 10): 5, (3, 6): 6, (3, 15): 7,
                 (3, 8): 8, (3, 20): 9}
INT32_MIN, INT32_MAX = -2 ** 31, 2 ** 31 - 1

_MOD = {}


def mods():
    if not _MOD:
        from pylife.vmap import VMAPExport, VMAPImport
        from pylife.vmap import vmap_structures
        _MOD.update(exp=VMAPExport, imp=VMAPImport, loc=vmap_structures.VariableLocations,
                    table=vmap_structures.column_names)
    return _MOD


# ------------------------------------------------------------------ canonical text
def cell(x):
    x = float(x)
    return "nan" if x != x else f2h(x)


def err_name(e):
    n = type(e).__name__
    return n


def make_frame(fr):
    rows = fr["rows"]
    idx = pd.MultiIndex.from_arrays([np.asarray([r[0] for r in rows], dtype=np.int64),
                                     np.asarray([r[1] for r in rows], dtype=np.int64)],
                                    names=["element_id", "node_id"])
    data = np.asarray([r[2] for r in rows], dtype=float).reshape(len(rows), len(fr["cols"]))
    return pd.DataFrame(data, index=idx, columns=list(fr["cols"]))


def decode(x):
    return x.decode("utf-8") if isinstance(x, bytes) else str(x)


def snapshot(fn):
    """Structured content of /VMAP/GEOMETRY and /VMAP/VARIABLES."""
    snap = {"geoms": {}, "groups": {}, "vars": {}}
    with h5py.File(fn, "r") as f:
        for name, g in f["VMAP/GEOMETRY"].items():
            d = {"pts": [], "nc": 3, "xyz": [], "els": [], "sets": [], "partial": []}
            pts = g.get("POINTS")
            if pts is not None and "MYIDENTIFIERS" in pts:
                d["pts"] = [int(x) for x in pts["MYIDENTIFIERS"][:, 0]]
            else:
                d["partial"].append("no-point-ids")
            if pts is not None and "MYCOORDINATES" in pts:
                c = pts["MYCOORDINATES"][()]
                d["nc"] = int(c.shape[1])
                d["xyz"] = [[cell(v) for v in row] for row in c]
            else:
                d["partial"].append("no-coordinates")
            els = g.get("ELEMENTS")
            if els is not None and "MYELEMENTS" in els:
                for rec in els["MYELEMENTS"][:, 0]:
                    d["els"].append((int(rec["myIdentifier"]), int(rec["myElementType"]),
                                     [int(n) for n in rec["myConnectivity"]]))
            else:
                d["partial"].append("no-elements")
            sets = g.get("GEOMETRYSETS")
            if sets is not None:
                for sname in sorted(sets.keys()):
                    s = sets[sname]
                    d["sets"].append((int(s.attrs["MYSETTYPE"]), decode(s.attrs["MYSETNAME"]),
                                      [int(x) for x in s["MYGEOMETRYSETDATA"][()].flatten()]))
            snap["geoms"][name] = d
        for st, sg in f["VMAP/VARIABLES"].items():
            for gn, gg in sg.items():
                snap["groups"][(st, gn)] = int(gg.attrs["MYSIZE"])
                for vn, vg in gg.items():
                    v = {"loc": int(vg.attrs["MYLOCATION"]), "ncols": int(vg.attrs["MYDIMENSION"]),
                         "ids": None, "values": None}
                    if "MYGEOMETRYIDS" in vg:
                        v["ids"] = [int(x) for x in vg["MYGEOMETRYIDS"][:, 0]]
                    if "MYVALUES" in vg:
                        v["values"] = [[cell(x) for x in row] for row in vg["MYVALUES"][()]]
                    snap["vars"][(st, gn, vn)] = v
    return snap


def show_snapshot(snap):
    out = ["G"]
    for name in sorted(snap["geoms"]):
        d = snap["geoms"][name]
        els = ",".join(f"{e}:{t}:" + ".".join(str(n) for n in conn) for e, t, conn in d["els"])
        sets = ",".join(f"{k}:{n}:" + ".".join(str(i) for i in ids) for k, n, ids in d["sets"])
        out.append(f"[{name}:pts={','.join(str(i) for i in d['pts'])};nc={d['nc']};xyz="
                   + "/".join(",".join(r) for r in d["xyz"]) + f";els={els};sets={sets}"
                   + "".join(";" + p for p in d["partial"]) + "]")
    out.append("S")
    for (st, gn) in sorted(snap["groups"], key=lambda p: p[0] + "/" + p[1]):
        seg = f"[{st}/{gn}:size={snap['groups'][(st, gn)]}"
        for key in sorted(k for k in snap["vars"] if k[0] == st and k[1] == gn):
            v = snap["vars"][key]
            ids = "missing" if v["ids"] is None else ",".join(str(i) for i in v["ids"])
            vals = "missing" if v["values"] is None else "/".join(",".join(r) for r in v["values"])
            seg += f";{key[2]}:{v['loc']}:{v['ncols']}:{ids}:{vals}"
        out.append(seg + "]")
    return "".join(out)


def show_frame(df):
    rows = []
    vals = df.to_numpy(dtype=float) if df.shape[1] else np.empty((len(df), 0))
    for k, r in zip(df.index, vals):
        rows.append(f"{int(k[0])}:{int(k[1])}:" + ",".join(cell(v) for v in r))
    return "cols=" + ",".join(str(c) for c in df.columns) + ";rows=" + ";".join(rows)


# ------------------------------------------------------------------ protocol line
def S(x):
    return "s:" + x


def opt(x):
    return "-" if x is None else S(x)


def cols_tok(c):
    return ["-"] if c is None else [str(len(c))] + [S(x) for x in c]


def encode(case):
    t = ["vmap", str(len(case["frames"]))]
    for fr in case["frames"]:
        t.append(str(len(fr["cols"])))
        t += [S(c) for c in fr["cols"]]
        t.append(str(len(fr["rows"])))
        for e, n, vals in fr["rows"]:
            t += [str(e), str(n)] + [f2h(v) for v in vals]
    t.append(str(len(case["ops"])))
    for op in case["ops"]:
        k = op["op"]
        if k == "geom":
            t += ["G", S(op["name"]), str(op["frame"])]
        elif k == "var":
            t += ["V", S(op["state"]), S(op["geom"]), S(op["var"]), str(op["frame"])] + cols_tok(op.get("cols"))
            t.append("-" if op.get("loc") is None else str(op["loc"]))
        elif k == "set":
            t += ["S", str(op["kind"]), S(op["geom"]), str(len(op["ids"]))] + [str(i) for i in op["ids"]]
            name = op.get("name")
            ok = name is None or isinstance(name, str)
            t += [str(op["frame"]), "1" if ok else "0", S(name if isinstance(name, str) else "")]
        elif k == "list":
            t += ["L", S(op["geom"])]
        elif k == "import":
            t += ["I", str(len(op["chains"]))]
            for ch in op["chains"]:
                t.append(str(len(ch)))
                for st in ch:
                    if st[0] == "mesh":
                        t += ["M", S(st[1]), opt(st[2])]
                    elif st[0] == "coords":
                        t.append("C")
                    elif st[0] == "var":
                        t += ["J", S(st[1]), opt(st[2])] + cols_tok(st[3])
                    elif st[0] == "fn":
                        t += ["N", S(st[1])]
                    elif st[0] == "fe":
                        t += ["E", S(st[1])]
    return " ".join(t)


# ------------------------------------------------------------------ running the real code
def location_arg(loc):
    if loc is None:
        return None
    L = mods()["loc"]
    for m in L:
        if m.value == loc:
            return m
    return loc       # not a VariableLocations member


def apply_export(ex, op, frames):
    k = op["op"]
    if k == "geom":
        ex.add_geometry(op["name"], frames[op["frame"]])
    elif k == "var":
        ex.add_variable(op["state"], op["geom"], op["var"], frames[op["frame"]],
                        column_names=None if op.get("cols") is None else list(op["cols"]),
                        location=location_arg(op.get("loc")))
    elif k == "set":
        name = op.get("name")
        fn = ex.add_node_set if op["kind"] == 0 else ex.add_element_set
        fn(op["geom"], pd.Index(op["ids"], dtype=np.int64), frames[op["frame"]], name)


def apply_import(im, st):
    if st[0] == "mesh":
        im.make_mesh(st[1], st[2])
    elif st[0] == "coords":
        im.join_coordinates()
    elif st[0] == "var":
        im.join_variable(st[1], st[2], None if st[3] is None else list(st[3]))
    elif st[0] == "fn":
        im.filter_node_set(st[1])
    elif st[0] == "fe":
        im.filter_element_set(st[1])


def run_chain(im, chain):
    for i, st in enumerate(chain):
        try:
            apply_import(im, st)
        except Exception as e:
            return f"err:{err_name(e)}@{i}"
    try:
        fr = im.to_frame()
    except Exception as e:
        return f"err:{err_name(e)}@{len(chain)}"
    return show_frame(fr)


class Importer:
    def __init__(self, fn):
        self.im = mods()["imp"](fn)

    def __enter__(self):
        return self.im

    def __exit__(self, *a):
        try:
            self.im._file.close()
        except Exception:
            pass


# ------------------------------------------------------------------ expectations (oracle side, plain Python)
def frame_valid(fr):
    """A valid mesh frame: non-empty, (element, node) pairs distinct, ids in the int32 range, x and y present."""
    rows = fr["rows"]
    if not rows or "x" not in fr["cols"] or "y" not in fr["cols"]:
        return False
    keys = [(r[0], r[1]) for r in rows]
    if len(set(keys)) != len(keys):
        return False
    return all(INT32_MIN <= i <= INT32_MAX for k in keys for i in k)


def column_consistent_per_node(fr, names):
    idx = [fr["cols"].index(n) for n in names]
    seen = {}
    for e, n, vals in fr["rows"]:
        v = tuple(cell(vals[i]) for i in idx)
        if seen.setdefault(n, v) != v:
            return False
    return True


def contiguous(fr):
    seen, last = set(), None
    for e, n, vals in fr["rows"]:
        if e != last:
            if e in seen:
                return False
            seen.add(e)
            last = e
    return True


def expected_rows(fr):
    return sorted(fr["rows"], key=lambda r: r[0])     # stable: node order inside an element is kept


def parse_frame(text):
    """cols, [(e, n, [cells])] of a frame segment; None for an error segment."""
    if not text.startswith("cols="):
        return None
    head, _, body = text.partition(";rows=")
    cols = [c for c in head[5:].split(",") if c]
    rows = []
    if body:
        for r in body.split(";"):
            e, n, cells = r.split(":")
            rows.append((int(e), int(n), [c for c in cells.split(",") if c]))
    return cols, rows


def run_case(case):
    """Executes the history on the real code.  Returns (segments for the correspondence, oracle verdict)."""
    M = mods()
    frames = [make_frame(fr) for fr in case["frames"]]
    tmp = tempfile.mkdtemp(prefix="c20_", dir=tempfile.gettempdir())
    fn = os.path.join(tmp, "case.vmap")
    segs = []
    verdict = None

    def fail(desc, klass):
        nonlocal verdict
        if verdict is None:
            verdict = (desc, klass)

    try:
        ex = M["exp"](fn)
        geom_frame = {}      # geometry name -> index of the frame it was exported from
        for pos, op in enumerate(case["ops"]):
            k = op["op"]
            if k in ("geom", "var", "set"):
                before = snapshot(fn)
                exc = None
                try:
                    apply_export(ex, op, frames)
                except Exception as e:
                    exc = e
                after = snapshot(fn)
                segs.append(("ok" if exc is None else "err:" + err_name(exc)) + f";dim={ex._dimension};"
                            + show_snapshot(after))
                fr = case["frames"][op["frame"]]
                if exc is not None:
                    # --- a failed export leaves no partial geometry or variable
                    if before["geoms"] != after["geoms"] or before["vars"] != after["vars"]:
                        changed = [g for g in after["geoms"] if after["geoms"][g] != before["geoms"].get(g)] + \
                                  [v for v in after["vars"] if after["vars"][v] != before["vars"].get(v)] + \
                                  [g for g in before["geoms"] if g not in after["geoms"]] + \
                                  [v for v in before["vars"] if v not in after["vars"]]
                        fail(f"op {pos} ({k}) raised {err_name(exc)} but the file changed: {changed[:3]}",
                             "partial-after-failure")
                    # --- a valid call must not fail
                    if k == "geom" and frame_valid(fr) and op["name"] not in before["geoms"]:
                        sizes = {}
                        for e, n, _ in fr["rows"]:
                            sizes[e] = sizes.get(e, 0) + 1
                        if all((ex._dimension, s) in ELEMENT_TYPES for s in sizes.values()):
                            klass = "mixed-element-types" if len(set(sizes.values())) > 1 else "export-raises"
                            fail(f"op {pos}: add_geometry of a valid frame (element sizes {sorted(set(sizes.values()))}, "
                                 f"dimension {ex._dimension}) raised {err_name(exc)}: {str(exc)[:120]}", klass)
                    continue
                # --- successful export: round trip
                if k == "geom":
                    geom_frame[op["name"]] = op["frame"]
                    if frame_valid(fr):
                        check_mesh_roundtrip(fn, op["name"], fr, pos, fail)
                elif k == "var":
                    if geom_frame.get(op["geom"]) == op["frame"] and frame_valid(fr):
                        check_variable_roundtrip(fn, op, fr, pos, fail)
                elif k == "set":
                    gi = geom_frame.get(op["geom"])
                    if gi is not None and frame_valid(case["frames"][gi]):
                        check_set(fn, op, case["frames"][gi], after, pos, fail)
            elif k == "list":
                with Importer(fn) as im:
                    try:
                        ns = list(im.node_sets(op["geom"]))
                        es = list(im.element_sets(op["geom"]))
                        segs.append("nsets=" + ",".join(ns) + ";esets=" + ",".join(es))
                    except Exception as e:
                        segs.append("err:" + err_name(e))
                        if isinstance(e, AttributeError):
                            fail(f"op {pos}: listing the sets of geometry {op['geom']!r} raised AttributeError: {e}",
                                 "set-name-decode")
            elif k == "import":
                with Importer(fn) as im:
                    res = [run_chain(im, ch) for ch in op["chains"]]
                segs.append("/".join(res))
                # --- reading is repeatable: a chain that starts with make_mesh gives the same frame on the
                # same importer object again and on a fresh one
                for ch, r in zip(op["chains"], res):
                    if ch and ch[0][0] == "mesh":
                        with Importer(fn) as im2:
                            r1 = run_chain(im2, ch)
                            r2 = run_chain(im2, ch)
                        if not (r == r1 == r2):
                            fail(f"op {pos}: chain {ch} is not repeatable: {r[:80]} / {r1[:80]} / {r2[:80]}",
                                 "not-repeatable")
        return segs, verdict
    finally:
        shutil.rmtree(tmp, ignore_errors=True)


def check_mesh_roundtrip(fn, name, fr, pos, fail):
    with Importer(fn) as im:
        try:
            got = show_frame(im.make_mesh(name).join_coordinates().to_frame())
        except Exception as e:
            nc = 3 if "z" in fr["cols"] else 2
            klass = "two-column-coordinates" if (nc == 2 and isinstance(e, ValueError)) else "roundtrip-mesh"
            fail(f"op {pos}: reading geometry {name!r} back raised {err_name(e)}: {str(e)[:120]}", klass)
            return
    cols, rows = parse_frame(got)
    names = ["x", "y", "z"] if "z" in fr["cols"] else ["x", "y"]
    idx = [fr["cols"].index(c) for c in names]
    exp = expected_rows(fr)
    if cols != names:
        fail(f"op {pos}: coordinate columns {cols} instead of {names}", "roundtrip-mesh")
        return
    if [(e, n) for e, n, _ in rows] != [(r[0], r[1]) for r in exp]:
        fail(f"op {pos}: rows of the imported mesh {[(e, n) for e, n, _ in rows][:8]} differ from the exported "
             f"rows ordered by element id {[(r[0], r[1]) for r in exp][:8]}", "roundtrip-mesh")
        return
    if column_consistent_per_node(fr, names):
        for (e, n, cells), r in zip(rows, exp):
            if cells != [cell(r[2][i]) for i in idx]:
                fail(f"op {pos}: coordinates of element {e} node {n} read back as {cells}, exported "
                     f"{[cell(r[2][i]) for i in idx]}", "roundtrip-mesh")
                return


def check_variable_roundtrip(fn, op, fr, pos, fail):
    M = mods()
    names = op.get("cols")
    if names is None:
        names = M["table"][op["var"]][0]
    loc = op.get("loc")
    if loc is None:
        loc = M["table"][op["var"]][1].value
    idx = [fr["cols"].index(c) for c in names]
    with Importer(fn) as im:
        try:
            got = show_frame(im.make_mesh(op["geom"], op["state"]).join_variable(op["var"], column_names=list(names))
                             .to_frame())
        except Exception as e:
            fail(f"op {pos}: reading variable {op['var']!r} back raised {err_name(e)}: {str(e)[:120]}",
                 "roundtrip-node-variable" if loc == 2 else "roundtrip-element-nodal")
            return
    cols, rows = parse_frame(got)
    exp = expected_rows(fr)
    if [(e, n) for e, n, _ in rows] != [(r[0], r[1]) for r in exp]:
        fail(f"op {pos}: rows differ after joining {op['var']!r}", "roundtrip-mesh")
        return
    if loc == 2:
        if not column_consistent_per_node(fr, names):
            return          # the frame is not a nodal field; nothing to compare
        for (e, n, cells), r in zip(rows, exp):
            if cells != [cell(r[2][i]) for i in idx]:
                fail(f"op {pos}: nodal variable {op['var']!r} at element {e} node {n}: read {cells}, exported "
                     f"{[cell(r[2][i]) for i in idx]}", "roundtrip-node-variable")
                return
    else:
        for (e, n, cells), r in zip(rows, exp):
            if cells != [cell(r[2][i]) for i in idx]:
                klass = "roundtrip-element-nodal" if contiguous(fr) else "element-nodal-interleaved"
                fail(f"op {pos}: element nodal variable {op['var']!r} at element {e} node {n}: read {cells}, "
                     f"exported {[cell(r[2][i]) for i in idx]}"
                     + ("" if contiguous(fr) else " (the rows of an element are not contiguous in the frame)"), klass)
                return


def check_set(fn, op, gfr, after, pos, fail):
    name = op.get("name") or ""
    kind = op["kind"]
    # the set that a lookup by this name must find: the last one stored under the name
    stored = [s for s in after["geoms"][op["geom"]]["sets"] if s[0] == kind and s[1] == name]
    if not stored or stored[-1][2] != list(op["ids"]):
        fail(f"op {pos}: set {name!r} is not stored as given", "filter-set")
        return
    members = set(op["ids"])
    with Importer(fn) as im:
        try:
            listed = list(im.node_sets(op["geom"]) if kind == 0 else im.element_sets(op["geom"]))
            ch = im.make_mesh(op["geom"])
            ch = ch.filter_node_set(name) if kind == 0 else ch.filter_element_set(name)
            got = show_frame(ch.to_frame())
        except Exception as e:
            klass = "set-name-decode" if isinstance(e, AttributeError) else "filter-set"
            fail(f"op {pos}: listing / filtering by the stored set {name!r} raised {err_name(e)}: {str(e)[:100]}", klass)
            return
    if name not in listed:
        fail(f"op {pos}: stored set {name!r} is not listed ({listed})", "filter-set")
        return
    _, rows = parse_frame(got)
    exp = [(r[0], r[1]) for r in expected_rows(gfr) if (r[1] if kind == 0 else r[0]) in members]
    if [(e, n) for e, n, _ in rows] != exp:
        fail(f"op {pos}: filtering by set {name!r} (members {sorted(members)[:8]}) returned rows "
             f"{[(e, n) for e, n, _ in rows][:8]}, expected {exp[:8]}", "filter-set")


# ------------------------------------------------------------------ generators
NODE_COUNTS = {2: [3, 4, 6, 8], 3: [4, 6, 8, 10, 15, 20]}
BAD_COUNTS = [1, 2, 5, 7, 9]
GEOMS = ["g", "h", "1", "part-2"]
STATES = ["STATE-1", "s2"]
SET_NAMES = ["ALL", "FIX", "a_b", ""]


def dy(rng):
    return rng.randint(-64, 64) / 8.0


def special(rng):
    return rng.choice([0.0, -0.0, 1e300, -1e-300, 5e-324, float("inf"), float("-inf"), 0.1, 1 / 3, 123456.789])


def id_pool(rng, n, mode):
    if mode == "dense":
        ids = list(range(1, n + 1))
    elif mode == "gaps":
        ids = rng.sample(range(1, 6 * n + 10), n)
    elif mode == "wide":
        ids = rng.sample(range(-50, 50), n) if n <= 100 else list(range(n))
    else:   # int32 borders
        pool = [INT32_MIN, INT32_MIN + 1, -1, 0, 1, 65536, INT32_MAX - 1, INT32_MAX] + rng.sample(range(2, 60000), n)
        ids = rng.sample(pool, n)
    rng.shuffle(ids)
    return ids


def gen_frame(rng, tier, want=None):
    """A mesh frame.  want: None (valid) | 'badcount' | 'noxy'.  (Frames with a repeated (element, node) pair
    are not meshes - pandas joins multiply their rows - and are outside the property's quantifier.)"""
    dim = rng.choice([2, 2, 3])
    big = tier == "thorough"
    nel = rng.choice([1, 2, 2, 3, 4, 6] + ([9, 14] if big else []))
    mixed = rng.random() < 0.45
    counts = NODE_COUNTS[dim]
    base = rng.choice(counts)
    sizes = [rng.choice(counts) if mixed else base for _ in range(nel)]
    if want == "badcount":
        sizes[rng.randrange(nel)] = rng.choice(BAD_COUNTS + ([10] if dim == 2 else [3]))
    nnodes = max(max(sizes), int(sum(sizes) * rng.choice([0.4, 0.7, 1.0])))
    mode = rng.choice(["dense", "gaps", "gaps", "wide", "int32"])
    nids = id_pool(rng, nnodes, mode)
    eids = id_pool(rng, nel, rng.choice(["dense", "gaps", "gaps", "wide", "int32"]))
    has_z = dim == 3 or rng.random() < 0.75
    coord = {}
    for n in nids:
        z = dy(rng) if dim == 3 else 0.0
        coord[n] = [dy(rng), dy(rng), z]
    if dim == 3 and rng.random() < 0.1:
        # a 3D element table with a flat z: the exporter then treats the mesh as 2D
        for n in nids:
            coord[n][2] = 1.5
    if dim == 2 and has_z and rng.random() < 0.2:
        zc = rng.choice([-0.0, 2.5, -7.0])
        for n in nids:
            coord[n][2] = zc
    # data columns: d* nodal fields (function of the node, may hold NaN), p* free NaN-free, q* free with specials
    named = rng.random() < 0.35
    ncol = [c for c in (["dx", "dy", "dz"] if named else ["d1", "d2"])]
    pcol = ["S11", "S22", "S33", "S12", "S13", "S23"] if named and rng.random() < 0.7 else ["p1", "p2"]
    qcol = ["q1"]
    nodal = {n: [rng.choice([dy(rng), dy(rng), special(rng), float("nan")]) if rng.random() < 0.25 else dy(rng)
                 for _ in ncol] for n in nids}
    cols = (["x", "y", "z"] if has_z else ["x", "y"]) + ncol + pcol + qcol
    if want == "noxy":
        cols[rng.randrange(2)] = "u"
    rows_by_el = []
    for e, s in zip(eids, sizes):
        ns = rng.sample(nids, s)
        rows_by_el.append([[e, n] for n in ns])
    order = rng.random()
    if order < 0.6:
        rows = [r for el in rows_by_el for r in el]                      # contiguous
    elif order < 0.8:
        rows = []                                                         # interleaved round robin
        pools = [list(el) for el in rows_by_el]
        while any(pools):
            for p in pools:
                if p:
                    rows.append(p.pop(0))
    else:
        pools = [list(el) for el in rows_by_el]                           # random interleaving, inner order kept
        rows = []
        while any(pools):
            p = rng.choice([p for p in pools if p])
            rows.append(p.pop(0))
    inconsistent = rng.random() < 0.12
    out = []
    for e, n in rows:
        c = list(coord[n][:3 if has_z else 2])
        if inconsistent and rng.random() < 0.3:
            c[rng.randrange(2)] += 0.5             # x or y differs between the rows of one node
        vals = c + list(nodal[n]) + [dy(rng) if rng.random() < 0.9 else rng.choice([0.1, 1 / 3, 1e300, -0.0])
                                      for _ in pcol] \
            + [rng.choice([dy(rng), special(rng), float("nan")]) for _ in qcol]
        out.append([e, n, vals])
    return {"cols": cols, "rows": out}


def frame_info(fr):
    nodal = [c for c in fr["cols"] if c in ("dx", "dy", "dz", "d1", "d2")]
    free = [c for c in fr["cols"] if c in ("p1", "p2", "S11", "S22", "S33", "S12", "S13", "S23")]
    return nodal, free


def gen_chain(rng, geoms, states, vars_known, sets_known):
    """vars_known: list of (state, geom, var, cols); sets_known: list of (geom, kind, name)."""
    g = rng.choice(geoms + ["nogeo"]) if rng.random() < 0.08 or not geoms else rng.choice(geoms)
    st = rng.choice([None, None] + states + ["nostate"]) if rng.random() < 0.5 else (rng.choice(states) if states else None)
    ch = [["mesh", g, st]]
    steps = rng.randint(0, 4)
    for _ in range(steps):
        r = rng.random()
        cand = [v for v in vars_known if v[1] == g]
        if r < 0.3:
            ch.append(["coords"])
        elif r < 0.7 and cand:
            v = rng.choice(cand)
            stt = rng.choice([None, v[0], v[0], rng.choice(states + ["nostate"])])
            cols = list(v[3]) if v[3] is not None else None
            if cols is not None and rng.random() < 0.2:
                cols = [c + "_r" for c in cols]                          # renamed on import
            if cols is not None and rng.random() < 0.06:
                cols = cols + ["extra"]                                  # wrong length
            if rng.random() < 0.06:
                ch.append(["var", "NOVAR", stt, ["a"]])
            else:
                ch.append(["var", v[2], stt, cols])
        elif r < 0.9:
            cs = [s for s in sets_known if s[0] == g]
            if cs and rng.random() < 0.85:
                s = rng.choice(cs)
                ch.append(["fn" if s[1] == 0 else "fe", s[2]])
            else:
                ch.append([rng.choice(["fn", "fe"]), rng.choice(SET_NAMES + ["nope"])])
        else:
            ch.append(["var", rng.choice(["DISPLACEMENT", "UNKNOWN"]), None, None])
    return ch


def gen_case(rng, tier):
    nframes = rng.choice([1, 1, 2, 2, 3])
    frames = [gen_frame(rng, tier) for _ in range(nframes)]
    if rng.random() < 0.35:
        frames.append(gen_frame(rng, tier, rng.choice(["badcount", "badcount", "noxy"])))
    ops = []
    geoms, states, vars_known, sets_known = [], [], [], []
    geom_frame = {}
    nops = rng.randint(3, 9 if tier == "quick" else 14)
    for _ in range(nops):
        r = rng.random()
        if r < 0.25 or not geoms:
            name = rng.choice(GEOMS) if rng.random() < 0.8 else rng.choice(geoms or GEOMS)
            fi = rng.randrange(len(frames))
            ops.append({"op": "geom", "name": name, "frame": fi})
            if name not in geoms:
                geoms.append(name)             # may have failed; the generator only needs candidates
                geom_frame[name] = fi
        elif r < 0.55:
            g = rng.choice(geoms) if rng.random() < 0.9 else "nogeo"
            fi = geom_frame.get(g, 0) if rng.random() < 0.85 else rng.randrange(len(frames))
            nodal, free = frame_info(frames[fi])
            st = rng.choice(STATES)
            q = rng.random()
            if q < 0.12 and "dx" in frames[fi]["cols"]:
                op = {"op": "var", "state": st, "geom": g, "var": "DISPLACEMENT", "frame": fi, "cols": None, "loc": None}
            elif q < 0.24 and "S11" in frames[fi]["cols"]:
                op = {"op": "var", "state": st, "geom": g, "var": rng.choice(["STRESS_CAUCHY", "E"]), "frame": fi,
                      "cols": None if rng.random() < 0.5 else ["S11", "S22", "S33", "S12", "S13", "S23"], "loc": None}
            elif q < 0.30:
                # failing calls: unknown variable without columns / without location, bad location, missing column
                op = rng.choice([
                    {"op": "var", "state": st, "geom": g, "var": "UNKNOWN", "frame": fi, "cols": None, "loc": 2},
                    {"op": "var", "state": st, "geom": g, "var": "UNKNOWN", "frame": fi, "cols": nodal[:1] or ["x"], "loc": None},
                    {"op": "var", "state": st, "geom": g, "var": "V1", "frame": fi, "cols": nodal[:1] or ["x"], "loc": 4},
                    {"op": "var", "state": st, "geom": g, "var": "V2", "frame": fi, "cols": ["missing"], "loc": rng.choice([2, 6])},
                    {"op": "var", "state": st, "geom": g, "var": "V3", "frame": fi, "cols": (nodal[:1] or ["x"]) + ["missing"], "loc": 6},
                ])
            else:
                loc = rng.choice([2, 6, 6])
                pool = (nodal + ["x", "y"] + free) if loc == 2 else (free + nodal + ["q1", "x"])
                k = rng.randint(1, min(3, len(pool)))
                cols = rng.sample(pool, k)
                op = {"op": "var", "state": st, "geom": g, "var": rng.choice(["A", "B", "TEMP", "V1"]), "frame": fi,
                      "cols": cols, "loc": loc}
            ops.append(op)
            if st not in states:
                states.append(st)
            names = op["cols"]
            if names is None and op["var"] in ("DISPLACEMENT", "STRESS_CAUCHY", "E"):
                names = None
            vars_known.append((st, g, op["var"], names))
        elif r < 0.72:
            g = rng.choice(geoms) if rng.random() < 0.9 else "nogeo"
            fi = geom_frame.get(g, 0)
            kind = rng.choice([0, 1])
            pool = sorted({(row[1] if kind == 0 else row[0]) for row in frames[fi]["rows"]})
            ids = rng.sample(pool, rng.randint(1, len(pool)))
            if rng.random() < 0.15:
                ids = ids + [ids[0]]                                     # a repeated member
            q = rng.random()
            name = rng.choice(SET_NAMES)
            if q < 0.08:
                ids = ids + [max(pool) + 1000 if max(pool) < INT32_MAX - 2000 else min(pool) - 7]   # not a subset
            elif q < 0.14:
                name = 7                                                 # not a string
            elif q < 0.22:
                name = None
            ops.append({"op": "set", "kind": kind, "geom": g, "ids": ids, "frame": fi, "name": name})
            sets_known.append((g, kind, name if isinstance(name, str) else ""))
        elif r < 0.78:
            ops.append({"op": "list", "geom": rng.choice(geoms + ["nogeo"]) if rng.random() < 0.1 else rng.choice(geoms)})
        else:
            chains = [gen_chain(rng, geoms, states, vars_known, sets_known) for _ in range(rng.randint(1, 3))]
            if rng.random() < 0.3:
                chains.append(list(chains[0]))                           # the same read again on the same object
            if rng.random() < 0.15:
                chains.insert(0, [["coords"]])                           # no make_mesh yet
            ops.append({"op": "import", "chains": chains})
    # always end with a full read of every geometry
    chains = []
    for g in geoms:
        ch = [["mesh", g, None], ["coords"]]
        for v in vars_known:
            if v[1] == g and rng.random() < 0.7:
                ch.append(["var", v[2], v[0], None if v[3] is None else [f"{v[2]}_{v[0]}_{c}" for c in v[3]]])
        chains.append(ch)
    ops.append({"op": "import", "chains": chains})
    if geoms:
        ops.append({"op": "list", "geom": rng.choice(geoms)})
    return {"frames": frames, "ops": ops}


def tiny_cases():
    """Systematic small scope: every supported element type alone and every pair of types of one dimension
    in one geometry, with a nodal and an element nodal variable, a node set and an element set; contiguous
    and interleaved rows."""
    out = []
    for dim in (2, 3):
        counts = NODE_COUNTS[dim]
        pairs = [(a,) for a in counts] + [(a, b) for a in counts for b in counts if a < b]
        for sizes in pairs:
            for inter in (False, True):
                if inter and len(sizes) == 1:
                    sizes_ = (sizes[0], sizes[0])
                else:
                    sizes_ = sizes
                nn = max(sizes_) + 2
                rows_by_el = []
                for j, s in enumerate(sizes_):
                    e = 10 - 3 * j
                    rows_by_el.append([[e, ((j * 2 + i) % nn) * 2 + 1] for i in range(s)])
                rows = []
                if inter:
                    pools = [list(r) for r in rows_by_el]
                    while any(pools):
                        for p in pools:
                            if p:
                                rows.append(p.pop(0))
                else:
                    rows = [r for el in rows_by_el for r in el]
                fr_rows = []
                for i, (e, n) in enumerate(rows):
                    z = n * 0.5 if dim == 3 else 0.0
                    fr_rows.append([e, n, [n * 1.0, n * 0.25, z, n * 2.0, 100.0 * e + i]])
                fr = {"cols": ["x", "y", "z", "d1", "p1"], "rows": fr_rows}
                nodes = sorted({r[1] for r in rows})
                ops = [{"op": "geom", "name": "g", "frame": 0},
                       {"op": "var", "state": "s", "geom": "g", "var": "N", "frame": 0, "cols": ["d1"], "loc": 2},
                       {"op": "var", "state": "s", "geom": "g", "var": "EN", "frame": 0, "cols": ["p1", "d1"], "loc": 6},
                       {"op": "set", "kind": 0, "geom": "g", "ids": nodes[::2], "frame": 0, "name": "half"},
                       {"op": "set", "kind": 1, "geom": "g", "ids": [rows_by_el[-1][0][0]], "frame": 0, "name": "last"},
                       {"op": "list", "geom": "g"},
                       {"op": "import", "chains": [
                           [["mesh", "g", "s"], ["coords"], ["var", "N", None, ["n"]], ["var", "EN", None, ["a", "b"]]],
                           [["mesh", "g", None], ["fn", "half"], ["coords"]],
                           [["mesh", "g", "s"], ["fe", "last"], ["var", "EN", None, ["a", "b"]]]]}]
                out.append({"frames": [fr], "ops": ops})
    return out


# ------------------------------------------------------------------ the property
class C20(Prop):
    ID = "C20"
    SOURCES = SOURCES
    LEAN_MODULES = ["Proofs.C20"]
    THEOREMS = [
        "PylifeVerif.C20.roundtrip_mesh",
        "PylifeVerif.C20.roundtrip_coordinates",
        "PylifeVerif.C20.roundtrip_node_variable",
        "PylifeVerif.C20.roundtrip_element_nodal_variable",
        "PylifeVerif.C20.import_repeatable",
        "PylifeVerif.C20.filter_returns_set",
        "PylifeVerif.C20.filter_returns_element_set",
        "PylifeVerif.C20.first_row_is_own_row",
        "PylifeVerif.C20.exported_after_addGeometry",
        "PylifeVerif.C20.exported_persists_addGeometry",
        "PylifeVerif.C20.exported_persists_addVariable",
        "PylifeVerif.C20.exported_persists_addSet",
        "PylifeVerif.C20.failed_addGeometry_leaves_file_unchanged",
        "PylifeVerif.C20.failed_addVariable_leaves_no_partial_variable",
        "PylifeVerif.C20.failed_addSet_leaves_file_unchanged",
    ]
    PARTIAL = {}
    RULE = ("export ops on an abstract file (geometries: point ids ascending + first row per node, elements by id "
            "ascending with connectivity in frame order, type from (sticky dimension, node count); variables: NODE = "
            "first row per node, ELEMENT_NODAL = rows grouped by element id; sets appended) with the roll-back of "
            "the except-branches; import = mesh index from the connectivity, coordinates / variables joined by key, "
            "set filters; to_frame resets the session")
    ASSUMPTIONS = [
        "HDF5/h5py is modelled as a store that returns what was written (groups, datasets, attributes; binary64 "
        "cells bit for bit; ids in the int32 range the format stores - ids outside it are outside the theorems and "
        "the generator)",
        "pandas groupby (sorted distinct keys, rows of a group in frame order), groupby.first on frames whose nodal "
        "columns are NaN-free or constant per node, stable argsort, merge/join by key (left order kept) are "
        "modelled by list functions; the correspondence check compares them with the real calls on this run's inputs",
        "valid mesh frame = non-empty, distinct (element_id, node_id) pairs, columns x and y present; the "
        "exporter's sticky _dimension flag is modelled but is outside the property's statement",
        "a failing add_variable may leave the (empty) state / geometry groups it created under /VMAP/VARIABLES; "
        "they hold no variable and are modelled, not reported",
    ]

    def __init__(self):
        self.stats = {"cases": 0, "ops": {}, "export_errors": {}, "import_errors": {}, "frames": 0,
                      "mixed_type_frames": 0, "interleaved_frames": 0, "two_column_frames": 0,
                      "rows_max": 0, "oracle_findings": {}}
        self.exhaustive = False
        self._cache = {}

    # ---- generation
    def generate(self, rng, tier):
        cases = tiny_cases()
        self.exhaustive = True      # every single type and every pair of types per dimension (tiny_cases)
        n = 110 if tier == "quick" else 1500
        for _ in range(n):
            cases.append(gen_case(rng, tier))
        return cases

    # ---- correspondence
    def model_lines(self, case):
        return [encode(case)]

    def _run(self, case):
        key = json.dumps(case, sort_keys=True)
        if key not in self._cache:
            self._cache[key] = run_case(case)
            self._count(case, self._cache[key])
        return self._cache[key]

    def _count(self, case, res):
        st = self.stats
        st["cases"] += 1
        for fr in case["frames"]:
            st["frames"] += 1
            sizes = {}
            for e, n, _ in fr["rows"]:
                sizes[e] = sizes.get(e, 0) + 1
            st["mixed_type_frames"] += len(set(sizes.values())) > 1
            st["interleaved_frames"] += not contiguous(fr)
            st["two_column_frames"] += "z" not in fr["cols"]
            st["rows_max"] = max(st["rows_max"], len(fr["rows"]))
        for op, seg in zip(case["ops"], res[0]):
            st["ops"][op["op"]] = st["ops"].get(op["op"], 0) + 1
            if op["op"] in ("geom", "var", "set"):
                head = seg.split(";", 1)[0]
                if head != "ok":
                    k = op["op"] + ":" + head
                    st["export_errors"][k] = st["export_errors"].get(k, 0) + 1
            elif op["op"] == "import":
                for r in seg.split("/"):
                    if r.startswith("err:"):
                        k = r.split("@")[0]
                        st["import_errors"][k] = st["import_errors"].get(k, 0) + 1
        if res[1] is not None:
            st["oracle_findings"][res[1][1]] = st["oracle_findings"].get(res[1][1], 0) + 1

    def impl_lines(self, case):
        return ["|".join(self._run(case)[0])]

    def compare(self, case, model_out, impl_out):
        if model_out == impl_out:
            return None
        a = model_out[0].split("|") if model_out else []
        b = impl_out[0].split("|") if impl_out else []
        for i, (x, y) in enumerate(zip(a, b)):
            if x != y:
                j = next((k for k in range(min(len(x), len(y))) if x[k] != y[k]), min(len(x), len(y)))
                lo = max(0, j - 60)
                op = case["ops"][i] if i < len(case["ops"]) else None
                return (f"op {i} {json.dumps(op)[:200]}: model=…{x[lo:j + 120]!r} impl=…{y[lo:j + 120]!r}")
        return f"segments {len(a)} vs {len(b)}"

    # ---- oracle
    def oracle(self, case):
        return self._run(case)[1]

    def nontrivial(self, case, model_out):
        if not model_out:
            return None
        segs = model_out[0].split("|")
        ok_geom = any(op["op"] == "geom" and s.startswith("ok") for op, s in zip(case["ops"], segs))
        has_frame = any(op["op"] == "import" and "cols=" in s for op, s in zip(case["ops"], segs))
        return json.dumps(case, sort_keys=True) if ok_geom and has_frame else None

    # ---- shrinking
    def shrink(self, case, still_fails):
        cur = case
        changed = True
        rounds = 0
        while changed and rounds < 6:
            changed = False
            rounds += 1
            # drop operations
            i = len(cur["ops"]) - 1
            while i >= 0:
                cand = {"frames": cur["frames"], "ops": cur["ops"][:i] + cur["ops"][i + 1:]}
                if cand["ops"] and still_fails(cand):
                    cur = cand
                    changed = True
                i -= 1
            # drop whole elements / single data columns
            for fi, fr in enumerate(cur["frames"]):
                for e in sorted({r[0] for r in fr["rows"]}):
                    rows = [r for r in fr["rows"] if r[0] != e]
                    if not rows:
                        continue
                    frames = list(cur["frames"])
                    frames[fi] = {"cols": fr["cols"], "rows": rows}
                    cand = {"frames": frames, "ops": cur["ops"]}
                    try:
                        if still_fails(cand):
                            cur = cand
                            fr = frames[fi]
                            changed = True
                    except Exception:
                        pass
        return cur
