"""Rebuild `pylife.rainflow_ext` from /repo's current `extension.pyx` (the .so inside /repo/src is
never trusted: it is not rebuilt when the .pyx is edited) and inject it into sys.modules."""
import hashlib
import importlib.machinery
import importlib.util
import os
import shutil
import subprocess
import sys
import tempfile

from . import core

PYX = "src/pylife/stress/rainflow/extension.pyx"

SETUP = """
from setuptools import setup, Extension
from Cython.Build import cythonize
import numpy
ext = Extension(name='pylife.rainflow_ext', sources=['extension.pyx'],
                include_dirs=[numpy.get_include()], extra_compile_args=['-O3'])
setup(name='rfext', ext_modules=cythonize([ext], language_level=3, quiet=True))
"""


def build(log=print):
    pyx = os.path.join(core.REPO, PYX)
    h = hashlib.sha256(open(pyx, "rb").read() + SETUP.encode()).hexdigest()[:20]      # source + build recipe (-O3, as /repo/setup.py)
    cache = os.path.join(core.VERIF, ".cache", "ext", h)
    so = None
    if os.path.isdir(cache):
        for f in os.listdir(os.path.join(cache, "pylife")):
            if f.endswith(".so"):
                so = os.path.join(cache, "pylife", f)
    if so is None:
        os.makedirs(os.path.join(core.VERIF, ".cache"), exist_ok=True)
        tmp = tempfile.mkdtemp(prefix="extbuild-", dir=os.path.join(core.VERIF, ".cache"))
        try:
            shutil.copy(pyx, os.path.join(tmp, "extension.pyx"))
            with open(os.path.join(tmp, "setup.py"), "w") as f:
                f.write(SETUP)
            out = os.path.join(tmp, "out")
            p = subprocess.run([sys.executable, "setup.py", "-q", "build_ext", "--build-lib", out,
                                "--build-temp", os.path.join(tmp, "bt")],
                               cwd=tmp, capture_output=True, text=True, timeout=600)
            if p.returncode != 0:
                raise RuntimeError("extension.pyx does not build:\n" + (p.stdout + p.stderr)[-2000:])
            os.makedirs(os.path.dirname(cache), exist_ok=True)
            if os.path.isdir(cache):
                shutil.rmtree(cache)
            shutil.move(out, cache)
            for f in os.listdir(os.path.join(cache, "pylife")):
                if f.endswith(".so"):
                    so = os.path.join(cache, "pylife", f)
            log(f"rebuilt rainflow_ext from extension.pyx ({h})")
        finally:
            shutil.rmtree(tmp, ignore_errors=True)
    return so


def inject(log=print):
    """Must be called before `pylife.stress.rainflow` is imported."""
    assert "pylife.stress.rainflow" not in sys.modules, "inject() must run before pylife.stress.rainflow is imported"
    so = build(log)
    loader = importlib.machinery.ExtensionFileLoader("pylife.rainflow_ext", so)
    spec = importlib.util.spec_from_file_location("pylife.rainflow_ext", so, loader=loader)
    mod = importlib.util.module_from_spec(spec)
    loader.exec_module(mod)
    import pylife
    sys.modules["pylife.rainflow_ext"] = mod
    pylife.rainflow_ext = mod
    return so
