"""C10: FKM-nonlinear assessment (perform_fkm_nonlinear_assessment): batch independence with per-point load
maxima, insensitivity to non-reversal samples, monotonicity in load scale / roughness / failure probability,
N_10 <= N_50 <= N_90.

Correspondence: the Lean model lean/Model/Assessment.lean (ops `c10.*` of lean/Driver/Assessment.lean) is the
P_RAM pipeline end to end: parameter formulas -> binned look-up (the REAL look-up tables of the run are sent
to the driver) -> HCM (Model/HCM) -> recorder columns -> P_RAM -> DamageCalculatorPRAM / N_max_bearable; the P_RAJ
pipeline from the recorded hysteresis table on is harness/praj.py + Model/PRAJ.lean (case kind `praj`).
Oracle: the property's relations on the real code, P_RAM and P_RAJ.

Every run of the real code that happens ahead of the oracle (look-up tables for the model, construction of hot
spots, P_RAJ tables) is wrapped: an exception of the implementation becomes a failing case (`exc_verdict`), not an
infrastructure error."""
import contextlib
import copy
import io
import json
import math
import os
import pickle
import random
import warnings

import numpy as np
import pandas as pd

from .core import Prop, f2h, h2f, close, load_known, _involves_implementation, _harness_side
from . import praj, hcm

SOURCES = [
    "src/pylife/strength/fkm_nonlinear/assessment_nonlinear_standard.py",
    "src/pylife/strength/fkm_nonlinear/damage_calculator.py",
    "src/pylife/strength/fkm_nonlinear/parameter_calculations.py",
    "src/pylife/strength/fkm_nonlinear/constants.py",
    "src/pylife/strength/damage_parameter.py",
    "src/pylife/strength/fkm_load_distribution.py",
    "src/pylife/strength/woehler_fkm_nonlinear.py",
    "src/pylife/stress/rainflow/fkm_nonlinear.py",
    "src/pylife/stress/rainflow/recorders.py",
    "src/pylife/materiallaws/notch_approximation_law.py",
]

GROUPS = ["Steel", "SteelCast", "Al_wrought"]
RM = {"Steel": [400.0, 600.0, 900.0, 1200.0], "SteelCast": [400.0, 600.0, 800.0], "Al_wrought": [180.0, 250.0, 350.0, 480.0]}
PA_TABLE = [0.5, 2.3e-1, 1e-3, 7.2e-5, 1e-5, 1e-6]       # values that fkm_load_distribution._get_beta knows
PA_FREE = [0.4, 0.1, 0.05, 3e-4, 2e-6]                     # "any value in (0, 1) is possible"
NBINS = 100                                                # number_of_bins of the Binned law in the assessment

# tolerances of the oracle (relative).  Look-up tables are filled by a Newton iteration that is run vectorised over all
# points of a batch, so the tables of a point in a batch and alone differ in the last bits (which iteration of the whole
# vector stops the loop); lifetimes amplify this by 1/|d| (3 .. 6).  Measured on the unchanged tree (hundreds of batches of
# 2-12 points): <= 2e-12 (P_RAM), <= 4e-11 (P_RAJ); the largest values seen by a run are recorded in the evidence
# (distribution.max_rel_*).  Refined vs base sequences go through identical tables: the same bound is far on the safe side.
# The Seeger-Beste PRIMARY branch (stress -> strain of the first loading) is solved to rtol 1e-5 only; it enters the running
# strain extremes (TOL_LF = twice the solver's rtol) and, through the crack opening logic only, the P_RAJ lifetime.  TOL_LF is
# kept from before the repair b50f603: on that tree the values differed between the vectorised and the single solve (measured
# deviation then: up to 1.1e-6 of the largest strain seen in 1000 batch points).  Since b50f603 the Seeger-Beste solver is a
# per-element bisection (no scipy iteration, no dependence on the companion elements; stopping rule and end values corrected by
# 8e3c607).  TOL_LF has not been tightened after either commit and no separate measurement was made; every run records its largest
# deviation in distribution.max_rel_batch_LF (quick tier, seed 1, /repo 2da931b: 0.0).
TOL_RAM = 1e-8
TOL_RAJ = 1e-6
TOL_MONO = 1e-6
TOL_VERDICT = 1e-3
TOL_LF = 2e-5
# guards of the finding classes (see KNOWN_FINDINGS.jsonl): magnitudes observed on the unchanged tree, with head room
# mono-P_RAJ-{rough,pa,scale-classing}: increase of the lifetime with the documented default of 200 P_RAJ classes.  Observed in
# 1200 pairs: rough 21 of 414 (1 .. 20 %; 38 % seen for R_z 6.3 -> 250 in a thorough run), P_A 12 of 367 (7 .. 44 %; grows with the
# step of the parameter), load scale 1 of 419 (0.08 %)
CLASSING_MAX_REL = {"rough": 0.6, "pa": 0.6, "scale": 0.02}
CLASSING_FINE = 2000       # ... which has to vanish (to CLASSING_FINE_TOL) with this many classes
CLASSING_FINE_TOL = 0.03


def _mod():
    import pylife.strength.fkm_nonlinear.assessment_nonlinear_standard as A
    return A


_BETA = {}


def beta_of(pa):
    if pa not in _BETA:
        import pylife.strength.fkm_nonlinear.parameter_calculations as pc
        _BETA[pa] = float(pc.compute_beta(pa))
    return _BETA[pa]


# ---------------------------------------------------------------- building inputs for the real code
def make_params(par, G):
    d = {"MatGroupFKM": par["group"], "FinishingFKM": "none", "R_m": float(par["Rm"]), "P_A": float(par["PA"]),
         "P_L": par.get("PL", 50), "c": float(par.get("c", 1.0)), "A_sigma": float(par["Asigma"]), "A_ref": float(par.get("Aref", 500.0)),
         "G": G, "K_p": float(par["Kp"]), "max_load_independently_for_nodes": True}
    if par.get("krp") is not None:
        d["K_RP"] = float(par["krp"])
    else:
        d["R_z"] = float(par["Rz"])
    if par.get("sL") is not None:
        d["s_L"] = float(par["sL"])
    if par.get("LSDs") is not None:
        d["LSD_s"] = float(par["LSDs"])
    if par.get("nbinsJ") is not None:
        d["n_bins"] = int(par["nbinsJ"])
    return pd.Series(d)


def node_loads(L, cs, k, scale=1.0):
    return [float(l * cs[k]) / float(cs[0]) * scale for l in L]


# ---- layouts of a multi-point load sequence.  The Series has the index levels (load_step, node_id); which labels the
# nodes carry, whether the rows are ordered load step by load step or point by point, and which labels the load steps
# carry (the history is the ROW order, see harness/hcm.py) does not change what is described.
ID_KINDS = ["range", "offset", "gaps", "descending", "shuffled"]
ID_KINDS_ASC = ["range", "offset", "gaps"]
# load_step labels: every layout of harness/hcm.py except "descending".  The docstring of the assessment asks for consecutive
# labels from 0; the code accepts any labels.  Labels descending by one collide after the first-run shift (+1) with a label of the
# second run: until /repo commit 2dcaa8f FKMNonlinearRecorder._get_for_every_node inferred the number of points from runs of equal
# load_step labels and got twice the number (ValueError "operands could not be broadcast together" in .collective, e.g. loads
# [186, 263, -374, 235] x ratios 1 : 1.4 with labels 1000, 999, 998, 997).  Repaired by 2dcaa8f (filed under C05, whose generator and
# C04's use every layout incl. "descending"; witness corpus/C05/descending-labels-start-at-zero.json); C10 has not taken the layout
# into its generator yet: it COULD be generated now, nothing in the code stands against it any more.
STEP_KINDS = [k for k in hcm.LABELS if k not in ("descending", "countdown")]


def gen_ids(rng, kind, n):
    if kind == "range":
        return list(range(n))
    if kind == "offset":
        a = rng.choice([1, 1001, 14610])
        return [a + i for i in range(n)]
    ids = sorted(rng.sample(range(2, 90), n))
    if kind == "gaps":
        return ids
    if kind == "descending" or n < 3:
        return ids[::-1]
    while ids == sorted(ids) or ids == sorted(ids, reverse=True):      # shuffled: neither ascending nor descending
        rng.shuffle(ids)
    return ids


def gen_lay(rng, n, id_kinds=ID_KINDS):
    """a layout for a batch of n points"""
    kind = rng.choice(id_kinds)
    return {"ids": gen_ids(rng, kind, n), "idkind": kind, "rows": rng.choice(["step", "step", "point"]),
            "steps": rng.choice(STEP_KINDS)}


def ids_ascending(case):
    ids = (case.get("lay") or {}).get("ids")
    return ids is None or all(a < b for a, b in zip(ids, ids[1:]))


def make_sequence(L, cs, nodes, scale=1.0, as_batch=None, lay=None):
    """nodes: indices into cs.  One node -> plain Series (unless as_batch), else the (load_step, node_id) MultiIndex Series
    in the layout `lay` (node labels `ids` per position of cs, row order, load_step labels)."""
    if as_batch is None:
        as_batch = len(nodes) > 1
    if not as_batch:
        return pd.Series(node_loads(L, cs, nodes[0], scale))
    lay = lay or {}
    ids_all = lay.get("ids") or list(range(len(cs)))
    ids = [ids_all[k] for k in nodes]
    steps = hcm.load_step_labels(len(L), lay.get("steps") or "0..n-1")
    cols = [node_loads(L, cs, k, scale) for k in nodes]
    if lay.get("rows") == "point":
        order = [(i, j) for j in range(len(nodes)) for i in range(len(L))]
    else:
        order = [(i, j) for i in range(len(L)) for j in range(len(nodes))]
    idx = pd.MultiIndex.from_tuples([(steps[i], ids[j]) for i, j in order], names=["load_step", "node_id"])
    return pd.Series([cols[j][i] for i, j in order], index=idx)


def G_for(Gs, nodes, as_batch):
    if len(set(Gs)) == 1 or not as_batch:
        return float(Gs[nodes[0]])
    # the values of the index are irrelevant (docstring); use something that is not 0..n-1
    return pd.Series([float(Gs[k]) for k in nodes], index=pd.Index([7 + 3 * i for i in range(len(nodes))], name="node"))


def assess(par, L, cs, Gs, nodes, ram=True, raj=True, scale=1.0, as_batch=None, lay=None):
    if as_batch is None:
        as_batch = len(nodes) > 1
    A = _mod()
    seq = make_sequence(L, cs, nodes, scale, as_batch, lay)
    p = make_params(par, G_for(Gs, nodes, as_batch))
    if float(par["Kp"]) == 1.0:
        raj = False
    return run_assessment(p, seq, ram, raj)


def run_assessment(p, seq, ram=True, raj=True):
    """perform_fkm_nonlinear_assessment on the GIVEN argument objects"""
    A = _mod()
    with warnings.catch_warnings():
        warnings.simplefilter("ignore")
        with np.errstate(all="ignore"), contextlib.redirect_stdout(io.StringIO()):
            try:
                return A.perform_fkm_nonlinear_assessment(p, seq, calculate_P_RAM=ram, calculate_P_RAJ=raj)
            except RuntimeError as e:
                if "Failed to converge" in str(e):      # scipy.optimize.newton gave up (extended-Neuber tables, closure-stress Newton): solver behaviour (C06), not C10
                    raise SolverFailure(str(e))
                raise


# ---- argument integrity and state: the caller's objects after a call, results of repeated / interleaved calls
def _same_value(a, b):
    if type(a) is not type(b):
        return False
    if isinstance(a, pd.Series):
        return (a.dtype == b.dtype and a.name == b.name and a.index.equals(b.index) and list(a.index.names) == list(b.index.names)
                and a.index.dtype == b.index.dtype and a.to_numpy().tobytes() == b.to_numpy().tobytes())
    if isinstance(a, float):
        return a == b or (a != a and b != b)
    return bool(a == b)


def args_diff(p0, p, s0, s):
    """What a call did to the caller's argument objects (deep copies p0, s0 taken before): (changes, added keys).
    A change = the VALUE of a key that existed before the call differs / the key is gone, or the load sequence differs
    (values bit for bit, index, names, dtypes): that changes what a later assessment with the same objects computes.
    Keys ADDED to the parameter Series (the code adds the informational `notes` and the default of
    `max_load_independently_for_nodes`) are outside the property: they are only counted."""
    out = []
    k0, k1 = list(p0.index), list(p.index)
    added = [str(k) for k in k1 if k not in k0]
    for k in k0:
        if k not in k1:
            out.append(f"assessment_parameters: key {k!r} removed")
        elif not _same_value(p0[k], p[k]):
            out.append(f"assessment_parameters[{k!r}] changed from {str(p0[k])[:80]!r} to {str(p[k])[:80]!r}")
    if not (len(s) == len(s0) and s.dtype == s0.dtype and s.name == s0.name and list(s.index.names) == list(s0.index.names)
            and s.index.equals(s0.index) and s.index.nlevels == s0.index.nlevels
            and all(s.index.get_level_values(i).dtype == s0.index.get_level_values(i).dtype for i in range(s.index.nlevels))
            and s.to_numpy().tobytes() == s0.to_numpy().tobytes()):
        out.append(f"load_sequence changed (values / index / names / dtype): first values {s0.to_numpy()[:4].tolist()} -> {s.to_numpy()[:4].tolist()}")
    return out, added


def same_summary(a, b):
    """bit-for-bit equality of two summaries (NaN equals NaN)"""
    if isinstance(a, dict):
        return isinstance(b, dict) and a.keys() == b.keys() and all(same_summary(a[k], b[k]) for k in a)
    if isinstance(a, (list, tuple)):
        return isinstance(b, (list, tuple)) and len(a) == len(b) and all(same_summary(x, y) for x, y in zip(a, b))
    if isinstance(a, float) and isinstance(b, float):
        return a == b or (a != a and b != b)
    return a == b


def first_difference(a, b):
    for k in a:
        if not same_summary(a[k], b.get(k)):
            return f"{k}: {a[k]!r} vs {b.get(k)!r}"
    return "?"


def reuse_objects(case):
    """the argument objects of a `reuse` case, built ONCE: A = (parameters, load sequence, flags) of the case,
    B = the same with ONE thing varied (case["vary"])"""
    par, L, cs, G = case["par"], case["L"], case["cs"], case["G"]
    nn = len(cs)
    nodes = list(range(nn))
    parB, LB, GB, scaleB = dict(par), L, G, 1.0
    what, val = case["vary"]
    if what == "scale":
        scaleB = val
    elif what == "L":
        LB = val
    elif what == "G":
        GB = val
    else:
        parB.update(val)
    rajA = bool(case.get("raj", True)) and float(par["Kp"]) != 1.0
    rajB = bool(case.get("rajB", True)) and float(parB["Kp"]) != 1.0
    A = (make_params(par, float(G)), make_sequence(L, cs, nodes, 1.0, nn > 1, case.get("lay")), rajA)
    B = (make_params(parB, float(GB)), make_sequence(LB, cs, nodes, scaleB, nn > 1, case.get("lay")), rajB)
    return {"A": A, "B": B}


def reuse_child(case, first):
    """In THIS process: the calls `first`, other, `first` with the same argument objects each time (and, for first = A and a
    batch, every point alone with the SAME parameter object).  Returns summaries and what happened to the arguments."""
    objs = reuse_objects(case)
    snaps = {k: (copy.deepcopy(v[0]), v[1].copy(deep=True)) for k, v in objs.items()}
    nn = len(case["cs"])
    other = "B" if first == "A" else "A"
    out = {"res": [], "args": None, "alone": [], "added": []}
    try:
        for name in (first, other, first):
            p, seq, raj = objs[name]
            res = run_assessment(p, seq, True, raj)
            out["res"].append(summary(res, nn, raj=raj))
            d, added = args_diff(snaps[name][0], p, snaps[name][1], seq)
            out["added"] = sorted(set(out["added"]) | set(added))
            if d and out["args"] is None:
                out["args"] = f"after call {len(out['res'])} ({name}): " + "; ".join(d[:4])
        if first == "A" and nn > 1:
            p, _, raj = objs["A"]
            for k in range(nn):
                seqk = make_sequence(case["L"], case["cs"], [k], 1.0, k % 2 == 1, case.get("lay"))
                out["alone"].append(summary(run_assessment(p, seqk, True, raj), 1, raj=raj)[0])
    except SolverFailure:
        return {"solver": True}
    except Exception as e:
        try:
            return {"exc": exc_verdict(e)}
        except Exception as e2:
            return {"exc": (f"harness: {type(e2).__name__}: {str(e2)[:300]}", "harness-error")}
    return out


def fork_call(fn, *args):
    """run fn(*args) in a forked child of THIS process; returns (pid, read end of the pipe)"""
    r, w = os.pipe()
    pid = os.fork()
    if pid == 0:
        code = 0
        try:
            os.close(r)
            try:
                data = pickle.dumps(fn(*args))
            except BaseException as e:          # noqa: the child must not fall back into the parent's code
                data = pickle.dumps({"exc": (f"harness: {type(e).__name__}: {str(e)[:300]}", "harness-error")})
            with os.fdopen(w, "wb") as f:
                f.write(data)
        except BaseException:
            code = 1
        finally:
            os._exit(code)
    os.close(w)
    return pid, r


def fork_collect(pid, r):
    with os.fdopen(r, "rb") as f:
        data = f.read()
    os.waitpid(pid, 0)
    if not data:
        raise RuntimeError("harness: forked evaluation of a reuse case died")
    return pickle.loads(data)


def exc_verdict(e):
    """What an exception raised while the REAL code is evaluated means (the rule of core.Prop._oracle_safe, for the real-code
    runs that are made ahead of the oracle: look-up tables for the model, hot-spot construction, P_RAJ tables):
    (description, finding class), or the exception again when it is about the machinery itself."""
    if isinstance(e, (SolverFailure, praj.NewtonFailure)):
        raise e
    if _involves_implementation(e):
        return (f"the implementation raises {type(e).__name__}: {str(e)[:300]}", "implementation-raises")
    if _harness_side(e):
        raise e
    return (f"the implementation's result cannot be interpreted: {type(e).__name__}: {str(e)[:300]}", "unexpected-result")


def ctx_of(case):
    par, cs = case["par"], case["cs"]
    return (f"group={par['group']} R_m={par['Rm']} K_p={par['Kp']} P_A={par.get('PA')} R_z={par.get('Rz')} K_RP={par.get('krp')} A_sigma={par['Asigma']} "
            f"loads={case['L']} ratios={[c / cs[0] for c in cs]} G={case['G']} layout={case.get('lay')}")


def node_order_desc(case, msg):
    return (f"a batch whose node_id labels are not ascending ({(case.get('lay') or {}).get('ids')}) cannot be assessed, the binned look-up "
            f"refuses a load of one of its points: ValueError {msg} - the mechanism of the finding batch-node-order, fixed by /repo commit "
            f"64dfe3b (since then fkm_load_sequence.maximum_absolute_load keeps the nodes in the order of the load sequence; before, it "
            f"grouped and SORTED by node_id while the look-up tables are matched to the points by position); {ctx_of(case)}")


class NodeOrderDefect(Exception):
    """the look-up refuses a load because the tables were matched to the wrong points (finding batch-node-order, fixed by 64dfe3b)"""


def assess_batch(case, *args, **kw):
    """assess() for the batch of a case; the ValueError of the binned look-up for a batch whose node labels are not
    ascending is the recorded finding batch-node-order (fixed by /repo commit 64dfe3b)"""
    try:
        return assess(*args, lay=case.get("lay"), **kw)
    except ValueError as e:
        if "Binned class is initialized" in str(e) and len(case["cs"]) > 1 and not ids_ascending(case):
            raise NodeOrderDefect(str(e)[:160].replace("\n", " "))
        raise


class SolverFailure(Exception):
    pass


def vec(x, n):
    a = np.asarray(x).reshape(-1)
    if len(a) == 1 and n > 1:
        a = np.repeat(a, n)
    return [a[i] for i in range(n)]


def summary(res, n, raj=True):
    """per node: dict of the observed quantities"""
    out = [dict() for _ in range(n)]
    keys = ["P_RAM_lifetime_n_cycles", "P_RAM_is_life_infinite"]
    if raj and "P_RAJ_lifetime_n_cycles" in res:
        keys += ["P_RAJ_lifetime_n_cycles", "P_RAJ_is_life_infinite"]
    for key in keys:
        for i, v in enumerate(vec(res[key], n)):
            out[i][key] = bool(v) if "infinite" in key else float(v)
    for i, v in enumerate(vec(res["P_RAM_lifetime_n_times_load_sequence"], n)):
        out[i]["P_RAM_passes"] = float(v)
    # hystereses recorded in the first / second pass (the early-failure lifetime counts those of BOTH passes)
    run = res["P_RAM_collective"]["run_index"]
    for i in range(n):
        rk = run[run.index.get_level_values("assessment_point_index") == i]
        out[i]["P_RAM_n1"], out[i]["P_RAM_n2"] = int((rk == 1).sum()), int((rk == 2).sum())
    # margins of the infinite-life verdicts
    dc = res["P_RAM_damage_calculator"]
    pmax = vec(dc.P_RAM_max, n)
    lim = vec(res["P_RAM_woehler_curve"].fatigue_strength_limit, n)
    for i in range(n):
        out[i]["P_RAM_margin"] = abs(float(pmax[i]) / float(lim[i]) - 1.0)
    if "P_RAJ_damage_calculator" in res and raj:
        dj = res["P_RAJ_damage_calculator"]
        pmax = vec(dj.P_RAJ_max, n)
        lim = vec(res["P_RAJ_woehler_curve"].fatigue_strength_limit, n)
        for i in range(n):
            out[i]["P_RAJ_margin"] = abs(float(pmax[i]) / float(lim[i]) - 1.0)
    if raj and "P_RAJ_collective" in res:
        # running strain extremes of the load history (input of the crack opening logic), per hysteresis
        col = res["P_RAJ_collective"]
        for i in range(n):
            ck = col[col.index.get_level_values("assessment_point_index") == i]
            out[i]["LF"] = [float(v) for v in ck["epsilon_min_LF"].values] + [float(v) for v in ck["epsilon_max_LF"].values]
            out[i]["P_RAJ_vals"] = [float(v) for v in ck["P_RAJ"].values]      # damage parameter of every hysteresis
    for pre in ("P_RAM", "P_RAJ"):
        for q in ("N_10", "N_50", "N_90"):
            key = f"{pre}_lifetime_{q}"
            if key in res:
                for i, v in enumerate(vec(res[key], n)):
                    out[i][key] = float(v)
    return out


def relclose(a, b, tol):
    if a == b:
        return True
    if math.isinf(a) or math.isinf(b) or a != a or b != b:
        return (a != a) and (b != b)
    return abs(a - b) <= tol * max(abs(a), abs(b))


def reldiff(a, b):
    if a == b:
        return 0.0
    if math.isinf(a) or math.isinf(b) or a != a or b != b:
        return math.inf
    return abs(a - b) / max(abs(a), abs(b))


def le(a, b, tol):
    """a <= b up to tol (inf allowed)"""
    if a != a or b != b:
        return False
    if a <= b:
        return True
    if math.isinf(a):
        return False
    return a - b <= tol * max(abs(a), abs(b))


# ---------------------------------------------------------------- sequences
def on_inexact_edge(L):
    """some |value| or |difference| of the first point's loads lies exactly on a class edge i/100*max.  There the class
    found in double arithmetic depends on rounding (of the edge `i/100*max`, and of the other points' loads `l*c_k/c_0`
    and their differences).  Up to 3047e0d the code took the class of ALL points from the first point's float load while a
    point assessed alone uses its own: on such loads a point got neighbouring classes in a batch and alone (3-5 % of the
    lifetime; C07 finding binned-multi-first-point-class, fixed).  The oracle cases therefore INCLUDE such loads (a third of
    the batches consists of round loads that lie on class edges throughout).  The MODEL selects classes in exact
    arithmetic, so only the correspondence cases avoid them.  Exact in doubles for every point, and not counted:
    |value| = max, difference = 2*max, difference = max between 0 and +-max."""
    M = max(abs(v) for v in L)
    if M == 0:
        return True
    for v in set(abs(v) for v in L):
        if v and v != M and (NBINS * v) % M == 0:
            return True
    for a in set(L):
        for b in set(L):
            d = abs(a - b)
            if d == 0 or (NBINS * d) % M != 0:
                continue
            if d == 2 * M or (d == M and (a == 0 or b == 0)):
                continue
            return True
    return False


def gen_loads(rng, Rm, n, extreme=False, edges="any"):
    """edges: "avoid" (correspondence cases: the model selects classes in exact arithmetic), "any", or "force" (round
    loads: every value a multiple of 1/20 .. 1/100 of the largest one, i.e. exactly on class edges)"""
    for _ in range(200):
        frac = rng.uniform(0.25, 1.0) if not extreme else rng.uniform(2.0, 6.0)
        M = max(30, int(frac * Rm) + rng.randint(0, 6))
        if edges == "force":
            q = rng.choice([10, 20, 20, 50, 100])             # loads are multiples of M/q
            M = max(q, M // q * q)
            u = M // q
            L = [u * rng.randint(-q, q) for _ in range(n)]
            if rng.random() < 0.3:
                lv = [u * rng.randint(-q, q) for _ in range(3)] + [0]
                L = [rng.choice(lv) for _ in range(n)]
        else:
            style = rng.random()
            if style < 0.5:
                L = [rng.randint(-M, M) for _ in range(n)]
            elif style < 0.8:   # few levels: repeated values, plateaus, ties
                lv = [rng.randint(-M, M) for _ in range(3)] + [0]
                L = [rng.choice(lv) for _ in range(n)]
            else:               # mostly one-sided
                lo = rng.randint(-M // 4, M // 3)
                L = [rng.randint(lo, M) for _ in range(n)]
        i = rng.randrange(n)
        L[i] = rng.choice([M, -M])
        if len(set(L)) < 2:
            continue
        e = on_inexact_edge(L)
        if (edges == "avoid" and e) or (edges == "force" and not e):
            continue
        return L
    return [M, -M // 2 + 1, M // 3 + 1, -M + 1][:max(n, 2)]


def head_nonreversals(L):
    """values v for which `v :: L` has one sample more that is no reversal: v lies (weakly) between the first sample and
    BOTH its predecessors - the initial load 0 (the first pass starts at load 0) and the last sample (junction of the
    repetition).  A value between the last and the first sample only is a reversal of the first pass."""
    h, z = L[0], L[-1]
    if h * (h - z) <= 0:                       # 0 and the last sample lie on different sides of the first one (or one of them equals it)
        return [h]
    near = 0 if abs(h) <= abs(h - z) else z
    lo, hi = sorted((near, h))
    return list(range(lo, hi + 1))


def refine(rng, L):
    """insert samples that are no reversals: interior intermediate values, repeated values, (at the end) a value between the
    last and the first sample (not equal to the first unless equal to the last), and (in front) values between the first
    sample and both the initial load 0 and the last sample"""
    out = []
    for i, v in enumerate(L):
        out.append(v)
        if rng.random() < 0.3:
            out.append(v)                          # repeated value
        if i + 1 < len(L) and rng.random() < 0.5:
            lo, hi = sorted((v, L[i + 1]))
            vals = sorted(rng.randint(lo, hi) for _ in range(rng.randint(1, 3)))
            if L[i + 1] < v:
                vals.reverse()
            out.extend(vals)
    if rng.random() < 0.6:
        lo, hi = sorted((L[-1], L[0]))
        v = rng.randint(lo, hi)
        if v == L[0] and v != L[-1]:
            v = L[-1]
        out.append(v)
    if rng.random() < 0.5:
        # in front; with the (possibly appended) last sample of `out` as predecessor at the junction
        cand = head_nonreversals([L[0], out[-1]])
        vals = sorted((rng.choice(cand) for _ in range(rng.randint(1, 2))), key=lambda v: abs(v - L[0]), reverse=True)
        out = vals + out
    return out


def gen_par(rng, table_pa=False):
    g = rng.choice(GROUPS)
    par = {"group": g, "Rm": rng.choice(RM[g]), "Kp": rng.choice([1.5, 2.0, 2.5, 3.5]),
           "PA": rng.choice(PA_TABLE if table_pa or rng.random() < 0.6 else PA_FREE),
           "Asigma": rng.choice([50.0, 339.4, 500.0, 1500.0]), "Aref": 500.0}
    if rng.random() < 0.25:
        par["krp"] = rng.choice([1.0, 0.9, 0.75])
        par["Rz"] = None
    else:
        par["Rz"] = rng.choice([0.5, 1.0, 6.3, 25.0, 100.0, 250.0])
        par["krp"] = None
    return par


def gen_G(rng, n):
    if rng.random() < 0.5:
        return [rng.choice([0.0, 2 / 15, 0.5, 1.0, 4.0])] * n
    # large gradients make the fracture-mechanics support factor n_bm exceed its floor 1
    return [rng.choice([0.0, 0.05, 2 / 15, 0.2, 0.8, 1.5, 3.0, 8.0]) for _ in range(n)]


def gen_cs(rng, n):
    c0 = rng.choice([10, 20, 16])
    return [c0] + [rng.randint(c0 // 2, c0 + c0 // 2) for _ in range(n - 1)]


HOT_LADDER = [1.6, 2.2, 3.0, 4.0, 5.5, 7.5, 10.0, 14.0, 20.0]   # load ratios tried for a hot spot (relative to the ordinary point)


def hot_ratio(job):
    """Smallest ratio of HOT_LADDER at which the point (alone, P_RAM only) reaches the damage sum one within the two
    recorded passes (`lifetime_n_times_load_sequence == 0`), as an integer in units of 1/c0; None if there is none."""
    par, L, c0, G = job
    for r in HOT_LADDER:
        c = int(round(r * c0))
        try:
            res = assess(par, L, [c0, c], [G, G], [1], raj=False)
        except SolverFailure:
            return None
        if float(np.asarray(res["P_RAM_lifetime_n_times_load_sequence"]).reshape(-1)[0]) == 0.0:
            return c
    return None


def hot_ratio_safe(job):
    """hot_ratio for the generator: an exception of the implementation is carried into a case instead of ending the run"""
    try:
        return hot_ratio(job)
    except Exception as e:
        return ("exc",) + exc_verdict(e)


def _par_worker(args):
    lo, hi = args
    return lo, [_PAR["fn"](c) for c in _PAR["cases"][lo:hi]]


_PAR = {}


def par_map(fn, cases, procs):
    """[fn(c) for c in cases] over forked processes (the real assessments dominate the run time)"""
    if procs <= 1 or len(cases) < 3:
        return [fn(c) for c in cases]
    import multiprocessing
    _PAR["fn"], _PAR["cases"] = fn, cases
    step = max(1, len(cases) // (procs * 4))
    jobs = [(lo, min(lo + step, len(cases))) for lo in range(0, len(cases), step)]
    out = [None] * len(cases)
    with multiprocessing.get_context("fork").Pool(min(procs, len(jobs))) as pool:
        for lo, res in pool.imap_unordered(_par_worker, jobs):
            out[lo:lo + len(res)] = res
    return out


# ---------------------------------------------------------------- the property module
class C10(Prop):
    ID = "C10"
    SOURCES = SOURCES
    # Proofs.BridgeConstsAll sits on Proofs.BridgeC09, i.e. on the definitions TRANSLATED from the current source
    # (lean/Generated): this check regenerates them itself, like C09 - otherwise it would build against whatever the last
    # run of C09 (possibly against another tree) left there
    TRANSLATED = ["WoehlerFkmNonlinear", "FkmLoadDistribution", "FkmConstants"]

    def setup(self, log):
        from .c09 import C09
        C09.setup(self, log)
    LEAN_MODULES = ["Proofs.C10", "Proofs.PRAJ", "Proofs.BridgeConstsAll"]
    PARALLEL = 16
    THEOREMS = [
        "PylifeVerif.C10.assessment_batch_independent_PRAM",
        "PylifeVerif.C10.assessment_sample_insensitive",
        "PylifeVerif.C10.assessment_sample_insensitive_prepend",
        "PylifeVerif.C10.prepend_between_last_and_first_changes_records",
        "PylifeVerif.C10.assessment_batch_independent_PRAM_tables",
        "PylifeVerif.C04.hcm_prepend_nonreversal_code",
        "PylifeVerif.C10.assessment_batch_independent_PRAM_of_hcm_batch",
        "PylifeVerif.C10.assessment_sample_insensitive_of_hcm_insert",
        "PylifeVerif.C10.lifetime_antitone_in_curve_partial",
        "PylifeVerif.C10.lifetime_antitone_in_load_scale_partial",
        "PylifeVerif.C10.N10_le_N50_le_N90_partial",
        "PylifeVerif.C10.lifetime_antitone_in_roughness_partial",
        "PylifeVerif.C10.lifetime_antitone_in_Rz_partial",
        "PylifeVerif.C10.lifetime_antitone_in_PA_partial",
        "PylifeVerif.Assess.classQ_first_eq_own",
        "PylifeVerif.Assess.nCycles_antitone",
        "PylifeVerif.PRAJ.hystP_value",
        "PylifeVerif.PRAJ.hystP_nonneg_zero_iff",
        "PylifeVerif.PRAJ.stepRow_P",
        "PylifeVerif.PRAJ.praj_strictMono_continuous_in_range",
        "PylifeVerif.PRAJ.class_exists_unique",
        "PylifeVerif.PRAJ.classwise_damage_eq_hysteresiswise",
        "PylifeVerif.PRAJ.xbar_loop_closed_form",
        "PylifeVerif.PRAJ.praj_batch_independent_of_hcm_batch",
        "PylifeVerif.PRAJ.praj_batch_independent",
        "PylifeVerif.PRAJ.praj_batch_independent_tables",
        "PylifeVerif.PRAJ.praj_sample_insensitive",
        "PylifeVerif.PRAJ.N10_le_N50_le_N90_PRAJ_partial",
        # the whole material-constants table of the translated source = the model's table (used by the assessment for every material group)
        "PylifeVerif.Bridge.constants_eq",
        "PylifeVerif.Bridge.constants_keys_complete",
    ]
    # assessment_batch_independent_PRAM / assessment_sample_insensitive(_prepend) are unconditional (the HCM facts are
    # C05.hcm_batch_eq_single_code, C04.hcm_insert_nonreversal_interior_code, C04.hcm_append_nonreversal_code,
    # C04.hcm_prepend_nonreversal_code, all about twoPass = the code); the `_of_hcm_...` forms (same conclusion from the HCM
    # statements as hypotheses) are kept.  `..._tables`: the same with the table of a point BUILT from the maximum of its column
    # of the load sequence (batch) / of its own sequence (alone) instead of one table given for both sides.
    # PRAJ.xbarOld_depends_on_start (a numeric example about a variant that is not the code) is no longer counted.
    PARTIAL = {
        "PylifeVerif.PRAJ.N10_le_N50_le_N90_PRAJ_partial": "hypothesis 0 <= lifetime (needs f(j+1) >= f(j) for the classes j >= q, true only while the bracket of eq. 2.9-139 is positive)",
        "PylifeVerif.C10.lifetime_antitone_in_curve_partial": "hypothesis Regime: the lower curve does not fail within the two recorded passes, or the first pass recorded at most one hysteresis more than the second (early-failure lifetime counts hystereses of both passes, the regular one multiples of pass 2)",
        "PylifeVerif.C10.lifetime_antitone_in_load_scale_partial": "per-hysteresis step (P_RAM of every hysteresis non-decreasing in the load scale for the binned Masing law) is a hypothesis; Regime as above; the real code is covered by the oracle",
        "PylifeVerif.C10.N10_le_N50_le_N90_partial": "hypothesis: first-pass damage on the 50 % curve <= 1 (beyond it the code's (1-D1)/D2 is negative and not monotone)",
        "PylifeVerif.C10.lifetime_antitone_in_roughness_partial": "Regime as above; admissibility of both component curves assumed (P_D < P_Z, positive)",
        "PylifeVerif.C10.lifetime_antitone_in_Rz_partial": "as lifetime_antitone_in_roughness_partial, with K_R,P = kRP(R_z) (Assess.kRP_antitone_group): R_m,N,min <= 2 R_m and a non-negative base of the power (1 - a log10 R_z' log10(2 R_m / R_m,N,min)) for the rougher surface (beyond it the code computes NaN)",
        "PylifeVerif.C10.lifetime_antitone_in_PA_partial": "both assessments with P_A != 0.5 (statistical assessment on); the step from P_A = 0.5 is covered by the oracle; P_A > 0.5 vs 0.5 is false for the code (finding mono-pa-above-half); Regime as above",
    }
    RULE = ("case = one relation of the property evaluated with real assessments (perform_fkm_nonlinear_assessment, P_RAM and P_RAJ, per-point load maxima requested): "
            "corr = model vs code for a batch of 1-4 points and for one of its points alone (parameters, every hysteresis' P_RAM, verdict, early-failure index, lifetimes, N_10/50/90), and that point in the batch vs alone; "
            "batch = every point of a batch vs alone (plain Series or one-point two-level Series), incl. batches with a hot spot (a point constructed from its single-point result to reach the damage sum one within the two recorded passes) in first / middle / last position next to finite- and infinite-life points; "
            "batches come in every layout of the two-level index: node labels 0..n-1 / offset / ascending with gaps / descending / shuffled, rows ordered load step by load step or point by point, load_step labels 0..n-1 / 1..n / 100.. / steps of 10 / shuffled (the history is the row order); "
            "refine = non-reversal / repeated / appended / prepended samples (a prepended sample lies between the first sample and both the initial load 0 and the last sample); mono = load scale, roughness (R_z or K_R,P), P_A (blanket / normal / lognormal load safety, c != 1); n105090; reuse = state and aliasing: the argument objects of an assessment A (1-3 points) and of B (= A with ONE of R_m / group / P_A / K_p / roughness / A_sigma / G / load scale / load sequence of the same maximum varied) are built once and called A,B,A in one forked process and B,A,B in another (forked from the main process, which runs no assessment itself): same objects give the same result again, a result does not depend on what was assessed before (both orders), values of the caller's parameters and the load sequence are bit-for-bit unchanged, every point alone with the SAME parameter object = in the batch. "
            "3 material groups x 3-4 tensile strengths, sequences of 3-10 (14) integer loads up to 0.25-1.0 R_m (some 2-6 R_m) incl. round loads exactly on class edges (correspondence cases avoid inexact edges: the model selects classes in exact arithmetic), ratios 0.5-1.5, uniform / per-point G, P_A from the guideline table and free values; "
            "non-trivial = at least one hysteresis and a finite P_RAM value; distinct by (loads, ratios, material)")
    ASSUMPTIONS = [
        "the model Model/Assessment.lean covers the P_RAM pipeline end to end; the P_RAJ pipeline is modelled from the recorded hysteresis table on (Model/PRAJ.lean, case kind praj); what lies before the table on the P_RAJ side (Seeger-Beste look-up, HCM with that law) is C05/C06/C07 and, for C10, the direct oracle on the real code",
        "the look-up tables' VALUES (the Newton roots of the extended Neuber law at the class edges) are taken from the real run BY NODE LABEL and sent to the model; their construction is C06/C07; the model associates table k with point k (the behaviour since /repo commit 64dfe3b, which fixed the finding batch-node-order; the finding being fixed, the batch line of every batch is compared, also of a batch whose node labels are not ascending - only while that class had status open was the batch line of such a batch left out)",
        "class selection in the model compares exact rationals, the code compares doubles: correspondence cases avoid loads on class edges whose float value is inexact; the oracle cases (batch vs alone, refine, mono) do not - a third of the batches consists of round loads on class edges (audit C10-5: the batch dependence there is gone since 3047e0d, every point is looked up with its own load in its own table column)",
        "table values are scaled exactly by 2^100 to integers for Model/HCM; sums of table values are exact in the model and rounded in the code (agreement to 1e-9 relative is required)",
        "in the model of a batch the first point's stresses/strains that only steer min/max selections are evaluated with the assessed point's table (only their order matters; table values are positive); beyond the last class edge the model returns the last class value where the code raises (never reached for the point's own loads)",
        "beta = compute_beta(P_A) (the normal quantile since /repo commit 763ab65; a root search before) is taken from the real run (C09); loads of correspondence cases are integers with c = 1, P_L = 50 so that the scaled loads are exact",
        "scope of 'non-reversal sample' at the head of the sequence: the first pass starts at load 0, so a prepended sample is a non-reversal when it lies between the first sample and BOTH the initial load 0 and the last sample; a value between the last and the first sample only IS a reversal of the first pass and changes the first-pass hystereses (kernel-checked example C10.prepend_between_last_and_first_changes_records)",
        "the assessment adds the informational keys notes / max_load_independently_for_nodes to the caller's parameter Series (notes grows with every call); that is outside the property (it does not change any result) and only counted (distribution.argument_keys_added); a CHANGED value of an existing key, a removed key or any change of the load sequence is a failure (class args-mutated): it changes what the next assessment with the same objects computes",
        "a load_step label is a label: the history is the row order of the Series (the docstring asks for consecutive labels from 0; increasing labels with other starts / steps and one shuffled labelling are accepted by the code and generated; labels DESCENDING by one are not generated by C10: the first run shifts its labels by +1, they then collide with labels of the second run, and until /repo commit 2dcaa8f FKMNonlinearRecorder._get_for_every_node, which inferred the number of points from runs of equal labels, raised ValueError - repaired by 2dcaa8f (filed under C05; C04 / C05 generate that layout), so the layout could be generated here as well; C10's generator has not been extended)",
        "oracle tolerances: batch vs single / refined vs base lifetimes 1e-8 (P_RAM) and 1e-6 (P_RAJ) relative (measured noise of the vectorised Newton tables: lifetimes <= 6e-12 (P_RAM) and <= 4e-11 (P_RAJ), recorded per run in distribution.max_rel_*); monotonicity 1e-6; verdicts compared only when P_max is more than 1e-3 away from the endurance value; running strain extremes batch vs single to 2e-5 of the largest strain of the history (the Seeger-Beste primary branch is solved to rtol 1e-5; tolerance kept from before the repair b50f603, measured deviation then 1.1e-6; since b50f603 the Seeger-Beste solver is a per-element bisection without scipy and without dependence on companion elements, and since 8e3c607 it stops at 5 % of tol + rtol |root| and interpolates with the analytic end values: a batch and a single run solve the same element the same way.  The tolerance 2e-5 has NOT been tightened after either commit; no separate measurement campaign was made, but every run records its largest deviation in distribution.max_rel_batch_LF (quick tier, seed 1, /repo 2da931b: 0.0)); scipy 'Failed to converge' (scipy.optimize.newton: the extended-Neuber tables and the closure-stress Newton iteration of the P_RAJ damage parameter; no longer the Seeger-Beste tables) is counted, not judged",
        "finding classes are guarded in the oracle: batch-node-order (fixed by /repo commit 64dfe3b, so a failure of this class is reported, not tolerated) only for a batch whose node labels are not ascending; the open classes: mono-P_RAM-early-failure-count only across the early-failure boundary with n1 >= n2 + 2 first/second-pass hystereses and an increase <= n1 - n2 cycles (exactly the complement of the theorems' hypothesis Regime); mono-pa-above-half only for P_A > 0.5 compared with exactly 0.5; mono-P_RAJ-rough / -pa only with fewer than 1000 P_RAJ classes, an increase <= 60 % that vanishes (<= 3 %) when the same pair is re-run with 2000 classes; mono-P_RAJ-scale only when the P_RAJ value of one of the (same) hystereses is smaller in the scaled run (crack closure); mono-P_RAJ-crack-opening-state only for roughness / P_A pairs with unchanged loads when the P_RAJ value of one of the (same) hystereses is smaller with the lower curve; mono-P_RAJ-scale-classing like -rough with an increase <= 2 %; anything else of the same relation is reported under another class",
    ]

    def __init__(self):
        self.stats = {"kinds": {}, "groups": {}, "assessments": 0, "nodes": {}, "seq_len": {}, "memory3_rows": 0,
                      "early_failure": 0, "infinite_ram": 0, "infinite_raj": 0, "finite_ram": 0, "finite_raj": 0,
                      "hystereses": 0, "per_point_G": 0, "solver_failures": 0,
                      "hot_not_found": 0, "hot_batches": 0, "early_failure_points_in_batches": 0,
                      "layout_ids": {}, "layout_rows": {}, "layout_steps": {}, "edge_load_cases": 0, "alone_as_one_point_batch": 0,
                      "corr_batch_line_suspended_open_finding": 0, "prepended_samples": 0,
                      "max_rel_batch_P_RAM": 0.0, "max_rel_batch_P_RAJ": 0.0, "max_rel_refine_P_RAM": 0.0, "max_rel_refine_P_RAJ": 0.0, "max_rel_batch_LF": 0.0,
                      "mono_failures_examined": {}, "reuse_varied": {}, "argument_keys_added": {}}
        self.exhaustive = False
        self._cache = {}
        self._open = {e["class"] for e in load_known(self.ID) if e.get("status") == "open"}

    def _count(self, d, k):
        self.stats[d][str(k)] = self.stats[d].get(str(k), 0) + 1

    # ------------------------------------------------------------ generation
    def generate(self, rng, tier):
        quick = tier == "quick"
        n_corr, n_batch, n_ref, n_mono, n_n = (14, 22, 12, 30, 8) if quick else (160, 320, 150, 450, 100)
        maxlen = 10 if quick else 14
        cases = []
        for _ in range(n_corr):
            par = gen_par(rng)
            nn = rng.randint(1, 4)
            L = gen_loads(rng, par["Rm"], rng.randint(4, maxlen), edges="avoid")
            if rng.random() < 0.3:
                par["PA"] = 0.5
            c = {"kind": "corr", "par": par, "L": L, "cs": gen_cs(rng, nn), "G": gen_G(rng, nn), "k": rng.randrange(nn)}
            if nn > 1:
                c["lay"] = gen_lay(rng, nn)
            cases.append(c)
        for i in range(n_batch):
            par = gen_par(rng, table_pa=True)
            nn = rng.randint(2, 4)
            r = rng.random()
            if r < 0.2:
                par.update(PL=2.5, c=1.4)
            elif r < 0.35:
                par.update(sL=rng.choice([5.0, 10.0]), PL=rng.choice([50, 2.5]))
            elif r < 0.45:
                par.update(LSDs=rng.choice([0.01, 0.03]), PL=rng.choice([50, 2.5]))
            lay = gen_lay(rng, nn)
            L = gen_loads(rng, par["Rm"], rng.randint(4, maxlen), edges="force" if i % 3 == 0 else "any")
            if lay["rows"] == "point" or rng.random() < 0.3:
                L = refine(rng, L)[:maxlen + 6]           # plateaus and intermediate samples: turning points != samples
                if len(set(L)) < 2:
                    L = L + [L[0] + 25]
            cases.append({"kind": "batch", "par": par, "L": L, "cs": gen_cs(rng, nn), "G": gen_G(rng, nn), "lay": lay,
                          "alone_mi": rng.random() < 0.3})
        for _ in range(n_ref):
            par = gen_par(rng)
            nn = rng.choice([1, 1, 2, 3])
            c = {"kind": "refine", "par": par, "L": gen_loads(rng, par["Rm"], rng.randint(3, maxlen - 2)),
                 "cs": gen_cs(rng, nn), "G": gen_G(rng, nn), "seed": rng.randrange(1 << 30)}
            if nn > 1:
                # the refined sequence is given in another layout than the base sequence
                c["lay"], c["lay2"] = gen_lay(rng, nn, ID_KINDS_ASC), gen_lay(rng, nn, ID_KINDS_ASC)
            cases.append(c)
        for _ in range(n_mono):
            what = rng.choice(["scale", "rough", "pa"])
            par = gen_par(rng, table_pa=(what == "pa"))
            nn = rng.choice([1, 1, 2])
            c = {"kind": "mono", "what": what, "par": par, "L": gen_loads(rng, par["Rm"], rng.randint(4, maxlen), extreme=(what == "scale" and rng.random() < 0.15)),
                 "cs": gen_cs(rng, nn), "G": gen_G(rng, nn)}
            if nn > 1:
                c["lay"] = gen_lay(rng, nn, ID_KINDS_ASC)
            r = rng.random()
            if what != "pa":                      # load safety concepts and transfer factor c (P_A is from the table then)
                if r < 0.15:
                    par.update(PL=2.5, c=rng.choice([1.4, 0.7]))
                elif r < 0.3:
                    par.update(LSDs=rng.choice([0.01, 0.03]), PL=rng.choice([50, 2.5]), PA=rng.choice(PA_TABLE))
                elif r < 0.4:
                    par.update(sL=rng.choice([5.0, 10.0]), PL=rng.choice([50, 2.5]), PA=rng.choice(PA_TABLE))
            if what == "scale":
                c["s"] = rng.choice([1.005, 1.02, 1.1, 1.3, 2.0])
            elif what == "rough":
                if rng.random() < 0.5:
                    c["par"]["krp"], c["par"]["Rz"] = None, None
                    a, b = sorted(rng.sample([0.5, 1.0, 1.5, 6.3, 25.0, 100.0, 250.0], 2))
                    c["rz"] = [a, b]
                else:
                    a, b = sorted(rng.sample([1.0, 0.95, 0.9, 0.8, 0.7], 2), reverse=True)
                    c["krp"] = [a, b]
            else:
                if rng.random() < 0.5:
                    c["par"]["sL"] = rng.choice([5.0, 10.0])
                    a, b = sorted(rng.sample(PA_TABLE, 2), reverse=True)
                elif rng.random() < 0.12:
                    a, b = rng.choice([0.9, 0.6]), rng.choice([0.5, 0.4, 1e-3])
                elif rng.random() < 0.2:
                    par.update(LSDs=rng.choice([0.01, 0.03]), PL=rng.choice([50, 2.5]))
                    a, b = sorted(rng.sample(PA_TABLE, 2), reverse=True)
                else:
                    a, b = sorted(rng.sample(PA_TABLE + PA_FREE, 2), reverse=True)
                c["pa"] = [a, b]
            cases.append(c)
        for _ in range(n_n):
            par = gen_par(rng)
            par["PA"] = 0.5
            nn = rng.choice([1, 1, 2, 3])
            c = {"kind": "n105090", "par": par, "L": gen_loads(rng, par["Rm"], rng.randint(4, maxlen), extreme=rng.random() < 0.2),
                 "cs": gen_cs(rng, nn), "G": gen_G(rng, nn)}
            if nn > 1:
                c["lay"] = gen_lay(rng, nn, ID_KINDS_ASC)
            cases.append(c)
        # batches with a hot spot: one point reaches the damage sum one within the two recorded passes (the early-failure
        # branch of DamageCalculatorPRAM), in first / middle / last position next to finite-life and infinite-life points
        # state / argument integrity: generated from a random stream of their own, started now (forked from this process, which
        # has not run an assessment itself), collected at the end of generate
        rr = random.Random(rng.getstate()[1][1])
        reuse_cases = [self._gen_reuse(rr, quick) for _ in range(5 if quick else 48)]
        reuse_jobs = self._reuse_start(reuse_cases)
        n_hot = 9 if quick else 60
        protos = []
        for _ in range(n_hot):
            par = gen_par(rng, table_pa=True)
            par["Kp"] = rng.choice([2.5, 3.5])
            if rng.random() < 0.5:
                par.update(Rm=RM[par["group"]][0], Rz=200.0, krp=None, PA=1e-5)     # weak, rough, small P_A
            protos.append((par, gen_loads(rng, par["Rm"], rng.randint(4, maxlen), edges="avoid"), 20, rng.choice([0.0, 2 / 15, 0.5])))
        hots = par_map(hot_ratio_safe, protos, self.PARALLEL)
        for i, ((par, L, c0, G), ch) in enumerate(zip(protos, hots)):
            if ch is None:
                self.stats["hot_not_found"] += 1
                continue
            if isinstance(ch, tuple):
                # the implementation raised while the hot spot was constructed: the oracle of this case repeats the run
                cases.append({"kind": "hotprobe", "par": par, "L": L, "c0": c0, "G0": G})
                continue
            others = [c0, rng.randint(4, 7), rng.randint(c0 // 2, c0 + c0 // 2)]          # ordinary, (nearly) infinite life, ordinary
            others = others[:rng.randint(1, 3)]
            pos = i % 3                                                                   # hot spot first / middle / last
            if pos == 0:
                # the first point's loads are L itself (ratios are relative to the first point): scale L by an integer
                # m >= hot ratio and give the other points the ratios c/(m*c0)
                m = -(-ch // c0)
                L = [m * l for l in L]
                cs = [m * c0] + others
                ch = m * c0
            else:
                cs = others + [ch] if pos == 2 else others[:1] + [ch] + others[1:]
            lay = gen_lay(rng, len(cs))
            if i % 3 == 0 and not quick or (quick and i % 4 == 0):
                cases.append({"kind": "corr", "par": par, "L": L, "cs": cs, "G": [G] * len(cs), "k": rng.randrange(len(cs)), "hot": cs.index(ch), "lay": lay})
            else:
                cases.append({"kind": "batch", "par": par, "L": L, "cs": cs, "G": [G] * len(cs), "hot": cs.index(ch), "ram_only": True, "lay": lay})
        cases += praj.generate(rng, tier)
        rng.shuffle(cases)
        cases += reuse_cases                         # appended behind the shuffle: the other cases keep their random stream
        self._precompute(cases)
        praj.precompute(cases, self.PARALLEL)
        self._reuse_collect(reuse_jobs)
        self.stats["praj"] = praj.stats()
        return cases

    # ------------------------------------------------------------ state and argument integrity (case kind `reuse`)
    def _gen_reuse(self, rr, quick):
        """A = one assessment (1-3 points, uniform G), B = the same with ONE thing varied, so that a memo keyed by a PART of the
        input (K_p and the number of classes, the material group, the load maximum, id() of an argument ...) collides"""
        par = gen_par(rr, table_pa=True)
        par["Kp"] = round(rr.uniform(1.6, 3.4), 3)           # values no other case kind uses
        r = rr.random()
        if r < 0.25:                                         # the load sequence is scaled inside the assessment
            par.update(PL=2.5, c=rr.choice([1.4, 0.7]))
        elif r < 0.4:
            par.update(sL=rr.choice([5.0, 10.0]), PL=rr.choice([50, 2.5]))
        elif r < 0.5:
            par.update(LSDs=rr.choice([0.01, 0.03]), PL=rr.choice([50, 2.5]))
        nn = rr.choice([1, 1, 2, 3])
        L = gen_loads(rr, par["Rm"], rr.randint(3, 6 if quick else 10))
        G = rr.choice([0.0, 2 / 15, 0.5, 1.0])
        g = par["group"]
        what = rr.choice(["Rm", "group", "PA", "Kp", "rough", "scale", "L", "G", "Asigma"])
        if what == "Rm":
            val = {"Rm": rr.choice([x for x in RM[g] if x != par["Rm"]])}
        elif what == "group":
            g2 = rr.choice([x for x in GROUPS if x != g])
            val = {"group": g2, "Rm": par["Rm"] if par["Rm"] in RM[g2] else rr.choice(RM[g2])}
        elif what == "PA":
            val = {"PA": rr.choice([x for x in PA_TABLE if x != par["PA"]])}
        elif what == "Kp":
            val = {"Kp": round(par["Kp"] + rr.choice([-0.4, 0.3, 0.6]), 3)}
        elif what == "rough":
            val = {"krp": None, "Rz": rr.choice([x for x in [1.0, 6.3, 25.0, 100.0] if x != par.get("Rz")])}
        elif what == "Asigma":
            val = {"Asigma": rr.choice([x for x in [50.0, 339.4, 500.0, 1500.0] if x != par["Asigma"]])}
        elif what == "scale":
            val = rr.choice([0.5, 0.8, 1.25, 2.0])
        elif what == "G":
            val = rr.choice([x for x in [0.0, 2 / 15, 0.5, 1.0, 4.0] if x != G])
        else:
            # another sequence of the same length with the same maximum absolute load
            M = max(abs(v) for v in L)
            val = [rr.randint(-M, M) for _ in L]
            val[rr.randrange(len(L))] = rr.choice([M, -M])
            if val == L or len(set(val)) < 2:
                val = [-v for v in L]
        if what in ("Rm", "group", "PA", "Kp", "rough", "Asigma"):
            what = "par"
        c = {"kind": "reuse", "par": par, "L": L, "cs": gen_cs(rr, nn), "G": G, "vary": [what, val],
             "raj": rr.random() < 0.6, "rajB": rr.random() < 0.4}
        if nn > 1:
            c["lay"] = gen_lay(rr, nn)
        return c

    def _reuse_start(self, cases):
        """fork the two call orders of every reuse case from THIS process (the main process never runs an assessment itself, so
        the children start without any state left behind by other cases); at most 2 * PARALLEL children at a time"""
        jobs = []
        for c in cases:
            key = self._key(c)
            if key not in self._cache:
                jobs.append((c, key))
        running = []
        for c, key in jobs[:self.PARALLEL]:
            running.append((key, [fork_call(reuse_child, c, first) for first in ("A", "B")]))
        return {"running": running, "waiting": jobs[self.PARALLEL:]}

    def _reuse_collect(self, jobs):
        while jobs["running"]:
            key, (fa, fb) = jobs["running"].pop(0)
            self._cache[key] = {"A": fork_collect(*fa), "B": fork_collect(*fb)}
            if jobs["waiting"]:
                c, k2 = jobs["waiting"].pop(0)
                jobs["running"].append((k2, [fork_call(reuse_child, c, first) for first in ("A", "B")]))

    def _reuse_eval(self, case):
        key = self._key(case)
        if key not in self._cache:
            self._reuse_collect(self._reuse_start([case]))
        return self._cache[key]

    def _oracle_reuse(self, case):
        """(1) the same argument objects give the same result again, also after an assessment with other parameters / loads in
        between, whichever of the two comes first in the life of the process; (2) the values of the caller's parameters and the
        load sequence are what they were; (3) every point of the batch alone, with the SAME parameter object, gets what it got
        in the batch"""
        ev = self._reuse_eval(case)
        a, b = ev["A"], ev["B"]
        if a.get("solver") or b.get("solver"):
            self.stats["solver_failures"] += 1
            return None
        for side in (a, b):
            if "exc" in side:
                return tuple(side["exc"])
        self.stats["assessments"] += 6 + len(a["alone"])
        self._note_layout(case)
        self._count("reuse_varied", case["vary"][0] if case["vary"][0] != "par" else "+".join(sorted(case["vary"][1])))
        for k in sorted(set(a["added"]) | set(b["added"])):
            self._count("argument_keys_added", k)
        ctx = f"B = A with {case['vary'][0]} varied: {case['vary'][1]}; " + self._ctx(dict(case, G=[case["G"]] * len(case["cs"])))
        for side, first in ((a, "A"), (b, "B")):
            if side["args"]:
                return (f"the assessment changed its caller's arguments ({side['args']}); {ctx}", "args-mutated")
        A1, B_afterA, A2 = a["res"]
        B1, A_afterB, B2 = b["res"]
        nn = len(case["cs"])
        for k in range(nn):
            for x, y, what, kl in ((A1[k], A2[k], "A called again with the same argument objects after B", "state-repeated-call"),
                                   (B1[k], B2[k], "B called again with the same argument objects after A", "state-repeated-call"),
                                   (A1[k], A_afterB[k], "A as the first assessment of the process vs A after B", "state-call-order"),
                                   (B1[k], B_afterA[k], "B as the first assessment of the process vs B after A", "state-call-order")):
                if not same_summary(x, y):
                    return (f"the result of an assessment depends on the assessments made before it ({what}), point {k}: {first_difference(x, y)}; {ctx}", kl)
        for k, rs in enumerate(a["alone"]):
            r = self._cmp_same(A1[k], rs, f"point {k} in the batch vs alone, the same parameter object used for both", ctx, "reuse-batch", stat="batch")
            if r:
                return r[:2]
        return None

    # ------------------------------------------------------------ correspondence
    def _tables(self, res, labels):
        """per point (node label or None for a plain single run): the four look-up columns of the run, BY LABEL"""
        b = res["extended_neuber_binned"]
        p, s = b._lut_primary_branch, b._lut_secondary_branch
        out = []
        for lab in labels:
            if lab is not None:
                pk = p[p.index.get_level_values("node_id") == lab]
                sk = s[s.index.get_level_values("node_id") == lab]
            else:
                pk, sk = p, s
            out.append(list(pk.stress.values) + list(pk.strain.values) + list(sk.delta_stress.values) + list(sk.delta_strain.values))
        return out

    def _run_line(self, mode, par, ap, L, cs, Gs, tables, betas):
        toks = ["c10.run", mode, par["group"], f2h(par["Rm"]), f2h(float(ap.K_RP)), f2h(float(ap.beta)), "1" if abs(par["PA"] - 0.5) < 1e-9 else "0",
                f2h(par["Aref"]), f2h(par["Asigma"]), str(NBINS), str(len(cs)), str(len(L)), str(len(betas))]
        toks += [str(c) for c in cs] + [str(l) for l in L] + [f2h(b) for b in betas]
        for g, t in zip(Gs, tables):
            toks.append(f2h(g))
            toks += [f2h(v) for v in t]
        return " ".join(toks)

    def _corr_eval(self, case):
        """{"ml", "il", "st", "orc"} of a correspondence case: the real code is run once for the batch and once for point k
        alone (P_RAM only); `orc` is the oracle's verdict on point k in the batch vs alone (or on an exception)"""
        par, L, cs, Gs, k = case["par"], case["L"], case["cs"], case["G"], case["k"]
        nn = len(cs)
        empty = {"ml": [], "il": [], "st": {"hyst": 0, "m3": 0, "early": 0}, "orc": None}
        suspended = nn > 1 and not ids_ascending(case) and "batch-node-order" in self._open
        try:
            try:
                rb = assess_batch(case, par, L, cs, Gs, list(range(nn)), raj=False, as_batch=nn > 1)
            except NodeOrderDefect as e:
                return dict(empty, orc=(self._node_order_desc(case, str(e)), "batch-node-order"), susp=suspended)
            rs = assess(par, L, cs, Gs, [k], raj=False, as_batch=False)
            ids = (case.get("lay") or {}).get("ids") or list(range(nn))
            apb, aps = rb["assessment_parameters"], rs["assessment_parameters"]
            is05 = abs(par["PA"] - 0.5) < 1e-9
            betas = [beta_of(0.1), beta_of(0.5), beta_of(0.9)] if is05 else []
            rz = ("rz", par["Rz"]) if par.get("krp") is None else ("krp", par["krp"])
            ml = [" ".join(["c10.par", par["group"], f2h(par["Rm"]), rz[0], f2h(rz[1]), f2h(float(aps.beta)),
                            "1" if is05 else "0", f2h(par["Aref"]), f2h(par["Asigma"]), f2h(Gs[k])]),
                  self._run_line("batch" if nn > 1 else "single", par, apb, L, cs, Gs,
                                 self._tables(rb, [ids[j] for j in range(nn)] if nn > 1 else [None]), betas),
                  self._run_line("single", par, aps, L, [cs[k]], [Gs[k]], self._tables(rs, [None]), betas)]
            line0 = " ".join(f2h(float(v)) for v in [aps.n_st, aps.n_bm, aps.n_P, aps.K_RP, aps.gamma_M_RAM, aps.f_RAM, aps.P_RAM_Z, aps.P_RAM_D])
            il = [line0, self._impl_run(rb, nn, is05), self._impl_run(rs, 1, is05)]
            col = rb["P_RAM_collective"]
            st = {"hyst": len(col) // nn, "m3": int((~col["is_closed_hysteresis"].astype(bool)).sum()) // nn,
                  "early": int(np.sum(np.asarray(rb["P_RAM_damage_calculator"]._n_cycles_until_damage).reshape(-1) < rb["P_RAM_damage_calculator"]._n_hystereses))}
            orc = None
            if nn > 1:
                x = self._cmp_same(summary(rb, nn, raj=False)[k], summary(rs, 1, raj=False)[0], f"point {k} in the batch vs alone", self._ctx(case), "batch")
                if x:
                    orc = (x[0], self._batch_class(case, x[1], x[2]))
            if suspended:
                # only while the finding batch-node-order is OPEN (tables of this batch matched to the wrong points): the batch
                # line is left out.  The finding is fixed by 64dfe3b, so `suspended` is False today and the batch line is compared
                ml, il = [ml[0], ml[2]], [il[0], il[2]]
            return {"ml": ml, "il": il, "st": st, "orc": orc, "susp": suspended}
        except SolverFailure:
            return empty
        except Exception as e:
            return dict(empty, il=[f"EXC {type(e).__name__}: {str(e)[:200]}"], orc=exc_verdict(e))

    def _key(self, case):
        return json.dumps(case, sort_keys=True)

    def _precompute(self, cases):
        todo = [c for c in cases if c["kind"] == "corr" and self._key(c) not in self._cache]
        if not todo:
            return
        res = par_map(self._corr_eval, todo, self.PARALLEL)
        for c, r in zip(todo, res):
            self._cache[self._key(c)] = r
            st = r["st"]
            par = c["par"]
            self.stats["assessments"] += 2
            self.stats["hystereses"] += st["hyst"]
            self.stats["memory3_rows"] += st["m3"]
            self.stats["early_failure"] += st["early"]
            self.stats["corr_batch_line_suspended_open_finding"] += 1 if r.get("susp") else 0
            self._count("groups", par["group"])
            self._count("nodes", len(c["cs"]))
            self._count("seq_len", len(c["L"]))
            self._note_layout(c)
            if len(set(c["G"])) > 1:
                self.stats["per_point_G"] += 1

    def _note_layout(self, case):
        lay = case.get("lay")
        if lay and len(case["cs"]) > 1:
            self._count("layout_ids", lay.get("idkind", "?"))
            self._count("layout_rows", lay.get("rows", "step"))
            self._count("layout_steps", lay.get("steps", "0..n-1"))

    def model_lines(self, case):
        if case["kind"] == "praj":
            return praj.model_lines(case)
        if case["kind"] != "corr":
            return []
        self._precompute([case])
        return self._cache[self._key(case)]["ml"]

    def impl_lines(self, case):
        if case["kind"] == "praj":
            return praj.impl_lines(case)
        if case["kind"] != "corr":
            return []
        self._precompute([case])
        return self._cache[self._key(case)]["il"]

    def _impl_run(self, res, n, betas):
        col = res["P_RAM_collective"]
        ap = res["assessment_parameters"]
        dc = res["P_RAM_damage_calculator"]
        out = []
        nseq = vec(res["P_RAM_lifetime_n_times_load_sequence"], n)
        ncyc = vec(res["P_RAM_lifetime_n_cycles"], n)
        inf = vec(res["P_RAM_is_life_infinite"], n)
        idx = vec(dc._n_cycles_until_damage, n)
        nh = dc._n_hystereses
        pz = vec(ap.P_RAM_Z, n)
        pd_ = vec(ap.P_RAM_D, n)
        for k in range(n):
            P = col[col.index.get_level_values("assessment_point_index") == k]["P_RAM"].values
            nmax = []
            if betas:
                nmax = [float(vec(res[f"P_RAM_lifetime_N_{q}"], n)[k]) for q in ("10", "50", "90")]
            out.append(f"{f2h(pz[k])} {f2h(pd_[k])} {int(bool(inf[k]))} {int(int(idx[k]) < nh)} {int(idx[k])} {f2h(nseq[k])} {f2h(ncyc[k])} | "
                       f"{' '.join(f2h(v) for v in P)} | {' '.join(f2h(v) for v in nmax)}")
        return " ; ".join(out)

    def compare(self, case, model_out, impl_out):
        if case["kind"] == "praj":
            return praj.compare(case, model_out, impl_out)
        if len(model_out) != len(impl_out):
            return f"length {len(model_out)} vs {len(impl_out)}" + (f": {impl_out[0][:200]}" if impl_out and impl_out[0].startswith("EXC") else "")
        for li, (m, i) in enumerate(zip(model_out, impl_out)):
            mt, it = m.split(), i.split()
            if len(mt) != len(it):
                return f"line {li}: token count {len(mt)} vs {len(it)}: model={m[:200]!r} impl={i[:200]!r}"
            for j, (a, b) in enumerate(zip(mt, it)):
                if a == b:
                    continue
                if len(a) == 16 and len(b) == 16:
                    try:
                        x, y = h2f(a), h2f(b)
                    except ValueError:
                        return f"line {li} token {j}: {a} vs {b}"
                    if close(x, y, rtol=1e-9, atol=1e-300):
                        continue
                    return f"line {li} token {j}: model={x!r} impl={y!r} (P_RAM pipeline, case {case['par']['group']} L={case['L']} cs={case['cs']} layout={case.get('lay')})"
                return f"line {li} token {j}: model={a!r} impl={b!r}"
        return None

    def nontrivial(self, case, model_out):
        if case["kind"] == "praj":
            return praj.nontrivial(case, model_out)
        if case["kind"] != "corr" or not model_out:
            return None
        # at least one closed hysteresis in the second pass and a finite lifetime
        return (tuple(case["L"]), tuple(case["cs"]), case["par"]["group"], case["par"]["Rm"]) if "|" in model_out[1] else None

    # ------------------------------------------------------------ oracle
    def oracle(self, case):
        self._count("kinds", case["kind"] + ("-" + case["what"] if case["kind"] == "mono" else ""))
        try:
            return getattr(self, "_oracle_" + case["kind"])(case)
        except SolverFailure:
            self.stats["solver_failures"] += 1
            return None
        except NodeOrderDefect as e:
            return (self._node_order_desc(case, str(e)), "batch-node-order")

    def _node_order_desc(self, case, msg):
        return node_order_desc(case, msg)

    def _ctx(self, case):
        return ctx_of(case)

    def _note(self, summ):
        for s in summ:
            self.stats["infinite_ram" if s["P_RAM_is_life_infinite"] else "finite_ram"] += 1
            if "P_RAJ_is_life_infinite" in s:
                self.stats["infinite_raj" if s["P_RAJ_is_life_infinite"] else "finite_raj"] += 1

    def _oracle_corr(self, case):
        self._precompute([case])
        return self._cache[self._key(case)]["orc"]

    def _oracle_praj(self, case):
        return praj.oracle(case)

    def _oracle_hotprobe(self, case):
        hot_ratio((case["par"], case["L"], case["c0"], case["G0"]))      # raises again: judged by _oracle_safe
        return None

    def _cmp_same(self, a, b, what, ctx, klass_prefix, stat=None):
        """a, b: summaries of the same point obtained in two ways that the property says give the same result.
        None or (description, class, info) with info = {"rel": relative difference} / {"margin": distance of P_max from the limit}"""
        for pre, tol in (("P_RAM", TOL_RAM), ("P_RAJ", TOL_RAJ)):
            lk, ik, mk = f"{pre}_lifetime_n_cycles", f"{pre}_is_life_infinite", f"{pre}_margin"
            if lk not in a or lk not in b:
                continue
            if a[ik] != b[ik] and min(a[mk], b[mk]) > TOL_VERDICT:
                return (f"{pre} infinite-life verdict differs ({what}): {a[ik]} vs {b[ik]}; {ctx}", f"{klass_prefix}-{pre}-verdict", {"margin": min(a[mk], b[mk])})
            rel = reldiff(a[lk], b[lk])
            if stat and rel < 1e-3:
                self.stats[f"max_rel_{stat}_{pre}"] = max(self.stats[f"max_rel_{stat}_{pre}"], rel)
            if not relclose(a[lk], b[lk], tol):
                return (f"{pre} lifetime differs ({what}): {a[lk]!r} vs {b[lk]!r}; {ctx}", f"{klass_prefix}-{pre}-lifetime", {"rel": rel})
            if pre == "P_RAM" and not relclose(a["P_RAM_passes"], b["P_RAM_passes"], tol):
                return (f"P_RAM bearable passes of the load sequence differ ({what}): {a['P_RAM_passes']!r} vs {b['P_RAM_passes']!r}; {ctx}",
                        f"{klass_prefix}-P_RAM-lifetime", {"rel": reldiff(a["P_RAM_passes"], b["P_RAM_passes"])})
        return None

    def _batch_class(self, case, klass, info):
        """the finding class of a batch-vs-alone difference: the recorded defect of the unchanged tree (tables matched to the
        points by position, maxima sorted by node label; batch-node-order, fixed by 64dfe3b) is recognised by a decidable guard on the case; everything else keeps
        its own class.  (Loads on class edges - audit C10-5 - need no class any more: since 3047e0d every point is looked up
        in its own table column with its own load, as when it is assessed alone.)"""
        if len(case["cs"]) > 1 and not ids_ascending(case):
            return "batch-node-order"
        return klass

    def _oracle_batch(self, case):
        par, L, cs, Gs = case["par"], case["L"], case["cs"], case["G"]
        nn = len(cs)
        raj = not case.get("ram_only")
        self._note_layout(case)
        if on_inexact_edge(L):
            self.stats["edge_load_cases"] += 1
        rb = summary(assess_batch(case, par, L, cs, Gs, list(range(nn)), raj=raj), nn, raj=raj)
        self.stats["assessments"] += 1 + nn
        self._note(rb)
        if "hot" in case:
            self.stats["hot_batches"] += 1
            self.stats["early_failure_points_in_batches"] += sum(1 for x in rb if x["P_RAM_passes"] == 0.0)
        ctx = self._ctx(case)
        for k in range(nn):
            mi = bool(case.get("alone_mi")) and k % 2 == 0
            if mi:
                self.stats["alone_as_one_point_batch"] += 1
            rs = summary(assess(par, L, cs, Gs, [k], raj=raj, as_batch=mi, lay=case.get("lay")), 1, raj=raj)[0]
            r = self._cmp_same(rb[k], rs, f"point {k} in the batch vs alone", ctx, "batch", stat="batch")
            if r:
                d, kl = r[0], self._batch_class(case, r[1], r[2])
                if not self.known(kl, d):
                    return (d, kl)
            a, b = rb[k].get("LF"), rs.get("LF")
            # residual strains are differences of look-up table values: their absolute noise scales with the largest strain of the history
            lf_scale = max([abs(x) for x in (a or []) + (b or [])] + [0.0])
            if a is not None and b is not None and len(a) == len(b) and lf_scale:
                w = max(abs(x - y) for x, y in zip(a, b)) / lf_scale
                if w < 1e-3:
                    self.stats["max_rel_batch_LF"] = max(self.stats["max_rel_batch_LF"], w)
            if a is not None and b is not None and (len(a) != len(b) or any(abs(x - y) > 1e-12 + TOL_LF * lf_scale for x, y in zip(a, b))):
                worst = max([abs(x - y) for x, y in zip(a, b)] + [0.0]) / lf_scale if len(a) == len(b) and lf_scale else 1.0
                d = (f"running strain extremes epsilon_min_LF / epsilon_max_LF of point {k} differ between the batch and the single run "
                     f"(they feed the P_RAJ crack opening logic): batch {a} vs alone {b}; {ctx}")
                kl = self._batch_class(case, "batch-P_RAJ-strain-extremes", {"lf": worst})
                if not self.known(kl, d):
                    return (d, kl)
        return None

    def _oracle_refine(self, case):
        par, L, cs, Gs = case["par"], case["L"], case["cs"], case["G"]
        nn = len(cs)
        nodes = list(range(nn))
        self._note_layout(case)
        base = summary(assess(par, L, cs, Gs, nodes, lay=case.get("lay")), nn)
        r = random.Random(case["seed"])
        L2 = case.get("L2") or refine(r, L)               # corpus cases may spell the refined sequence out
        if L2[:1] != L[:1] or (len(L2) > 1 and L2[1] == L[0] and L2[0] == L[0]):
            self.stats["prepended_samples"] += 1
        got = summary(assess(par, L2, cs, Gs, nodes, lay=case.get("lay2", case.get("lay"))), nn)
        self.stats["assessments"] += 2
        self._note(base)
        for k in range(nn):
            x = self._cmp_same(base[k], got[k], f"point {k}, load sequence {L} vs refined by non-reversal samples {L2}", self._ctx(case), "refine", stat="refine")
            if x:
                return x[:2]
        return None

    # ---- monotonicity
    def _mono_pair(self, case, nbins=None):
        par, L, cs, Gs, what = dict(case["par"]), case["L"], case["cs"], case["G"], case["what"]
        if nbins is not None:
            par["nbinsJ"] = nbins
        nn = len(cs)
        nodes = list(range(nn))
        lay = case.get("lay")
        if what == "scale":
            a = summary(assess(par, L, cs, Gs, nodes, lay=lay), nn)
            b = summary(assess(par, L, cs, Gs, nodes, scale=case["s"], lay=lay), nn)
            desc = f"loads scaled by {case['s']}"
        elif what == "rough":
            if "rz" in case:
                pa_, pb_ = dict(par, Rz=case["rz"][0], krp=None), dict(par, Rz=case["rz"][1], krp=None)
                desc = f"R_z {case['rz'][0]} -> {case['rz'][1]}"
            else:
                pa_, pb_ = dict(par, krp=case["krp"][0]), dict(par, krp=case["krp"][1])
                desc = f"K_RP {case['krp'][0]} -> {case['krp'][1]}"
            a = summary(assess(pa_, L, cs, Gs, nodes, lay=lay), nn)
            b = summary(assess(pb_, L, cs, Gs, nodes, lay=lay), nn)
        else:
            a = summary(assess(dict(par, PA=case["pa"][0]), L, cs, Gs, nodes, lay=lay), nn)
            b = summary(assess(dict(par, PA=case["pa"][1]), L, cs, Gs, nodes, lay=lay), nn)
            desc = f"P_A {case['pa'][0]} -> {case['pa'][1]}"
        self.stats["assessments"] += 2
        return a, b, desc

    def _mono_violations(self, a, b, k, pre):
        """(kind, relative increase) when point k's `pre` result of b (the more demanding configuration) is better than a's"""
        lk, ik, mk = f"{pre}_lifetime_n_cycles", f"{pre}_is_life_infinite", f"{pre}_margin"
        if lk not in a[k]:
            return None
        if b[k][ik] and not a[k][ik] and min(a[k][mk], b[k][mk]) > 1e-9:
            return ("verdict", math.inf)
        if not le(b[k][lk], a[k][lk], TOL_MONO):
            return ("lifetime", (b[k][lk] - a[k][lk]) / a[k][lk] if a[k][lk] > 0 and not math.isinf(b[k][lk]) else math.inf)
        return None

    def _mono_class(self, case, pre, k, kind, inc, a, b):
        """finding class of a monotonicity failure.  The open classes are tied to their mechanism:
        mono-pa-above-half : P_A > 0.5 compared with exactly 0.5 (the documented switch that turns the statistical assessment off);
        mono-P_RAJ-rough / -pa : the P_RAJ class grid (n_bins classes between P_RAJ_klass_max and P_RAJ_D_e) moves with the
            curve - an artefact of the classing: fewer than 1000 classes, a finite increase <= CLASSING_MAX_REL, and the SAME pair
            re-run with CLASSING_FINE classes is monotone to CLASSING_FINE_TOL;
        mono-P_RAJ-crack-opening-state : roughness / P_A with UNCHANGED loads, and one of the (same) hystereses has a smaller P_RAJ
            with the lower curve: the crack-opening state machine depends on the curve (relaxation exp(-15 / N) of the previous
            opening strain) and a case decision flips;
        mono-P_RAJ-scale : crack closure - hystereses of the scaled run have P_RAJ = 0 (the crack stays closed after the larger
            compressive excursion) although the unscaled run's do not."""
        what = case["what"]
        if what == "pa" and abs(case["pa"][1] - 0.5) < 1e-9 and case["pa"][0] > 0.5 + 1e-9:
            return "mono-pa-above-half"
        if pre == "P_RAM":
            # the early-failure lifetime is the index of the hysteresis at which the damage sum reaches one, counted over BOTH
            # recorded passes (n1 + n2 hystereses); the regular lifetime is (1 + x) * n2 with x > 1: across the boundary the
            # lifetime can grow by at most n1 - n2 cycles when the first pass recorded more hystereses than the second
            ak, bk = a[k], b[k]
            if (kind == "lifetime" and bk["P_RAM_passes"] == 0.0 and ak["P_RAM_passes"] > 0.0 and ak["P_RAM_n1"] >= ak["P_RAM_n2"] + 2
                    and (ak["P_RAM_n1"], ak["P_RAM_n2"]) == (bk["P_RAM_n1"], bk["P_RAM_n2"])
                    and bk["P_RAM_lifetime_n_cycles"] - ak["P_RAM_lifetime_n_cycles"] <= ak["P_RAM_n1"] - ak["P_RAM_n2"]):
                return "mono-P_RAM-early-failure-count"
            return f"mono-P_RAM-{what}"
        self._count("mono_failures_examined", f"{what}-{kind}")
        if what == "scale" or (what == "pa" and (case["par"].get("sL") is not None or case["par"].get("LSDs") is not None)):
            # the loads are scaled up: directly, or through gamma_L(P_A) of the normal / lognormal load safety concept
            pa_, pb_ = a[k].get("P_RAJ_vals") or [], b[k].get("P_RAJ_vals") or []
            if len(pa_) == len(pb_) and any(y < x * (1 - 1e-9) for x, y in zip(pa_, pb_)):
                return "mono-P_RAJ-scale"
        if what in ("rough", "pa"):
            # same loads, same recorded hystereses, another component curve: the crack-opening state of damage_parameter.P_RAJ
            # depends on the curve (after a 'case 3' hysteresis the previous opening strain relaxes with exp(-15 / N), N from the
            # curve); a later case decision (eps_max < eps_open_alt: crack stays closed) can flip and a hysteresis gets a SMALLER
            # P_RAJ with the lower curve
            pa_, pb_ = a[k].get("P_RAJ_vals") or [], b[k].get("P_RAJ_vals") or []
            if len(pa_) == len(pb_) and any(y < x * (1 - 1e-9) for x, y in zip(pa_, pb_)):
                return "mono-P_RAJ-crack-opening-state"
        open_class = {"rough": "mono-P_RAJ-rough", "pa": "mono-P_RAJ-pa", "scale": "mono-P_RAJ-scale-classing"}[what]
        nb = case["par"].get("nbinsJ") or 200
        if nb < 1000 and kind == "lifetime" and inc <= CLASSING_MAX_REL[what]:
            a2, b2, _ = self._mono_pair(case, nbins=CLASSING_FINE)
            v2 = self._mono_violations(a2, b2, k, pre)
            if v2 is None or (v2[0] == "lifetime" and v2[1] <= CLASSING_FINE_TOL):
                return open_class
            return f"mono-P_RAJ-{what}-with-{CLASSING_FINE}-classes"
        return f"mono-P_RAJ-{what}-beyond-classing" if what != "scale" else "mono-P_RAJ-scale-without-crack-closure"

    def _oracle_mono(self, case):
        self._note_layout(case)
        a, b, desc = self._mono_pair(case)
        self._note(a)
        nn = len(case["cs"])
        ctx = self._ctx(case)
        for k in range(nn):
            for pre in ("P_RAM", "P_RAJ"):
                v = self._mono_violations(a, b, k, pre)
                if v is None:
                    continue
                lk = f"{pre}_lifetime_n_cycles"
                kl = self._mono_class(case, pre, k, v[0], v[1], a, b)
                if v[0] == "verdict":
                    d = f"{pre}: finite life became infinite life ({desc}), point {k}; {ctx}"
                else:
                    d = f"{pre} lifetime increased ({desc}): {a[k][lk]!r} -> {b[k][lk]!r} (+{100 * v[1]:.3g} %), point {k}; {ctx}"
                if not self.known(kl, d):
                    return (d, kl)
        return None

    def _oracle_n105090(self, case):
        par, L, cs, Gs = case["par"], case["L"], case["cs"], case["G"]
        nn = len(cs)
        self._note_layout(case)
        s = summary(assess(par, L, cs, Gs, list(range(nn)), lay=case.get("lay")), nn)
        self.stats["assessments"] += 1
        self._note(s)
        for k in range(nn):
            for pre in ("P_RAM", "P_RAJ"):
                if f"{pre}_lifetime_N_10" not in s[k]:
                    continue
                n10, n50, n90 = (s[k][f"{pre}_lifetime_N_{q}"] for q in ("10", "50", "90"))
                if not (le(n10, n50, 1e-9) and le(n50, n90, 1e-9)):
                    return (f"{pre}: N_10={n10!r}, N_50={n50!r}, N_90={n90!r} not ordered, point {k}; {self._ctx(case)}", f"n105090-{pre}")
        return None

    # ------------------------------------------------------------ shrinking
    def shrink(self, case, still_fails):
        if case["kind"] in ("praj", "hotprobe", "reuse"):
            return case
        cur = {k: v for k, v in case.items() if not k.startswith("_") and k != "hot"}   # "hot" (position of the hot spot) is bookkeeping only

        def without_point(c, i):
            c2 = dict(c, cs=c["cs"][:i] + c["cs"][i + 1:], G=c["G"][:i] + c["G"][i + 1:])
            for key in ("lay", "lay2"):
                if c.get(key) and c[key].get("ids"):
                    c2[key] = dict(c[key], ids=c[key]["ids"][:i] + c[key]["ids"][i + 1:])
            if "k" in c2:
                c2["k"] = c["k"] - 1 if c["k"] > i else c["k"]
            return c2
        # fewer points
        changed = True
        while changed and len(cur["cs"]) > (2 if cur["kind"] == "batch" else 1):
            changed = False
            for i in range(1, len(cur["cs"])):
                if cur.get("k") == i:
                    continue
                c2 = without_point(cur, i)
                if still_fails(c2):
                    cur, changed = c2, True
                    break
        # fewer samples
        changed = True
        while changed and len(cur["L"]) > 2:
            changed = False
            for i in range(len(cur["L"])):
                L2 = cur["L"][:i] + cur["L"][i + 1:]
                if len(set(L2)) >= 2 and still_fails(dict(cur, L=L2)):
                    cur, changed = dict(cur, L=L2), True
                    break
        # the plain layout
        for key, plain in (("rows", "step"), ("steps", "0..n-1")):
            if cur.get("lay") and cur["lay"].get(key) not in (None, plain):
                c2 = dict(cur, lay=dict(cur["lay"], **{key: plain}))
                if still_fails(c2):
                    cur = c2
        return cur
