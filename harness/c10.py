"""C10: FKM-nonlinear assessment (perform_fkm_nonlinear_assessment): batch independence with per-point load
maxima, insensitivity to non-reversal samples, monotonicity in load scale / roughness / failure probability,
N_10 <= N_50 <= N_90.

Correspondence: the Lean model lean/Model/Assessment.lean (ops `c10.*` of lean/Driver/Assessment.lean) is the
P_RAM pipeline end to end: parameter formulas -> binned look-up (the REAL look-up tables of the run are sent
to the driver) -> HCM (Model/HCM) -> recorder columns -> P_RAM -> DamageCalculatorPRAM / N_max_bearable.
Oracle: the property's relations on the real code, P_RAM and P_RAJ."""
import contextlib
import io
import json
import math
import random
import warnings

import numpy as np
import pandas as pd

from .core import Prop, f2h, h2f, close
from . import praj

SOURCES = [
    "src/pylife/strength/fkm_nonlinear/assessment_nonlinear_standard.py",
    "src/pylife/strength/fkm_nonlinear/damage_calculator.py",
    "src/pylife/strength/fkm_nonlinear/parameter_calculations.py",
    "src/pylife/strength/fkm_nonlinear/constants.py",
    "src/pylife/strength/damage_parameter.py",
    "src/pylife/strength/fkm_load_distribution.py",
    "src/pylife/stress/rainflow/fkm_nonlinear.py",
    "src/pylife/stress/rainflow/recorders.py",
    "src/pylife/materiallaws/notch_approximation_law.py",
]

GROUPS = ["Steel", "SteelCast", "Al_wrought"]
RM = {"Steel": [400.0, 600.0, 900.0, 1200.0], "SteelCast": [400.0, 600.0, 800.0], "Al_wrought": [180.0, 250.0, 350.0, 480.0]}
PA_TABLE = [0.5, 2.3e-1, 1e-3, 7.2e-5, 1e-5, 1e-6]       # values that fkm_load_distribution._get_beta knows
PA_FREE = [0.4, 0.1, 0.05, 3e-4, 2e-6]                     # "any value in (0, 1) is possible"
NBINS = 100                                                # number_of_bins of the Binned law in the assessment

# tolerances of the oracle (relative).  Look-up tables are filled by a Newton iteration (rtol 1e-5 / tol 1e-6 for
# extended Neuber, visibly looser for Seeger-Beste) that is run vectorised over all points of a batch, so batch and
# single tables differ in the last digits the solver resolves; lifetimes amplify this by 1/|d| (3 .. 6).
TOL_RAM = 2e-4
TOL_RAJ = 2e-2
TOL_MONO = 1e-6
TOL_VERDICT = 1e-3
TOL_LF = 2e-3


def _mod():
    import pylife.strength.fkm_nonlinear.assessment_nonlinear_standard as A
    return A


_BETA = {}


def beta_of(pa):
    if pa not in _BETA:
        import pylife.strength.fkm_nonlinear.parameter_calculations as pc
        _BETA[pa] = float(pc.compute_beta(pa))
    return _BETA[pa]


# ---------------------------------------------------------------- building inputs for the real code
def make_params(par, G):
    d = {"MatGroupFKM": par["group"], "FinishingFKM": "none", "R_m": float(par["Rm"]), "P_A": float(par["PA"]),
         "P_L": par.get("PL", 50), "c": float(par.get("c", 1.0)), "A_sigma": float(par["Asigma"]), "A_ref": float(par.get("Aref", 500.0)),
         "G": G, "K_p": float(par["Kp"]), "max_load_independently_for_nodes": True}
    if par.get("krp") is not None:
        d["K_RP"] = float(par["krp"])
    else:
        d["R_z"] = float(par["Rz"])
    if par.get("sL") is not None:
        d["s_L"] = float(par["sL"])
    if par.get("LSDs") is not None:
        d["LSD_s"] = float(par["LSDs"])
    if par.get("nbinsJ") is not None:
        d["n_bins"] = int(par["nbinsJ"])
    return pd.Series(d)


def node_loads(L, cs, k, scale=1.0):
    return [float(l * cs[k]) / float(cs[0]) * scale for l in L]


def make_sequence(L, cs, nodes, scale=1.0, as_batch=None):
    """nodes: indices into cs.  One node -> plain Series (unless as_batch), else the (load_step, node_id) MultiIndex Series."""
    if as_batch is None:
        as_batch = len(nodes) > 1
    if not as_batch:
        return pd.Series(node_loads(L, cs, nodes[0], scale))
    idx = pd.MultiIndex.from_product([range(len(L)), range(len(nodes))], names=["load_step", "node_id"])
    cols = [node_loads(L, cs, k, scale) for k in nodes]
    return pd.Series([cols[j][i] for i in range(len(L)) for j in range(len(nodes))], index=idx)


def G_for(Gs, nodes, as_batch):
    if len(set(Gs)) == 1 or not as_batch:
        return float(Gs[nodes[0]])
    # the values of the index are irrelevant (docstring); use something that is not 0..n-1
    return pd.Series([float(Gs[k]) for k in nodes], index=pd.Index([7 + 3 * i for i in range(len(nodes))], name="node"))


def assess(par, L, cs, Gs, nodes, ram=True, raj=True, scale=1.0, as_batch=None):
    if as_batch is None:
        as_batch = len(nodes) > 1
    A = _mod()
    seq = make_sequence(L, cs, nodes, scale, as_batch)
    p = make_params(par, G_for(Gs, nodes, as_batch))
    if float(par["Kp"]) == 1.0:
        raj = False
    with warnings.catch_warnings():
        warnings.simplefilter("ignore")
        with np.errstate(all="ignore"), contextlib.redirect_stdout(io.StringIO()):
            try:
                return A.perform_fkm_nonlinear_assessment(p, seq, calculate_P_RAM=ram, calculate_P_RAJ=raj)
            except RuntimeError as e:
                if "Failed to converge" in str(e):      # scipy.optimize.newton gave up: solver behaviour (C06), not C10
                    raise SolverFailure(str(e))
                raise


class SolverFailure(Exception):
    pass


def vec(x, n):
    a = np.asarray(x).reshape(-1)
    if len(a) == 1 and n > 1:
        a = np.repeat(a, n)
    return [a[i] for i in range(n)]


def summary(res, n, raj=True):
    """per node: dict of the observed quantities"""
    out = [dict() for _ in range(n)]
    keys = ["P_RAM_lifetime_n_cycles", "P_RAM_is_life_infinite"]
    if raj and "P_RAJ_lifetime_n_cycles" in res:
        keys += ["P_RAJ_lifetime_n_cycles", "P_RAJ_is_life_infinite"]
    for key in keys:
        for i, v in enumerate(vec(res[key], n)):
            out[i][key] = bool(v) if "infinite" in key else float(v)
    for i, v in enumerate(vec(res["P_RAM_lifetime_n_times_load_sequence"], n)):
        out[i]["P_RAM_passes"] = float(v)
    # margins of the infinite-life verdicts
    dc = res["P_RAM_damage_calculator"]
    pmax = vec(dc.P_RAM_max, n)
    lim = vec(res["P_RAM_woehler_curve"].fatigue_strength_limit, n)
    for i in range(n):
        out[i]["P_RAM_margin"] = abs(float(pmax[i]) / float(lim[i]) - 1.0)
    if "P_RAJ_damage_calculator" in res and raj:
        dj = res["P_RAJ_damage_calculator"]
        pmax = vec(dj.P_RAJ_max, n)
        lim = vec(res["P_RAJ_woehler_curve"].fatigue_strength_limit, n)
        for i in range(n):
            out[i]["P_RAJ_margin"] = abs(float(pmax[i]) / float(lim[i]) - 1.0)
    if raj and "P_RAJ_collective" in res:
        # running strain extremes of the load history (input of the crack opening logic), per hysteresis
        col = res["P_RAJ_collective"]
        for i in range(n):
            ck = col[col.index.get_level_values("assessment_point_index") == i]
            out[i]["LF"] = [float(v) for v in ck["epsilon_min_LF"].values] + [float(v) for v in ck["epsilon_max_LF"].values]
    for pre in ("P_RAM", "P_RAJ"):
        for q in ("N_10", "N_50", "N_90"):
            key = f"{pre}_lifetime_{q}"
            if key in res:
                for i, v in enumerate(vec(res[key], n)):
                    out[i][key] = float(v)
    return out


def relclose(a, b, tol):
    if a == b:
        return True
    if math.isinf(a) or math.isinf(b) or a != a or b != b:
        return (a != a) and (b != b)
    return abs(a - b) <= tol * max(abs(a), abs(b))


def le(a, b, tol):
    """a <= b up to tol (inf allowed)"""
    if a != a or b != b:
        return False
    if a <= b:
        return True
    if math.isinf(a):
        return False
    return a - b <= tol * max(abs(a), abs(b))


# ---------------------------------------------------------------- sequences
def on_inexact_edge(L):
    """some |value| or |difference| of the first point's loads lies exactly on a class edge i/100*max.  There the class
    found in double arithmetic depends on rounding (of the edge `i/100*max`, and of the other points' loads `l*c_k/c_0`
    and their differences), so batch and single runs may legitimately pick neighbouring classes.  Exact in doubles for
    every point, and kept: |value| = max, difference = 2*max, difference = max between 0 and +-max."""
    M = max(abs(v) for v in L)
    if M == 0:
        return True
    for v in set(abs(v) for v in L):
        if v and v != M and (NBINS * v) % M == 0:
            return True
    for a in set(L):
        for b in set(L):
            d = abs(a - b)
            if d == 0 or (NBINS * d) % M != 0:
                continue
            if d == 2 * M or (d == M and (a == 0 or b == 0)):
                continue
            return True
    return False


def gen_loads(rng, Rm, n, extreme=False):
    for _ in range(200):
        frac = rng.uniform(0.25, 1.0) if not extreme else rng.uniform(2.0, 6.0)
        M = max(30, int(frac * Rm) + rng.randint(0, 6))
        style = rng.random()
        if style < 0.5:
            L = [rng.randint(-M, M) for _ in range(n)]
        elif style < 0.8:   # few levels: repeated values, plateaus, ties
            lv = [rng.randint(-M, M) for _ in range(3)] + [0]
            L = [rng.choice(lv) for _ in range(n)]
        else:               # mostly one-sided
            lo = rng.randint(-M // 4, M // 3)
            L = [rng.randint(lo, M) for _ in range(n)]
        i = rng.randrange(n)
        L[i] = rng.choice([M, -M])
        if len(set(L)) >= 2 and not on_inexact_edge(L):
            return L
    return [M, -M // 2 + 1, M // 3 + 1, -M + 1][:max(n, 2)]


def refine(rng, L):
    """insert samples that are no reversals: interior intermediate values, repeated values, and (at the end) a
    value between the last and the first sample (not equal to the first unless equal to the last)"""
    out = []
    for i, v in enumerate(L):
        out.append(v)
        if rng.random() < 0.3:
            out.append(v)                          # repeated value
        if i + 1 < len(L) and rng.random() < 0.5:
            lo, hi = sorted((v, L[i + 1]))
            vals = sorted(rng.randint(lo, hi) for _ in range(rng.randint(1, 3)))
            if L[i + 1] < v:
                vals.reverse()
            out.extend(vals)
    if rng.random() < 0.6:
        lo, hi = sorted((L[-1], L[0]))
        v = rng.randint(lo, hi)
        if v == L[0] and v != L[-1]:
            v = L[-1]
        out.append(v)
    return out


def gen_par(rng, table_pa=False):
    g = rng.choice(GROUPS)
    par = {"group": g, "Rm": rng.choice(RM[g]), "Kp": rng.choice([1.5, 2.0, 2.5, 3.5]),
           "PA": rng.choice(PA_TABLE if table_pa or rng.random() < 0.6 else PA_FREE),
           "Asigma": rng.choice([50.0, 339.4, 500.0, 1500.0]), "Aref": 500.0}
    if rng.random() < 0.25:
        par["krp"] = rng.choice([1.0, 0.9, 0.75])
        par["Rz"] = None
    else:
        par["Rz"] = rng.choice([0.5, 1.0, 6.3, 25.0, 100.0, 250.0])
        par["krp"] = None
    return par


def gen_G(rng, n):
    if rng.random() < 0.5:
        return [rng.choice([0.0, 2 / 15, 0.5, 1.0, 4.0])] * n
    # large gradients make the fracture-mechanics support factor n_bm exceed its floor 1
    return [rng.choice([0.0, 0.05, 2 / 15, 0.2, 0.8, 1.5, 3.0, 8.0]) for _ in range(n)]


def gen_cs(rng, n):
    c0 = rng.choice([10, 20, 16])
    return [c0] + [rng.randint(c0 // 2, c0 + c0 // 2) for _ in range(n - 1)]


HOT_LADDER = [1.6, 2.2, 3.0, 4.0, 5.5, 7.5, 10.0, 14.0, 20.0]   # load ratios tried for a hot spot (relative to the ordinary point)


def hot_ratio(job):
    """Smallest ratio of HOT_LADDER at which the point (alone, P_RAM only) reaches the damage sum one within the two
    recorded passes (`lifetime_n_times_load_sequence == 0`), as an integer in units of 1/c0; None if there is none."""
    par, L, c0, G = job
    for r in HOT_LADDER:
        c = int(round(r * c0))
        try:
            res = assess(par, L, [c0, c], [G, G], [1], raj=False)
        except SolverFailure:
            return None
        if float(np.asarray(res["P_RAM_lifetime_n_times_load_sequence"]).reshape(-1)[0]) == 0.0:
            return c
    return None


def _par_worker(args):
    lo, hi = args
    return lo, [_PAR["fn"](c) for c in _PAR["cases"][lo:hi]]


_PAR = {}


def par_map(fn, cases, procs):
    """[fn(c) for c in cases] over forked processes (the real assessments dominate the run time)"""
    if procs <= 1 or len(cases) < 3:
        return [fn(c) for c in cases]
    import multiprocessing
    _PAR["fn"], _PAR["cases"] = fn, cases
    step = max(1, len(cases) // (procs * 4))
    jobs = [(lo, min(lo + step, len(cases))) for lo in range(0, len(cases), step)]
    out = [None] * len(cases)
    with multiprocessing.get_context("fork").Pool(min(procs, len(jobs))) as pool:
        for lo, res in pool.imap_unordered(_par_worker, jobs):
            out[lo:lo + len(res)] = res
    return out


# ---------------------------------------------------------------- the property module
class C10(Prop):
    ID = "C10"
    SOURCES = SOURCES
    LEAN_MODULES = ["Proofs.C10", "Proofs.PRAJ"]
    PARALLEL = 16
    THEOREMS = [
        "PylifeVerif.C10.assessment_batch_independent_PRAM",
        "PylifeVerif.C10.assessment_sample_insensitive",
        "PylifeVerif.C10.assessment_batch_independent_PRAM_of_hcm_batch",
        "PylifeVerif.C10.assessment_sample_insensitive_of_hcm_insert",
        "PylifeVerif.C10.lifetime_antitone_in_curve_partial",
        "PylifeVerif.C10.lifetime_antitone_in_load_scale_partial",
        "PylifeVerif.C10.N10_le_N50_le_N90_partial",
        "PylifeVerif.C10.lifetime_antitone_in_roughness_partial",
        "PylifeVerif.C10.lifetime_antitone_in_PA_partial",
        "PylifeVerif.Assess.classQ_first_eq_own",
        "PylifeVerif.Assess.nCycles_antitone",
        "PylifeVerif.PRAJ.hystP_value",
        "PylifeVerif.PRAJ.hystP_nonneg_zero_iff",
        "PylifeVerif.PRAJ.stepRow_P",
        "PylifeVerif.PRAJ.praj_strictMono_continuous_in_range",
        "PylifeVerif.PRAJ.class_exists_unique",
        "PylifeVerif.PRAJ.classwise_damage_eq_hysteresiswise",
        "PylifeVerif.PRAJ.xbar_loop_closed_form",
        "PylifeVerif.PRAJ.xbarOld_depends_on_start",
        "PylifeVerif.PRAJ.praj_batch_independent_of_hcm_batch",
        "PylifeVerif.PRAJ.praj_batch_independent",
        "PylifeVerif.PRAJ.N10_le_N50_le_N90_PRAJ_partial",
    ]
    # assessment_batch_independent_PRAM / assessment_sample_insensitive are unconditional (the HCM facts are
    # C05.hcm_batch_eq_single_code, C04.hcm_insert_nonreversal_interior_code, C04.hcm_append_nonreversal_code, all about
    # twoPass = the code); the `_of_hcm_...` forms (same conclusion from the HCM statements as hypotheses) are kept.
    # Both are statements about the P_RAM pipeline; the P_RAJ part of C10 is decided by the oracle only (ASSUMPTIONS).
    PARTIAL = {
        "PylifeVerif.PRAJ.N10_le_N50_le_N90_PRAJ_partial": "hypothesis 0 <= lifetime (needs f(j+1) >= f(j) for the classes j >= q, true only while the bracket of eq. 2.9-139 is positive)",
        "PylifeVerif.C10.lifetime_antitone_in_curve_partial": "hypothesis Regime: the lower curve does not fail within the two recorded passes, or the first pass recorded at most one hysteresis more than the second (early-failure lifetime counts hystereses of both passes, the regular one multiples of pass 2)",
        "PylifeVerif.C10.lifetime_antitone_in_load_scale_partial": "per-hysteresis step (P_RAM of every hysteresis non-decreasing in the load scale for the binned Masing law) is a hypothesis; Regime as above; the real code is covered by the oracle",
        "PylifeVerif.C10.N10_le_N50_le_N90_partial": "hypothesis: first-pass damage on the 50 % curve <= 1 (beyond it the code's (1-D1)/D2 is negative and not monotone)",
        "PylifeVerif.C10.lifetime_antitone_in_roughness_partial": "Regime as above; admissibility of both component curves assumed (P_D < P_Z, positive)",
        "PylifeVerif.C10.lifetime_antitone_in_PA_partial": "both assessments with P_A != 0.5 (statistical assessment on); the step from P_A = 0.5 is covered by the oracle; P_A > 0.5 vs 0.5 is false for the code (finding mono-P_RAM-pa-above-half); Regime as above",
    }
    RULE = ("case = one relation of the property evaluated with real assessments (perform_fkm_nonlinear_assessment, P_RAM and P_RAJ, per-point load maxima requested): "
            "corr = model vs code for a batch of 1-4 points and for one of its points alone (parameters, every hysteresis' P_RAM, verdict, early-failure index, lifetimes, N_10/50/90); "
            "batch = every point of a batch vs alone, incl. batches with a hot spot (a point constructed from its single-point result to reach the damage sum one within the two recorded passes) in first / middle / last position next to finite- and infinite-life points; refine = non-reversal / repeated / appended samples; mono = load scale, roughness (R_z or K_R,P), P_A; n105090. "
            "3 material groups x 3-4 tensile strengths, sequences of 3-10 (14) integer loads up to 0.25-1.0 R_m (some 2-6 R_m), ratios 0.5-1.5, uniform / per-point G, P_A from the guideline table and free values, "
            "blanket / normal / lognormal load safety; loads exactly on a class edge with an inexact float edge are not generated; non-trivial = at least one hysteresis and a finite P_RAM value; distinct by (loads, ratios, material)")
    ASSUMPTIONS = [
        "the model covers the P_RAM pipeline; the P_RAJ pipeline (crack opening loop, P_RAJ classing, x-bar summation) is NOT modelled: its part of C10 is decided by the direct oracle on the real code only",
        "the look-up tables' VALUES (the Newton roots of the extended Neuber law at the class edges) are taken from the real run and sent to the model; their construction is C06/C07; class selection in the model compares exact rationals, the code compares doubles - generated loads avoid class edges whose float value is inexact",
        "table values are scaled exactly by 2^100 to integers for Model/HCM; sums of table values are exact in the model and rounded in the code (agreement to 1e-9 relative is required)",
        "in the model of a batch the first point's stresses/strains that only steer min/max selections are evaluated with the assessed point's table (only their order matters; table values are positive); beyond the last class edge the model returns the last class value where the code raises (never reached for the point's own loads)",
        "beta = compute_beta(P_A) (root search) is taken from the real run (C09); loads of correspondence cases are integers with c = 1, P_L = 50 so that the scaled loads are exact",
        "oracle tolerances: batch vs single / refined vs base lifetimes 2e-4 (P_RAM) and 2e-2 (P_RAJ) relative, because the look-up tables are filled by a vectorised Newton iteration whose result depends on the other points in the last solver digits; monotonicity 1e-6; verdicts compared only when P_max is more than 1e-3 away from the endurance value; running strain extremes batch vs single to 2e-3 of the largest strain of the history; scipy 'Failed to converge' in the Seeger-Beste tables is counted, not judged",
    ]

    def __init__(self):
        self.stats = {"kinds": {}, "groups": {}, "assessments": 0, "nodes": {}, "seq_len": {}, "memory3_rows": 0,
                      "early_failure": 0, "infinite_ram": 0, "infinite_raj": 0, "finite_ram": 0, "finite_raj": 0,
                      "hystereses": 0, "per_point_G": 0, "solver_failures": 0,
                      "hot_not_found": 0, "hot_batches": 0, "early_failure_points_in_batches": 0}
        self.exhaustive = False
        self._cache = {}

    def _count(self, d, k):
        self.stats[d][str(k)] = self.stats[d].get(str(k), 0) + 1

    # ------------------------------------------------------------ generation
    def generate(self, rng, tier):
        quick = tier == "quick"
        n_corr, n_batch, n_ref, n_mono, n_n = (14, 20, 12, 30, 8) if quick else (160, 300, 150, 450, 100)
        maxlen = 10 if quick else 14
        cases = []
        for _ in range(n_corr):
            par = gen_par(rng)
            nn = rng.randint(1, 4)
            L = gen_loads(rng, par["Rm"], rng.randint(4, maxlen))
            if rng.random() < 0.3:
                par["PA"] = 0.5
            cases.append({"kind": "corr", "par": par, "L": L, "cs": gen_cs(rng, nn), "G": gen_G(rng, nn), "k": rng.randrange(nn)})
        for _ in range(n_batch):
            par = gen_par(rng, table_pa=True)
            nn = rng.randint(2, 4)
            r = rng.random()
            if r < 0.2:
                par.update(PL=2.5, c=1.4)
            elif r < 0.35:
                par.update(sL=rng.choice([5.0, 10.0]), PL=rng.choice([50, 2.5]))
            elif r < 0.45:
                par.update(LSDs=rng.choice([0.01, 0.03]), PL=rng.choice([50, 2.5]))
            cases.append({"kind": "batch", "par": par, "L": gen_loads(rng, par["Rm"], rng.randint(4, maxlen)),
                          "cs": gen_cs(rng, nn), "G": gen_G(rng, nn)})
        for _ in range(n_ref):
            par = gen_par(rng)
            nn = rng.choice([1, 1, 2])
            cases.append({"kind": "refine", "par": par, "L": gen_loads(rng, par["Rm"], rng.randint(3, maxlen - 2)),
                          "cs": gen_cs(rng, nn), "G": gen_G(rng, nn), "seed": rng.randrange(1 << 30)})
        for _ in range(n_mono):
            what = rng.choice(["scale", "rough", "pa"])
            par = gen_par(rng, table_pa=(what == "pa"))
            nn = rng.choice([1, 1, 2])
            c = {"kind": "mono", "what": what, "par": par, "L": gen_loads(rng, par["Rm"], rng.randint(4, maxlen), extreme=(what == "scale" and rng.random() < 0.15)),
                 "cs": gen_cs(rng, nn), "G": gen_G(rng, nn)}
            if what == "scale":
                c["s"] = rng.choice([1.0, 1.02, 1.1, 1.3, 2.0])
            elif what == "rough":
                if rng.random() < 0.5:
                    c["par"]["krp"], c["par"]["Rz"] = None, None
                    a, b = sorted(rng.sample([0.5, 1.0, 1.5, 6.3, 25.0, 100.0, 250.0], 2))
                    c["rz"] = [a, b]
                else:
                    a, b = sorted(rng.sample([1.0, 0.95, 0.9, 0.8, 0.7], 2), reverse=True)
                    c["krp"] = [a, b]
            else:
                if rng.random() < 0.5:
                    c["par"]["sL"] = rng.choice([5.0, 10.0])
                    a, b = sorted(rng.sample(PA_TABLE, 2), reverse=True)
                elif rng.random() < 0.12:
                    a, b = rng.choice([0.9, 0.6]), rng.choice([0.5, 0.4, 1e-3])
                else:
                    a, b = sorted(rng.sample(PA_TABLE + PA_FREE, 2), reverse=True)
                c["pa"] = [a, b]
            cases.append(c)
        for _ in range(n_n):
            par = gen_par(rng)
            par["PA"] = 0.5
            nn = rng.choice([1, 1, 2, 3])
            cases.append({"kind": "n105090", "par": par, "L": gen_loads(rng, par["Rm"], rng.randint(4, maxlen), extreme=rng.random() < 0.2),
                          "cs": gen_cs(rng, nn), "G": gen_G(rng, nn)})
        # batches with a hot spot: one point reaches the damage sum one within the two recorded passes (the early-failure
        # branch of DamageCalculatorPRAM), in first / middle / last position next to finite-life and infinite-life points
        n_hot = 9 if quick else 60
        protos = []
        for _ in range(n_hot):
            par = gen_par(rng, table_pa=True)
            par["Kp"] = rng.choice([2.5, 3.5])
            if rng.random() < 0.5:
                par.update(Rm=RM[par["group"]][0], Rz=200.0, krp=None, PA=1e-5)     # weak, rough, small P_A
            protos.append((par, gen_loads(rng, par["Rm"], rng.randint(4, maxlen)), 20, rng.choice([0.0, 2 / 15, 0.5])))
        hots = par_map(hot_ratio, protos, self.PARALLEL)
        for i, ((par, L, c0, G), ch) in enumerate(zip(protos, hots)):
            if ch is None:
                self.stats["hot_not_found"] += 1
                continue
            others = [c0, rng.randint(4, 7), rng.randint(c0 // 2, c0 + c0 // 2)]          # ordinary, (nearly) infinite life, ordinary
            others = others[:rng.randint(1, 3)]
            pos = i % 3                                                                   # hot spot first / middle / last
            if pos == 0:
                # the first point's loads are L itself (ratios are relative to the first point): scale L by an integer
                # m >= hot ratio and give the other points the ratios c/(m*c0)
                m = -(-ch // c0)
                L = [m * l for l in L]
                cs = [m * c0] + others
                ch = m * c0
            else:
                cs = others + [ch] if pos == 2 else others[:1] + [ch] + others[1:]
            if i % 3 == 0 and not quick or (quick and i % 4 == 0):
                cases.append({"kind": "corr", "par": par, "L": L, "cs": cs, "G": [G] * len(cs), "k": rng.randrange(len(cs)), "hot": cs.index(ch)})
            else:
                cases.append({"kind": "batch", "par": par, "L": L, "cs": cs, "G": [G] * len(cs), "hot": cs.index(ch), "ram_only": True})
        cases += praj.generate(rng, tier)
        rng.shuffle(cases)
        self._precompute(cases)
        praj.precompute(cases, self.PARALLEL)
        self.stats["praj"] = praj.stats()
        return cases

    # ------------------------------------------------------------ correspondence
    def _tables(self, res, n_nodes, as_batch):
        b = res["extended_neuber_binned"]
        p, s = b._lut_primary_branch, b._lut_secondary_branch
        out = []
        for k in range(n_nodes):
            if as_batch:
                pk = p[p.index.get_level_values("node_id") == k]
                sk = s[s.index.get_level_values("node_id") == k]
            else:
                pk, sk = p, s
            out.append(list(pk.stress.values) + list(pk.strain.values) + list(sk.delta_stress.values) + list(sk.delta_strain.values))
        return out

    def _run_line(self, mode, par, ap, L, cs, Gs, tables, betas):
        toks = ["c10.run", mode, par["group"], f2h(par["Rm"]), f2h(float(ap.K_RP)), f2h(float(ap.beta)), "1" if abs(par["PA"] - 0.5) < 1e-9 else "0",
                f2h(par["Aref"]), f2h(par["Asigma"]), str(NBINS), str(len(cs)), str(len(L)), str(len(betas))]
        toks += [str(c) for c in cs] + [str(l) for l in L] + [f2h(b) for b in betas]
        for g, t in zip(Gs, tables):
            toks.append(f2h(g))
            toks += [f2h(v) for v in t]
        return " ".join(toks)

    def _corr_lines(self, case):
        """(model lines, implementation lines, stats) of a correspondence case: the real code is run once for the
        batch and once for point k alone (P_RAM only)"""
        par, L, cs, Gs, k = case["par"], case["L"], case["cs"], case["G"], case["k"]
        nn = len(cs)
        try:
            rb = assess(par, L, cs, Gs, list(range(nn)), raj=False, as_batch=nn > 1)
            rs = assess(par, L, cs, Gs, [k], raj=False, as_batch=False)
        except SolverFailure:
            return [], [], {"hyst": 0, "m3": 0, "early": 0}
        apb, aps = rb["assessment_parameters"], rs["assessment_parameters"]
        is05 = abs(par["PA"] - 0.5) < 1e-9
        betas = [beta_of(0.1), beta_of(0.5), beta_of(0.9)] if is05 else []
        rz = ("rz", par["Rz"]) if par.get("krp") is None else ("krp", par["krp"])
        ml = [" ".join(["c10.par", par["group"], f2h(par["Rm"]), rz[0], f2h(rz[1]), f2h(float(aps.beta)),
                        "1" if is05 else "0", f2h(par["Aref"]), f2h(par["Asigma"]), f2h(Gs[k])]),
              self._run_line("batch" if nn > 1 else "single", par, apb, L, cs, Gs, self._tables(rb, nn, nn > 1), betas),
              self._run_line("single", par, aps, L, [cs[k]], [Gs[k]], self._tables(rs, 1, False), betas)]
        line0 = " ".join(f2h(float(v)) for v in [aps.n_st, aps.n_bm, aps.n_P, aps.K_RP, aps.gamma_M_RAM, aps.f_RAM, aps.P_RAM_Z, aps.P_RAM_D])
        il = [line0, self._impl_run(rb, nn, is05), self._impl_run(rs, 1, is05)]
        col = rb["P_RAM_collective"]
        st = {"hyst": len(col) // nn, "m3": int((~col["is_closed_hysteresis"].astype(bool)).sum()) // nn,
              "early": int(np.sum(np.asarray(rb["P_RAM_damage_calculator"]._n_cycles_until_damage).reshape(-1) < rb["P_RAM_damage_calculator"]._n_hystereses))}
        return ml, il, st

    def _key(self, case):
        return json.dumps(case, sort_keys=True)

    def _precompute(self, cases):
        todo = [c for c in cases if c["kind"] == "corr" and self._key(c) not in self._cache]
        if not todo:
            return
        res = par_map(self._corr_lines, todo, self.PARALLEL)
        for c, (ml, il, st) in zip(todo, res):
            self._cache[self._key(c)] = (ml, il)
            par = c["par"]
            self.stats["assessments"] += 2
            self.stats["hystereses"] += st["hyst"]
            self.stats["memory3_rows"] += st["m3"]
            self.stats["early_failure"] += st["early"]
            self._count("groups", par["group"])
            self._count("nodes", len(c["cs"]))
            self._count("seq_len", len(c["L"]))
            if len(set(c["G"])) > 1:
                self.stats["per_point_G"] += 1

    def model_lines(self, case):
        if case["kind"] == "praj":
            return praj.model_lines(case)
        if case["kind"] != "corr":
            return []
        self._precompute([case])
        return self._cache[self._key(case)][0]

    def impl_lines(self, case):
        if case["kind"] == "praj":
            return praj.impl_lines(case)
        if case["kind"] != "corr":
            return []
        self._precompute([case])
        return self._cache[self._key(case)][1]

    def _impl_run(self, res, n, betas):
        col = res["P_RAM_collective"]
        ap = res["assessment_parameters"]
        dc = res["P_RAM_damage_calculator"]
        out = []
        nseq = vec(res["P_RAM_lifetime_n_times_load_sequence"], n)
        ncyc = vec(res["P_RAM_lifetime_n_cycles"], n)
        inf = vec(res["P_RAM_is_life_infinite"], n)
        idx = vec(dc._n_cycles_until_damage, n)
        nh = dc._n_hystereses
        pz = vec(ap.P_RAM_Z, n)
        pd_ = vec(ap.P_RAM_D, n)
        for k in range(n):
            P = col[col.index.get_level_values("assessment_point_index") == k]["P_RAM"].values
            nmax = []
            if betas:
                nmax = [float(vec(res[f"P_RAM_lifetime_N_{q}"], n)[k]) for q in ("10", "50", "90")]
            out.append(f"{f2h(pz[k])} {f2h(pd_[k])} {int(bool(inf[k]))} {int(int(idx[k]) < nh)} {int(idx[k])} {f2h(nseq[k])} {f2h(ncyc[k])} | "
                       f"{' '.join(f2h(v) for v in P)} | {' '.join(f2h(v) for v in nmax)}")
        return " ; ".join(out)

    def compare(self, case, model_out, impl_out):
        if case["kind"] == "praj":
            return praj.compare(case, model_out, impl_out)
        if len(model_out) != len(impl_out):
            return f"length {len(model_out)} vs {len(impl_out)}"
        for li, (m, i) in enumerate(zip(model_out, impl_out)):
            mt, it = m.split(), i.split()
            if len(mt) != len(it):
                return f"line {li}: token count {len(mt)} vs {len(it)}: model={m[:200]!r} impl={i[:200]!r}"
            for j, (a, b) in enumerate(zip(mt, it)):
                if a == b:
                    continue
                if len(a) == 16 and len(b) == 16:
                    try:
                        x, y = h2f(a), h2f(b)
                    except ValueError:
                        return f"line {li} token {j}: {a} vs {b}"
                    if close(x, y, rtol=1e-9, atol=1e-300):
                        continue
                    return f"line {li} token {j}: model={x!r} impl={y!r} (P_RAM pipeline, case {case['par']['group']} L={case['L']} cs={case['cs']})"
                return f"line {li} token {j}: model={a!r} impl={b!r}"
        return None

    def nontrivial(self, case, model_out):
        if case["kind"] == "praj":
            return praj.nontrivial(case, model_out)
        if case["kind"] != "corr" or not model_out:
            return None
        # at least one closed hysteresis in the second pass and a finite lifetime
        return (tuple(case["L"]), tuple(case["cs"]), case["par"]["group"], case["par"]["Rm"]) if "|" in model_out[1] else None

    # ------------------------------------------------------------ oracle
    def oracle(self, case):
        self._count("kinds", case["kind"] + ("-" + case["what"] if case["kind"] == "mono" else ""))
        try:
            return getattr(self, "_oracle_" + case["kind"])(case)
        except SolverFailure:
            self.stats["solver_failures"] += 1
            return None

    def _note(self, summ):
        for s in summ:
            self.stats["infinite_ram" if s["P_RAM_is_life_infinite"] else "finite_ram"] += 1
            if "P_RAJ_is_life_infinite" in s:
                self.stats["infinite_raj" if s["P_RAJ_is_life_infinite"] else "finite_raj"] += 1

    def _oracle_corr(self, case):
        return None

    def _oracle_praj(self, case):
        return praj.oracle(case)

    def _cmp_same(self, a, b, what, ctx, klass_prefix):
        """a, b: summaries of the same point obtained in two ways that the property says give the same result"""
        for pre, tol in (("P_RAM", TOL_RAM), ("P_RAJ", TOL_RAJ)):
            lk, ik, mk = f"{pre}_lifetime_n_cycles", f"{pre}_is_life_infinite", f"{pre}_margin"
            if lk not in a or lk not in b:
                continue
            if a[ik] != b[ik] and min(a[mk], b[mk]) > TOL_VERDICT:
                return (f"{pre} infinite-life verdict differs ({what}): {a[ik]} vs {b[ik]}; {ctx}", f"{klass_prefix}-{pre}-verdict")
            if not relclose(a[lk], b[lk], tol):
                return (f"{pre} lifetime differs ({what}): {a[lk]!r} vs {b[lk]!r}; {ctx}", f"{klass_prefix}-{pre}-lifetime")
            if pre == "P_RAM" and not relclose(a["P_RAM_passes"], b["P_RAM_passes"], tol):
                return (f"P_RAM bearable passes of the load sequence differ ({what}): {a['P_RAM_passes']!r} vs {b['P_RAM_passes']!r}; {ctx}",
                        f"{klass_prefix}-P_RAM-lifetime")
        return None

    def _oracle_batch(self, case):
        par, L, cs, Gs = case["par"], case["L"], case["cs"], case["G"]
        nn = len(cs)
        raj = not case.get("ram_only")
        rb = summary(assess(par, L, cs, Gs, list(range(nn)), raj=raj), nn, raj=raj)
        self.stats["assessments"] += 1 + nn
        self._note(rb)
        if "hot" in case:
            self.stats["hot_batches"] += 1
            self.stats["early_failure_points_in_batches"] += sum(1 for x in rb if x["P_RAM_passes"] == 0.0)
        for k in range(nn):
            rs = summary(assess(par, L, cs, Gs, [k], raj=raj), 1, raj=raj)[0]
            r = self._cmp_same(rb[k], rs, f"point {k} in the batch vs alone",
                               f"group={par['group']} R_m={par['Rm']} K_p={par['Kp']} P_A={par['PA']} loads={L} ratios={[c / cs[0] for c in cs]} G={Gs}", "batch")
            if r:
                return r
            a, b = rb[k].get("LF"), rs.get("LF")
            # residual strains are differences of look-up table values: their absolute noise (vectorised Newton, Seeger-Beste
            # tables agree to ~1e-3 between batch and single) scales with the largest strain of the history
            lf_scale = max([abs(x) for x in (a or []) + (b or [])] + [0.0])
            if a is not None and b is not None and (len(a) != len(b) or any(abs(x - y) > 1e-9 + TOL_LF * lf_scale for x, y in zip(a, b))):
                return (f"running strain extremes epsilon_min_LF / epsilon_max_LF of point {k} differ between the batch and the single run "
                        f"(they feed the P_RAJ crack opening logic): batch {a} vs alone {b}; group={par['group']} R_m={par['Rm']} K_p={par['Kp']} loads={L} "
                        f"ratios={[c / cs[0] for c in cs]}", "batch-P_RAJ-strain-extremes")
        return None

    def _oracle_refine(self, case):
        par, L, cs, Gs = case["par"], case["L"], case["cs"], case["G"]
        nn = len(cs)
        nodes = list(range(nn))
        base = summary(assess(par, L, cs, Gs, nodes), nn)
        r = random.Random(case["seed"])
        L2 = refine(r, L)
        got = summary(assess(par, L2, cs, Gs, nodes), nn)
        self.stats["assessments"] += 2
        self._note(base)
        for k in range(nn):
            x = self._cmp_same(base[k], got[k], f"point {k}, load sequence {L} vs refined by non-reversal samples {L2}",
                               f"group={par['group']} R_m={par['Rm']} K_p={par['Kp']} P_A={par['PA']}", "refine")
            if x:
                return x
        return None

    def _oracle_mono(self, case):
        par, L, cs, Gs, what = dict(case["par"]), case["L"], case["cs"], case["G"], case["what"]
        nn = len(cs)
        nodes = list(range(nn))
        if what == "scale":
            a = summary(assess(par, L, cs, Gs, nodes), nn)
            b = summary(assess(par, L, cs, Gs, nodes, scale=case["s"]), nn)
            desc = f"loads scaled by {case['s']}"
        elif what == "rough":
            if "rz" in case:
                pa_, pb_ = dict(par, Rz=case["rz"][0], krp=None), dict(par, Rz=case["rz"][1], krp=None)
                desc = f"R_z {case['rz'][0]} -> {case['rz'][1]}"
            else:
                pa_, pb_ = dict(par, krp=case["krp"][0]), dict(par, krp=case["krp"][1])
                desc = f"K_RP {case['krp'][0]} -> {case['krp'][1]}"
            a = summary(assess(pa_, L, cs, Gs, nodes), nn)
            b = summary(assess(pb_, L, cs, Gs, nodes), nn)
        else:
            a = summary(assess(dict(par, PA=case["pa"][0]), L, cs, Gs, nodes), nn)
            b = summary(assess(dict(par, PA=case["pa"][1]), L, cs, Gs, nodes), nn)
            desc = f"P_A {case['pa'][0]} -> {case['pa'][1]}"
        self.stats["assessments"] += 2
        self._note(a)
        above = "-above-half" if what == "pa" and case["pa"][0] > 0.5 + 1e-9 else ""
        ctx = f"group={par['group']} R_m={par['Rm']} K_p={par['Kp']} P_A={par.get('PA')} loads={L} ratios={[c / cs[0] for c in cs]}"
        for k in range(nn):
            for pre in ("P_RAM", "P_RAJ"):
                lk, ik, mk = f"{pre}_lifetime_n_cycles", f"{pre}_is_life_infinite", f"{pre}_margin"
                if lk not in a[k]:
                    continue
                if b[k][ik] and not a[k][ik] and min(a[k][mk], b[k][mk]) > 1e-9:
                    return (f"{pre}: finite life became infinite life ({desc}), point {k}; {ctx}", "mono-pa-above-half" if above else f"mono-{pre}-{what}")
                if not le(b[k][lk], a[k][lk], TOL_MONO):
                    return (f"{pre} lifetime increased ({desc}): {a[k][lk]!r} -> {b[k][lk]!r}, point {k}; {ctx}", "mono-pa-above-half" if above else f"mono-{pre}-{what}")
        return None

    def _oracle_n105090(self, case):
        par, L, cs, Gs = case["par"], case["L"], case["cs"], case["G"]
        nn = len(cs)
        s = summary(assess(par, L, cs, Gs, list(range(nn))), nn)
        self.stats["assessments"] += 1
        self._note(s)
        for k in range(nn):
            for pre in ("P_RAM", "P_RAJ"):
                if f"{pre}_lifetime_N_10" not in s[k]:
                    continue
                n10, n50, n90 = (s[k][f"{pre}_lifetime_N_{q}"] for q in ("10", "50", "90"))
                if not (le(n10, n50, 1e-9) and le(n50, n90, 1e-9)):
                    return (f"{pre}: N_10={n10!r}, N_50={n50!r}, N_90={n90!r} not ordered, point {k}; group={par['group']} R_m={par['Rm']} K_p={par['Kp']} loads={L} "
                            f"ratios={[c / cs[0] for c in cs]}", f"n105090-{pre}")
        return None

    # ------------------------------------------------------------ shrinking
    def shrink(self, case, still_fails):
        if case["kind"] == "praj":
            return case
        cur = {k: v for k, v in case.items() if not k.startswith("_") and k != "hot"}   # "hot" (position of the hot spot) is bookkeeping only
        # fewer points
        changed = True
        while changed and len(cur["cs"]) > (2 if cur["kind"] == "batch" else 1):
            changed = False
            for i in range(1, len(cur["cs"])):
                c2 = dict(cur, cs=cur["cs"][:i] + cur["cs"][i + 1:], G=cur["G"][:i] + cur["G"][i + 1:])
                if still_fails(c2):
                    cur, changed = c2, True
                    break
        # fewer samples
        changed = True
        while changed and len(cur["L"]) > 2:
            changed = False
            for i in range(len(cur["L"])):
                L2 = cur["L"][:i] + cur["L"][i + 1:]
                if len(set(L2)) >= 2 and still_fails(dict(cur, L=L2)):
                    cur, changed = dict(cur, L=L2), True
                    break
        return cur
