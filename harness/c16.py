"""C16: closed-form material laws (Ramberg-Osgood, Hooke 1D / plane stress / plane strain / 3D, true
stress/strain) are invertible and differentiate consistently.

Tie T+K: `setup` runs /verif/translate/translate.py, which regenerates lean/Generated/MaterialLaws.lean from
the CURRENT python source; Proofs/C16.lean proves the property about those generated definitions; the
correspondence run (K) evaluates the same generated definitions at Float in the compiled driver and compares
them with the real pylife code (bit-exact where only + - * / are involved, relative tolerance where
pow/log is), which validates the translator.  The Newton inverse (`RambergOsgood.stress`/`delta_stress`) is
compared with a bisection inverse of the generated `strain` in the driver and, independently, with a
bisection on the real `strain` in the oracle."""
import json
import math
import os
import sys

import numpy as np

from . import core
from .core import Prop, f2h, h2f

SOURCES = [
    "src/pylife/materiallaws/rambgood.py",
    "src/pylife/materiallaws/hookeslaw.py",
    "src/pylife/materiallaws/true_stress_strain.py",
]
# C16_TOL_SCALE < 1 TIGHTENS every floating-point tolerance of the oracle (used to measure the safety margin of
# the tolerances against false alarms); values > 1 are ignored - the check cannot be loosened from outside.
TS = min(1.0, float(os.environ.get("C16_TOL_SCALE", "1")))
EPS = 2.0 ** -52 * TS
NEWTON_TOL, NEWTON_RTOL = 1e-6, 1e-5       # defaults of RambergOsgood.stress(strain, *, rtol=1e-5, tol=1e-6)
POW_RTOL = 1e-12                           # libm pow/log (Lean Float) vs numpy: measured <= 6e-15 (20k cases)

_MODS = None


def mods():
    global _MODS
    if _MODS is None:
        from pylife.materiallaws.rambgood import RambergOsgood
        from pylife.materiallaws import hookeslaw, true_stress_strain
        _MODS = (RambergOsgood, hookeslaw, true_stress_strain)
    return _MODS


def hx(xs):
    return " ".join(f2h(float(x)) for x in xs)


def newton_band(ref):
    """what `stress` promises: the solver's own termination tolerance (doubled)"""
    return 2.0 * TS * (NEWTON_TOL + NEWTON_RTOL * abs(ref))


def bisect_inverse(ro, eps):
    """Inverse of the REAL `strain` by bisection on [0, min(E e, K e^n)] (independent of Newton and of Lean)."""
    a = abs(eps)
    if a == 0.0:
        return 0.0
    lo, hi = 0.0, min(ro.E * a, ro.K * a ** ro.n)
    for _ in range(1200):
        mid = 0.5 * (lo + hi)
        if mid <= lo or mid >= hi:
            break
        if float(ro.strain(mid)) < a:
            lo = mid
        else:
            hi = mid
    return math.copysign(0.5 * (lo + hi), eps)


HOOKE = {
    # variant: (class name, driver op, n in-plane stress args, n strain args)
    "ps": ("HookesLaw2dPlaneStress", "ml.h2s", 3, 3),
    "pe": ("HookesLaw2dPlaneStrain", "ml.h2e", 3, 3),
    "3d": ("HookesLaw3d", "ml.h3", 6, 6),
}


class C16(Prop):
    ID = "C16"
    SOURCES = SOURCES
    LEAN_MODULES = ["Proofs.C16"]
    THEOREMS = ["PylifeVerif.C16." + t for t in [
        "ro_strain_odd", "ro_strain_strictMono", "ro_strain_bijective", "ro_stress_exists_unique",
        "ro_stress_strain_inverse", "ro_hasDerivAt_compliance", "ro_compliance_at_zero",
        "ro_modulus_is_reciprocal", "ro_modulus_is_derivative_of_stress", "masing_delta_is_doubled",
        "masing_inverse", "lower_hysteresis_meets_curve",
        "hooke1d_stress_strain_id", "hooke_init_guard", "hooke_moduli", "hooke3d_stress_strain_id",
        "hooke3d_moduli_consistent", "hooke_plane_stress_stress_strain_id",
        "hooke_plane_strain_stress_strain_id", "plane_strain_eq_3d_at_e33_0", "plane_stress_eq_3d_at_s33_0",
        "true_strain_inverse", "true_stress_inverse", "true_fracture_inverse",
        "translated_eq_hand_model",
    ]]
    PARTIAL = {}
    RULE = ("T: Generated/MaterialLaws.lean is regenerated from the python source by translate/translate.py and the "
            "theorems are re-checked against it; K: the generated definitions at Float (compiled driver) vs the real "
            "pylife functions on the same arguments - bit-exact for + - * /, relative 1e-12 where pow/log occurs; "
            "Newton inverse vs bisection inverse within the solver's own tolerance 2(tol + rtol|s|); oracle: the "
            "property's identities evaluated on the real code (oddness, monotonicity with slope >= 1/E, central "
            "difference vs tangential compliance, Masing doubling, hysteresis reversal point, Hooke round trips and "
            "plane/3D agreement, moduli, true-stress/strain inverses; array (and list) input = element-wise scalar input for "
            "EVERY function of the three files incl. result shapes, the per-element guard of lower_hysteresis, the "
            "shape-consistency ValueError of the Hooke classes, the keyword tolerances of stress()).  If the translator "
            "cannot express the source, that is said, K is skipped (the generated model is stale) and the oracle alone "
            "searches for a failing input.")
    ASSUMPTIONS = [
        "translator T (translate/translate.py) for rambgood.py / hookeslaw.py / true_stress_strain.py: assumed to "
        "preserve meaning on its whitelisted subset; validated on every run by K (generated definitions at Float vs "
        "the real functions), not verified; np.log1p / np.expm1 are translated to np_log1p / np_expm1 of "
        "Generated/Prelude.lean (Kahan's compensated form at Float, proved equal to log(1+x) / exp x - 1 over the reals in "
        "Proofs/Lemmas/GeneratedPrelude.lean); translate/selftest_rewrites.py lists the harmless respellings of the "
        "sources under which T, every theorem and K stay green, and changes under which they must not",
        "the theorems are over the reals (np.power -> Real.rpow, np.log -> Real.log, np.sign/np.fabs -> sign/abs); "
        "IEEE rounding is not modelled; arrays are modelled elementwise (array vs scalar agreement is checked by the oracle)",
        "RambergOsgood.stress / delta_stress: the theorem is existence + uniqueness of the exact inverse and the "
        "round trips for it; convergence of scipy.optimize.newton is runtime behaviour, measured against bisection "
        "within the solver's tolerance on the generated strains |e| <= 0.5 (50 %) and, in the oracle, also on strain(s) of "
        "the generated stresses as far as |e| <= 1; E in [1e4,5e5], K in [1e2,5e3] (both multiplied by 1e6 - Pa instead of "
        "MPa - in about 25 % of the cases), n in [0.01,0.95]; "
        "the solver raising RuntimeError is not counted as a violation, a silently wrong value is",
        "np.asarray / _as_consistant_arrays (shape check) are treated as identities on the mathematical values",
    ]

    def __init__(self):
        self.stats = {"kinds": {}, "newton": {"scalar_calls": 0, "scalar_raised": 0, "vector_calls": 0,
                                              "vector_raised": 0, "silent_bad": 0},
                      "n_hist": {}, "strain_decades": {}, "nu_hist": {}, "errors": {}, "max_rel_dev": {},
                      "translator": None}
        self.exhaustive = False
        self.translator_error = None

    # ------------------------------------------------------------------ setup: run the translator
    def setup(self, log):
        sys.path.insert(0, os.path.join(core.VERIF, "translate"))
        try:
            import translate as T
            ok, msg = T.run(core.REPO, core.LEAN)
        except Exception as e:      # a crash of the translator is a broken obligation as well
            ok, msg = False, f"translator crashed: {type(e).__name__}: {e}"
            try:
                import translate as T
                T.write_if_changed(os.path.join(core.LEAN, "Generated", "MaterialLawsStatus.lean"), T.status_failed(msg))
            except Exception:
                pass
        finally:
            sys.path.pop(0)
        self.stats["translator"] = msg
        if not ok:
            self.translator_error = msg
        log(("translator: " + msg) if ok else ("TRANSLATOR FAILED (broken proof obligation): " + msg))
        if not ok:
            # the honest reading of this state: NOTHING is known about the current source through T - the theorems are about
            # Generated/MaterialLaws.lean, which is now STALE (left as it was), so they say nothing about the code as it
            # is, and a comparison of the stale model with the code would only measure the edit, not a violation.
            # The correspondence run is therefore skipped (no protocol lines); the direct oracle (which needs no model)
            # evaluates the property on the real code for this run's cases and for the extra search that a broken
            # obligation triggers.  No failing input -> `VIOLATION ... no-failing-input-found` (the property is no longer
            # shown to hold), with the translator's message as the reason.
            log("the translator cannot express the current source: theorems NOT checked against it; correspondence run "
                "SKIPPED (the generated model is stale); the property is evaluated by the direct oracle only")

    # ------------------------------------------------------------------ generators
    def _ro_params(self, rng):
        E = math.exp(rng.uniform(math.log(1e4), math.log(5e5)))
        K = math.exp(rng.uniform(math.log(1e2), math.log(5e3)))
        mode = rng.randrange(5)
        if mode == 0:
            n = rng.choice([0.187, 0.128, 0.15, 0.2, 0.11])          # FKM-like
        elif mode == 1:
            n = rng.uniform(0.02, 0.1)                                # small hardening exponent (slow Newton)
        elif mode == 2:
            n = rng.uniform(0.8, 0.95)
        else:
            n = rng.uniform(0.02, 0.95)
        if rng.random() < 0.25:
            # another unit system (Pa instead of MPa): the relation only involves stress/K and stress/E, so nothing may
            # depend on the magnitude of the dimensional values - with a weakly hardening material K**(1/n) alone is
            # far outside the double range while (stress/K)**(1/n) is O(1)
            E, K = E * 1e6, K * 1e6
            if rng.random() < 0.5:
                n = rng.uniform(0.01, 0.03)
        return E, K, n

    def _gen_ro(self, rng):
        E, K, n = self._ro_params(rng)
        strains = []
        for _ in range(5):
            m = math.exp(rng.uniform(math.log(1e-7), math.log(0.5)))
            strains.append(rng.choice([-1.0, 1.0]) * m)
        strains.append(rng.choice([-1.0, 1.0]) * rng.uniform(0.05, 0.2))    # the large-strain region
        if rng.random() < 0.3:
            strains.append(0.0)
        stresses = []
        for _ in range(5):
            if rng.random() < 0.3:
                s = E * math.exp(rng.uniform(math.log(1e-8), math.log(1e-3)))   # elastic range
                s = min(s, K)
            else:
                s = K * math.exp(rng.uniform(math.log(1e-12), math.log(0.5))) ** n   # plastic strain 1e-12 .. 0.5
            stresses.append(rng.choice([-1.0, 1.0]) * s)
        if rng.random() < 0.3:
            stresses.append(0.0)
        if rng.random() < 0.3:
            stresses.append(-stresses[0])
        smax = max(abs(s) for s in stresses) * rng.choice([1.0, 1.0, 1.25])
        if rng.random() < 0.15:
            smax = sorted(stresses)[len(stresses) // 2]                         # some stresses above max -> ValueError
        return {"kind": "ro", "E": E, "K": K, "n": n, "stress": stresses, "strain": strains, "smax": smax}

    def _gen_hooke(self, rng):
        var = rng.choice(["1d", "ps", "pe", "3d", "3d"])
        E = math.exp(rng.uniform(math.log(1e3), math.log(5e5)))
        mode = rng.randrange(6)
        if mode == 0:
            nu = rng.choice([0.3, 0.33, 0.25, 0.0, 0.2])
        elif mode == 1:
            nu = rng.uniform(0.4, 0.499)
        elif mode == 2:
            nu = rng.uniform(-0.99, -0.5)
        elif mode == 3 and var != "1d":
            nu = rng.choice([-1.5, 0.51, 0.75, -1.0000001])                      # constructor must raise
        elif mode == 4:
            # close to, but inside, the admissible limits: G and K are large there and finite
            d = 10.0 ** rng.uniform(-9, -4)
            nu = rng.choice([0.5 - d, -1.0 + d])
        else:
            nu = rng.uniform(-0.95, 0.49)
        k = 1 if var == "1d" else HOOKE[var][2]
        shape = rng.randrange(4)
        scale = 10.0 ** rng.uniform(-6, -2)
        if shape == 0:
            e = [rng.uniform(-1, 1) * scale for _ in range(k)]
        elif shape == 1:                                                          # single non-zero component
            e = [0.0] * k
            e[rng.randrange(k)] = rng.uniform(-1, 1) * scale
        elif shape == 2:                                                          # hydrostatic / equal normal parts
            v = rng.uniform(-1, 1) * scale
            e = [v] * min(k, 3) + [0.0] * max(0, k - 3) if var == "3d" else [v] * min(k, 2) + [0.0] * max(0, k - 2)
        else:                                                                     # pure shear in rotated axes
            v = rng.uniform(-1, 1) * scale
            e = ([v, -v] + [0.0] * (k - 2)) if k >= 2 else [v]
        return {"kind": "hooke", "var": var, "E": E, "nu": nu, "e": e, "s": [x * E * rng.uniform(0.5, 2.0) for x in e]}

    def _gen_true(self, rng):
        return {"kind": "true",
                "e": [rng.uniform(-0.9, 3.0), 10.0 ** rng.uniform(-9, -2) * rng.choice([-1, 1]), rng.uniform(0.0, 0.5)],
                "s": [rng.uniform(-2000, 2000), rng.uniform(1, 2000)],
                "Z": [rng.uniform(0.0, 0.95), 10.0 ** rng.uniform(-9, -1)],
                "F": rng.uniform(1.0, 1e5), "A": rng.uniform(0.1, 500.0)}

    def generate(self, rng, tier):
        n_ro, n_h, n_t = (600, 1000, 250) if tier == "quick" else (15000, 20000, 5000)
        cases = []
        # fixed edge cases first
        cases.append({"kind": "ro", "E": 206000.0, "K": 1184.0, "n": 0.187, "stress": [0.0, 400.0, -400.0, 1e-300, 1184.0],
                      "strain": [0.0, 1e-3, -1e-3, 0.2, 1e-12], "smax": 400.0})
        cases.append({"kind": "hooke", "var": "3d", "E": 206000.0, "nu": 0.3, "e": [1e-3, 0, 0, 0, 0, 0], "s": [100.0, 0, 0, 0, 0, 0]})
        cases.append({"kind": "hooke", "var": "pe", "E": 206000.0, "nu": 0.0, "e": [1e-3, -1e-3, 2e-4], "s": [100.0, -50.0, 10.0]})
        for _ in range(n_ro):
            cases.append(self._gen_ro(rng))
        for _ in range(n_h):
            cases.append(self._gen_hooke(rng))
        for _ in range(n_t):
            cases.append(self._gen_true(rng))
        return cases

    # ------------------------------------------------------------------ plan: (driver line, how to compare)
    def _plan(self, c):
        """list of (protocol line, tolerance kind, impl thunk)"""
        RO, H, T = mods()
        out = []
        if c["kind"] == "ro":
            E, K, n = c["E"], c["K"], c["n"]
            ro = RO(E, K, n)
            p = f"{f2h(E)} {f2h(K)} {f2h(n)}"
            for s in c["stress"]:
                for fn in ("strain", "plastic_strain", "tangential_compliance", "tangential_modulus", "delta_strain"):
                    out.append((f"ml.ro {fn} {p} {f2h(s)}", ("rel", POW_RTOL), (lambda fn=fn, s=s: [getattr(ro, fn)(s)])))
                out.append((f"ml.ro elastic_strain {p} {f2h(s)}", "exact", (lambda s=s: [ro.elastic_strain(s)])))
                out.append((f"ml.ro lower_hysteresis {p} {f2h(s)} {f2h(c['smax'])}",
                            ("relabs", POW_RTOL, 8 * POW_RTOL * abs(float(ro.strain(c["smax"])))),
                            (lambda s=s: [ro.lower_hysteresis(s, c["smax"])])))
            for e in c["strain"]:
                out.append((f"ml.ro inverse {p} {f2h(e)}", "newton", (lambda e=e: [ro.stress(e)])))
                out.append((f"ml.ro delta_stress {p} {f2h(2 * e)}", "newton2", (lambda e=e: [ro.delta_stress(2 * e)])))
        elif c["kind"] == "hooke":
            E, nu, var = c["E"], c["nu"], c["var"]
            if var == "1d":
                h = H.HookesLaw1d(E)
                out.append((f"ml.h1 stress {f2h(E)} {f2h(c['e'][0])}", "exact", lambda: [h.stress(c["e"][0])]))
                out.append((f"ml.h1 strain {f2h(E)} {f2h(c['s'][0])}", "exact", lambda: [h.strain(c["s"][0])]))
            else:
                cname, op, _, _ = HOOKE[var]
                mk = lambda: getattr(H, cname)(E, nu)
                # np.power(nut, 2.) occurs in the 2D stress functions and in the plane-strain attributes
                tol_stress = "exact" if var == "3d" else ("rel", 1e-11)
                tol_strain = "exact" if var != "pe" else ("rel", 1e-11)
                out.append((f"{op} moduli {f2h(E)} {f2h(nu)}", "exact", lambda: (lambda h: [h.G, h.K])(mk())))
                out.append((f"{op} stress {f2h(E)} {f2h(nu)} {hx(c['e'])}", tol_stress, lambda: list(mk().stress(*c["e"]))))
                out.append((f"{op} strain {f2h(E)} {f2h(nu)} {hx(c['s'])}", tol_strain, lambda: list(mk().strain(*c["s"]))))
        elif c["kind"] == "true":
            for e in c["e"]:
                out.append((f"ml.true_strain {f2h(e)}", ("rel", POW_RTOL), lambda e=e: [T.true_strain(e)]))
                for s in c["s"]:
                    out.append((f"ml.true_stress {f2h(s)} {f2h(e)}", "exact", lambda e=e, s=s: [T.true_stress(s, e)]))
            for z in c["Z"]:
                out.append((f"ml.true_fracture_strain {f2h(z)}", ("rel", POW_RTOL), lambda z=z: [T.true_fracture_strain(z)]))
                out.append((f"ml.true_fracture_stress {f2h(c['F'])} {f2h(c['A'])} {f2h(z)}", "exact",
                            lambda z=z: [T.true_fracture_stress(c["F"], c["A"], z)]))
        else:
            raise ValueError(c["kind"])
        return out

    def model_lines(self, case):
        if self.translator_error:
            return []              # never compare the code with a stale generated model
        return [l for l, _t, _f in self._plan(case)]

    def impl_lines(self, case):
        self.stats["kinds"][case["kind"]] = self.stats["kinds"].get(case["kind"], 0) + 1
        if self.translator_error:
            self.stats["correspondence_skipped_translator_failed"] = self.stats.get("correspondence_skipped_translator_failed", 0) + 1
            return []
        if case["kind"] == "ro":
            b = f"{case['n']:.1f}"
            self.stats["n_hist"][b] = self.stats["n_hist"].get(b, 0) + 1
            for e in case["strain"]:
                d = "0" if e == 0 else str(int(math.floor(math.log10(abs(e)))))
                self.stats["strain_decades"][d] = self.stats["strain_decades"].get(d, 0) + 1
        if case["kind"] == "hooke":
            b = f"{math.floor(case['nu'] * 5) / 5:.1f}"
            self.stats["nu_hist"][b] = self.stats["nu_hist"].get(b, 0) + 1
        out = []
        for _l, tol, f in self._plan(case):
            try:
                vals = f()
                out.append(" ".join(f2h(float(np.asarray(v))) for v in vals))
            except (ValueError, RuntimeError, ZeroDivisionError, FloatingPointError) as e:
                name = type(e).__name__
                self.stats["errors"][name] = self.stats["errors"].get(name, 0) + 1
                out.append(name)
        return out

    def compare(self, case, model_out, impl_out):
        plan = self._plan(case)
        if len(model_out) != len(impl_out) or len(plan) != len(model_out):
            return f"length {len(model_out)} vs {len(impl_out)}"
        for i, ((line, tol, _f), a, b) in enumerate(zip(plan, model_out, impl_out)):
            if tol in ("newton", "newton2") and b == "RuntimeError":
                continue              # the solver gave up loudly: not a disagreement about the inverse's value
            ta, tb = a.split(), b.split()
            bad = None
            if len(ta) != len(tb) or any((len(x) != 16) != (len(y) != 16) for x, y in zip(ta, tb)):
                bad = "shape/error kind"
            else:
                for x, y in zip(ta, tb):
                    if len(x) != 16:
                        if x != y:
                            bad = "error kind"
                        continue
                    fx, fy = h2f(x), h2f(y)
                    if tol == "exact":
                        ok = x == y or (fx == 0.0 and fy == 0.0) or (fx != fx and fy != fy)
                    elif tol == "newton":
                        ok = abs(fx - fy) <= newton_band(fx)
                    elif tol == "newton2":
                        ok = abs(fx - fy) <= 2 * newton_band(fx / 2)
                    elif tol[0] == "rel":
                        ok = core.close(fx, fy, rtol=tol[1])
                    else:
                        ok = core.close(fx, fy, rtol=tol[1], atol=tol[2])
                    if isinstance(tol, tuple) and fx == fx and fy == fy and fx != fy and max(abs(fx), abs(fy)) < math.inf:
                        key = " ".join(t for t in line.split()[:2] if len(t) != 16)
                        dev = abs(fx - fy) / max(abs(fx), abs(fy))
                        if dev > self.stats["max_rel_dev"].get(key, 0.0):
                            self.stats["max_rel_dev"][key] = dev
                    if not ok:
                        bad = f"{fx!r} vs {fy!r} (tolerance {tol})"
            if bad:
                return f"line {i} `{line.split()[0]} {line.split()[1]}`: model={a!r} impl={b!r}: {bad}"
        return None

    def nontrivial(self, case, model_out):
        if case["kind"] == "ro":
            return "ro:" + json.dumps([case["E"], case["K"], case["n"]])
        if case["kind"] == "hooke":
            return None if "ValueError" in model_out else "h:" + json.dumps([case["var"], case["E"], case["nu"], case["e"]])
        return "t:" + json.dumps(case["e"])

    # ------------------------------------------------------------------ the property on the real code
    def oracle(self, c):
        if c["kind"] == "ro":
            return self._oracle_ro(c)
        if c["kind"] == "hooke":
            return self._oracle_hooke(c)
        return self._oracle_true(c)

    def _oracle_ro(self, c):
        RO, _, _ = mods()
        E, K, n = c["E"], c["K"], c["n"]
        ro = RO(E, K, n)
        S = [float(s) for s in c["stress"]]
        f = lambda s: float(ro.strain(s))
        # oddness (exact: fabs/sign are exactly symmetric)
        for s in S:
            if f(-s) != -f(s) or float(ro.plastic_strain(-s)) != -float(ro.plastic_strain(s)):
                return (f"strain not odd at stress {s!r}: strain(-s)={f(-s)!r}, -strain(s)={-f(s)!r}", "ro-odd")
            if float(ro.tangential_compliance(-s)) != float(ro.tangential_compliance(s)):
                return (f"tangential compliance not even at stress {s!r}", "ro-derivative")
        # strictly increasing with slope >= 1/E
        srt = sorted(set(S))
        for a, b in zip(srt, srt[1:]):
            d = f(b) - f(a)
            if d < (b - a) / E * (1 - 1e-9 * TS) - 16 * EPS * max(abs(f(a)), abs(f(b))):
                return (f"strain not increasing with slope >= 1/E between stresses {a!r} and {b!r}: "
                        f"{f(a)!r} -> {f(b)!r}", "ro-monotone")
        # compliance = derivative (central difference), modulus = reciprocal
        for s in S:
            comp = float(ro.tangential_compliance(s))
            mod = float(ro.tangential_modulus(s))
            if not (comp > 0) or mod != 1.0 / comp or abs(mod * comp - 1.0) > 4 * EPS:
                return (f"tangential modulus {mod!r} is not the reciprocal of the compliance {comp!r} at stress {s!r}", "ro-modulus")
            if s == 0.0:
                if comp != 1.0 / E:
                    return (f"tangential compliance at 0 is {comp!r}, expected 1/E = {1.0 / E!r}", "ro-derivative")
                continue
            if abs(s) < 1e-250:
                continue
            h = 1e-5 * abs(s)
            cd = (f(s + h) - f(s - h)) / ((s + h) - (s - h))
            p = 1.0 / n
            tol = (1e-9 * p * p + 1e-9) * TS
            if abs(cd - comp) > tol * comp:
                return (f"tangential compliance {comp!r} is not the derivative of strain at stress {s!r} "
                        f"(central difference {cd!r})", "ro-derivative")
        # Masing doubling and the hysteresis reversal point
        for s in S:
            if float(ro.delta_strain(s)) != 2 * f(s / 2.0):
                return (f"delta_strain({s!r}) = {float(ro.delta_strain(s))!r} != 2*strain(s/2) = {2 * f(s / 2.0)!r}", "ro-masing")
        m = float(c["smax"])
        if float(ro.lower_hysteresis(m, m)) != f(m):
            return (f"lower hysteresis at the reversal point {m!r}: {float(ro.lower_hysteresis(m, m))!r} != strain = {f(m)!r}", "ro-hysteresis")
        lo = float(ro.lower_hysteresis(-abs(m), abs(m)))
        if abs(lo + f(abs(m))) > 8 * EPS * abs(f(abs(m))):
            return (f"lower hysteresis branch from {abs(m)!r} does not end at -strain(max) at -max: {lo!r} vs {-f(abs(m))!r}", "ro-hysteresis")
        for s in S:
            if s > m:
                try:
                    ro.lower_hysteresis(s, m)
                    return (f"lower_hysteresis accepted stress {s!r} > max_stress {m!r}", "ro-hysteresis")
                except ValueError:
                    pass
        # the guard is per element: ONE stress above max_stress in an array makes the call raise, none does not
        below = [s for s in S if s <= m]
        above = m + abs(m) + 1.0
        try:
            ro.lower_hysteresis(np.asarray(below + [above] + below), m)
            return (f"lower_hysteresis accepted an array with one stress ({above!r}) above max_stress {m!r}", "ro-hysteresis")
        except ValueError:
            pass
        if below:
            va = np.asarray(ro.lower_hysteresis(np.asarray(below), m), dtype=float)
            if va.shape != (len(below),):
                return (f"lower_hysteresis(array of {len(below)}) has shape {va.shape}", "array-scalar")
            for s, v in zip(below, va):
                w = float(ro.lower_hysteresis(s, m))
                if not core.close(float(v), w, rtol=1e-13 * TS, atol=1e-13 * TS * abs(f(m))):
                    return (f"lower_hysteresis: array call {float(v)!r} != scalar call {w!r} at stress {s!r}", "array-scalar")
        # array = scalar
        arr = np.asarray(S)
        for name in ("strain", "elastic_strain", "plastic_strain", "tangential_compliance", "tangential_modulus", "delta_strain"):
            va = np.asarray(getattr(ro, name)(arr), dtype=float)
            if va.shape != arr.shape:
                return (f"{name}(array of {len(S)}) has shape {va.shape}", "array-scalar")
            for s, v in zip(S, va):
                w = float(getattr(ro, name)(s))
                if not core.close(float(v), w, rtol=1e-13 * TS):
                    return (f"{name}: array call {float(v)!r} != scalar call {w!r} at stress {s!r}", "array-scalar")
            vl = np.asarray(getattr(ro, name)(list(S)), dtype=float) if name == "strain" else va     # a plain list is array-like
            if [f2h(x) for x in vl] != [f2h(x) for x in va]:
                return (f"{name}: list input differs from array input", "array-scalar")
        # Newton inverse: strain(stress(e)) = e, stress(strain(s)) = s, delta_stress / delta_strain inverse
        nst = self.stats["newton"]
        targets = [(float(e), None) for e in c["strain"]] + [(f(s), s) for s in S if abs(f(s)) <= 1.0]
        refs = []
        for e, s_known in targets:
            ref = bisect_inverse(ro, e)
            refs.append(ref)
            if s_known is not None and abs(ref - s_known) > 1e-9 * TS * abs(s_known) + 1e-300:
                # bisection on the real strain must reproduce the stress we started from (sanity of the reference)
                return (f"strain is not injective enough for a bisection inverse at stress {s_known!r} (got {ref!r})", "ro-monotone")
            nst["scalar_calls"] += 1
            try:
                got = float(ro.stress(e))
            except RuntimeError:
                nst["scalar_raised"] += 1
                continue
            if not (abs(got - ref) <= newton_band(ref)):
                nst["silent_bad"] += 1
                return (f"stress({e!r}) = {got!r} but the inverse of strain is {ref!r} (strain(stress(e)) = {f(got)!r}); "
                        f"scalar call, E={E!r} K={K!r} n={n!r}", "ro-newton-unconverged")
            comp = float(ro.tangential_compliance(ref))
            if abs(f(got) - e) > comp * newton_band(ref) * 1.01 + 8 * EPS * abs(e):
                nst["silent_bad"] += 1
                return (f"strain(stress({e!r})) = {f(got)!r}", "ro-newton-unconverged")
            try:
                d = float(ro.delta_stress(2 * e))
                if not (abs(d - 2 * ref) <= 2 * newton_band(ref)):
                    return (f"delta_stress({2 * e!r}) = {d!r} but the doubled inverse is {2 * ref!r}", "ro-newton-unconverged")
                back = float(ro.delta_strain(d))
                if abs(back - 2 * e) > 2 * (comp * newton_band(ref) * 1.01 + 8 * EPS * abs(e)):
                    return (f"delta_strain(delta_stress({2 * e!r})) = {back!r}", "ro-masing")
            except RuntimeError:
                pass
        # the user's solver tolerances are honoured (keyword-only rtol / tol), by stress and by delta_stress' defaults:
        # a tighter request gives a value inside the tighter band; the defaults are the documented 1e-5 / 1e-6
        for (e, _sk), ref in list(zip(targets, refs))[:3]:
            try:
                tight = float(ro.stress(e, rtol=1e-10, tol=1e-11))
            except RuntimeError:
                continue
            if not (abs(tight - ref) <= 2.0 * (1e-11 + 1e-10 * abs(ref)) + 64 * EPS * abs(ref)):
                return (f"stress({e!r}, rtol=1e-10, tol=1e-11) = {tight!r}: not within the requested tolerance of the inverse "
                        f"{ref!r} (the keyword tolerances are ignored?), E={E!r} K={K!r} n={n!r}", "ro-newton-tolerance")
            try:
                if f2h(float(ro.stress(e))) != f2h(float(ro.stress(e, rtol=NEWTON_RTOL, tol=NEWTON_TOL))):
                    return (f"stress({e!r}) differs from stress({e!r}, rtol=1e-5, tol=1e-6): the default tolerances changed", "ro-newton-tolerance")
            except RuntimeError:
                pass
        # vectorised call: the same values, elementwise
        es = np.asarray([t[0] for t in targets], dtype=float)
        if len(es):
            nst["vector_calls"] += 1
            try:
                got = np.asarray(ro.stress(es), dtype=float)
            except RuntimeError:
                nst["vector_raised"] += 1
                got = None
            if got is not None:
                for e, g, ref in zip(es, got, refs):
                    if not (abs(float(g) - ref) <= newton_band(ref)):
                        nst["silent_bad"] += 1
                        return (f"stress(array)[e={float(e)!r}] = {float(g)!r} but the inverse of strain is {ref!r} "
                                f"(strain(stress(e)) = {f(float(g))!r}); vectorised call returned an unconverged "
                                f"iterate without raising, E={E!r} K={K!r} n={n!r}", "ro-newton-unconverged")
                try:
                    dv = np.asarray(ro.delta_stress(2.0 * es), dtype=float)
                    for e, g, ref in zip(es, dv, refs):
                        if not (abs(float(g) - 2 * ref) <= 2 * newton_band(ref)):
                            return (f"delta_stress(array)[{2 * float(e)!r}] = {float(g)!r} but the doubled inverse is {2 * ref!r}",
                                    "ro-newton-unconverged")
                except RuntimeError:
                    pass
        return None

    @staticmethod
    def _array_vs_scalar(fn, point, other, what):
        """fn(*arrays) == elementwise fn(*scalars): every argument becomes the array [point_i, other_i, point_i]; the
        results must have that shape and, element by element, the bits of the scalar calls (only + - * / on doubles)"""
        arrs = [np.asarray([p, o, p], dtype=float) for p, o in zip(point, other)]
        before = [a.copy() for a in arrs]
        ra = fn(*arrs)
        ra = ra if isinstance(ra, tuple) else (ra,)
        # the caller's arrays are arguments, not scratch space: a conversion that is "exact for the value returned" but leaves
        # the record changed makes the next conversion of the same record wrong (seeded change C16-m6)
        for k, (a, b) in enumerate(zip(arrs, before)):
            if not np.array_equal(a, b, equal_nan=True):
                return (f"{what}: the call changed its argument {k} in place: {b.tolist()!r} -> {a.tolist()!r}; a second conversion of "
                        f"the same record then gives a different result", "array-scalar")
        for j, (pt, lab) in enumerate(((point, "first"), (other, "second"), (point, "third"))):
            rs = fn(*pt)
            rs = rs if isinstance(rs, tuple) else (rs,)
            if len(rs) != len(ra):
                return (f"{what}: array call returns {len(ra)} components, scalar call {len(rs)}", "array-scalar")
            for comp, (a, sc) in enumerate(zip(ra, rs)):
                a = np.asarray(a, dtype=float)
                if a.shape != (3,):
                    return (f"{what}: component {comp} of the array call has shape {a.shape}, expected (3,)", "array-scalar")
                if not core.close(float(a[j]), float(np.asarray(sc)), rtol=1e-13 * TS):
                    return (f"{what}: component {comp} of the array call, {lab} element = {float(a[j])!r}, scalar call = "
                            f"{float(np.asarray(sc))!r} at {pt!r}", "array-scalar")
        return None

    def _hooke_shape_guard(self, h, k, what):
        """components of different shapes are rejected (the documented ValueError), whether or not numpy could broadcast them"""
        for bad in ([np.zeros(2)] + [np.zeros(3)] * (k - 1), [np.zeros(2)] + [0.0] * (k - 1)):
            for meth in ("stress", "strain"):
                try:
                    getattr(h, meth)(*bad)
                except ValueError:
                    continue
                return (f"{what}.{meth} accepted components of different shapes {[np.shape(b) for b in bad]!r}", "array-scalar")
        return None

    def _oracle_hooke(self, c):
        _, H, _ = mods()
        E, nu, var = c["E"], c["nu"], c["var"]
        if var == "1d":
            h = H.HookesLaw1d(E)
            x = c["s"][0]
            if abs(float(h.stress(h.strain(x))) - x) > 4 * EPS * abs(x) or abs(float(h.strain(h.stress(c["e"][0]))) - c["e"][0]) > 4 * EPS * abs(c["e"][0]):
                return (f"1D round trip fails at {x!r}", "hooke-roundtrip")
            for meth, pt in (("stress", c["e"]), ("strain", c["s"])):
                res = self._array_vs_scalar(getattr(h, meth), pt, [-0.37 * pt[0]], f"HookesLaw1d.{meth}")
                if res is not None:
                    return res
            return None
        valid = -1 <= nu <= 0.5
        classes = [H.HookesLaw2dPlaneStress, H.HookesLaw2dPlaneStrain, H.HookesLaw3d]
        if not valid:
            for cls in classes:
                try:
                    cls(E, nu)
                    return (f"{cls.__name__}(E, nu={nu!r}) accepted a Poisson ratio outside [-1, 1/2]", "hooke-guard")
                except ValueError:
                    pass
            return None
        if not (-1 < nu < 0.5):
            return None
        ps, pe, h3 = (cls(E, nu) for cls in classes)
        cond = 1.0 + 1.0 / ((1 + nu) * (1 - 2 * nu)) + 1.0 / (1 - nu)
        tol = 1024 * EPS * cond
        for h in (ps, pe, h3):
            if not core.close(h.G, E / (2 * (1 + nu)), rtol=4 * EPS) or not core.close(h.K, E / (3 * (1 - 2 * nu)), rtol=4 * EPS):
                return (f"G = {h.G!r}, K = {h.K!r} do not follow from E = {E!r}, nu = {nu!r}", "hooke-moduli")

        def near(a, b, scale):
            # relative to the largest magnitude involved (results can exceed E*|e| by the factor cond)
            m = max([abs(float(scale))] + [abs(float(x)) for x in a] + [abs(float(y)) for y in b])
            return all(abs(float(x) - float(y)) <= tol * m for x, y in zip(a, b))

        def vec(t):
            return [float(np.asarray(x)) for x in t]

        # array = scalar (all components, both directions) and the shape guard, for the law of this case
        h = {"ps": ps, "pe": pe, "3d": h3}[var]
        for meth, pt in (("stress", c["e"]), ("strain", c["s"])):
            other = [-0.37 * x for x in reversed(pt)]
            res = self._array_vs_scalar(getattr(h, meth), pt, other, f"{type(h).__name__}.{meth}")
            if res is not None:
                return res
        res = self._hooke_shape_guard(h, len(c["e"]), type(h).__name__)
        if res is not None:
            return res

        if var == "3d":
            e, s = c["e"], c["s"]
            se, ss = max(map(abs, e)) or 1.0, max(map(abs, s)) or 1.0
            if not near(vec(h3.strain(*vec(h3.stress(*e)))), e, se):
                return (f"3D strain(stress(e)) != e for e = {e!r}: {vec(h3.strain(*vec(h3.stress(*e))))!r}", "hooke-roundtrip")
            if not near(vec(h3.stress(*vec(h3.strain(*s)))), s, ss):
                return (f"3D stress(strain(s)) != s for s = {s!r}: {vec(h3.stress(*vec(h3.strain(*s))))!r}", "hooke-roundtrip")
            sig = vec(h3.stress(*e))
            if abs(sum(sig[:3]) / 3 - h3.K * sum(e[:3])) > tol * E * se * 3:
                return (f"mean stress != K * volumetric strain for e = {e!r}", "hooke-moduli")
            tau = s[0]
            ee = vec(h3.strain(tau, -tau, 0, 0, 0, 0))
            if abs((ee[0] - ee[1]) - tau / h3.G) > tol * abs(tau / h3.G):
                return (f"pure shear {tau!r} in rotated axes does not strain with the shear modulus G", "hooke-moduli")
            # array = scalar
            arr = [np.asarray([x, 2 * x]) for x in e]
            sa = h3.stress(*arr)
            if any(float(a[0]) != b for a, b in zip(sa, sig)):
                return (f"3D stress: array call differs from scalar call for e = {e!r}", "array-scalar")
            return None
        a, b, g = c["e"]
        sa, sb, sc = c["s"]
        se, ss = max(map(abs, c["e"])) or 1.0, max(map(abs, c["s"])) or 1.0
        if var == "ps":
            e = vec(ps.strain(sa, sb, sc))
            if not near(vec(ps.stress(e[0], e[1], e[3])), [sa, sb, sc], ss):
                return (f"plane stress: stress(strain(s)) != s for s = {c['s']!r}", "hooke-roundtrip")
            s = vec(ps.stress(a, b, g))
            e2 = vec(ps.strain(*s))
            if not near([e2[0], e2[1], e2[3]], [a, b, g], se) or abs(e2[2] - (-nu / (1 - nu)) * (a + b)) > tol * se:
                return (f"plane stress: strain(stress(e)) != e for e = {c['e']!r}: {e2!r}", "hooke-roundtrip")
            e3 = vec(h3.strain(sa, sb, 0.0, sc, 0.0, 0.0))
            if not near(e3, [e[0], e[1], e[2], e[3], 0.0, 0.0], ss / E):
                return (f"plane stress strain {e!r} != 3D strain at s33 = 0 {e3!r} for s = {c['s']!r}", "hooke-3d-consistency")
            # the exact out-of-plane strain (e2[2] was just checked against it): feeding the round-tripped e2[2] would
            # square the condition number 1/((1+nu)(1-2nu)) near the limits of nu
            s3 = vec(h3.stress(a, b, (-nu / (1 - nu)) * (a + b), g, 0.0, 0.0))
            if not near(s3, [s[0], s[1], 0.0, s[2], 0.0, 0.0], E * se):
                return (f"plane stress stress {s!r} != 3D stress with the plane-stress e33 {s3!r} for e = {c['e']!r}", "hooke-3d-consistency")
        else:
            s = vec(pe.stress(a, b, g))
            if not near(vec(pe.strain(s[0], s[1], s[3])), [a, b, g], se):
                return (f"plane strain: strain(stress(e)) != e for e = {c['e']!r}", "hooke-roundtrip")
            e = vec(pe.strain(sa, sb, sc))
            s2 = vec(pe.stress(*e))
            if not near(s2, [sa, sb, nu * (sa + sb), sc], ss):
                return (f"plane strain: stress(strain(s)) != s for s = {c['s']!r}: {s2!r}", "hooke-roundtrip")
            s3 = vec(h3.stress(a, b, 0.0, g, 0.0, 0.0))
            if not near(s3, [s[0], s[1], s[2], s[3], 0.0, 0.0], E * se):
                return (f"plane strain stress {s!r} != 3D stress at e33 = 0 {s3!r} for e = {c['e']!r}", "hooke-3d-consistency")
            e3 = vec(h3.strain(sa, sb, nu * (sa + sb), sc, 0.0, 0.0))
            if not near(e3, [e[0], e[1], 0.0, e[2], 0.0, 0.0], ss / E):
                return (f"plane strain strain {e!r} != 3D strain with s33 = nu(s11+s22) {e3!r} for s = {c['s']!r}", "hooke-3d-consistency")
        return None

    def _oracle_true(self, c):
        _, _, T = mods()
        for e in c["e"]:
            t = float(T.true_strain(e))
            if abs(math.expm1(t) - e) > 8 * EPS * (1 + abs(e)):
                return (f"exp(true_strain({e!r})) - 1 = {math.expm1(t)!r}", "true-inverse")
            if abs(float(T.true_strain(math.expm1(t))) - t) > 8 * EPS * (1 + abs(t)):
                return (f"true_strain(exp(t) - 1) != t at t = {t!r}", "true-inverse")
            for s in c["s"]:
                ts = float(T.true_stress(s, e))
                if abs(ts / (1 + e) - s) > 4 * EPS * abs(s) or abs(float(T.true_stress(s / (1 + e), e)) - s) > 4 * EPS * abs(s):
                    return (f"true_stress({s!r}, {e!r}) / (1 + e) = {ts / (1 + e)!r}", "true-inverse")
            va = np.asarray(T.true_strain(np.asarray([e, e])), dtype=float)
            if not core.close(float(va[0]), t, rtol=1e-14 * TS):
                return (f"true_strain: array call differs from scalar call at {e!r}", "array-scalar")
        e0, e1 = c["e"][0], c["e"][1]
        s0, s1 = c["s"][0], c["s"][1]
        z0, z1 = c["Z"][0], c["Z"][1]
        for fn, pt, other, what in ((T.true_strain, [e0], [e1], "true_strain"), (T.true_stress, [s0, e0], [s1, e1], "true_stress"),
                                    (T.true_fracture_strain, [z0], [z1], "true_fracture_strain"),
                                    (T.true_fracture_stress, [c["F"], c["A"], z0], [0.5 * c["F"], 2.0 * c["A"], z1], "true_fracture_stress")):
            res = self._array_vs_scalar(fn, pt, other, what)
            if res is not None:
                return res
        for z in c["Z"]:
            t = float(T.true_fracture_strain(z))
            if abs(-math.expm1(-t) - z) > 8 * EPS * (1 + abs(z)):
                return (f"1 - exp(-true_fracture_strain({z!r})) = {-math.expm1(-t)!r}", "true-inverse")
            if abs(t - float(T.true_strain(1.0 / (1.0 - z) - 1.0))) > 16 * EPS * (1 + abs(t)):
                return (f"true_fracture_strain({z!r}) != true_strain(1/(1-Z) - 1)", "true-inverse")
            fs = float(T.true_fracture_stress(c["F"], c["A"], z))
            if abs(fs * (c["A"] * (1 - z)) - c["F"]) > 8 * EPS * abs(c["F"]):
                return (f"true_fracture_stress * reduced area != force at Z = {z!r}", "true-inverse")
            if abs(fs - float(T.true_stress(c["F"] / c["A"], 1.0 / (1.0 - z) - 1.0))) > 16 * EPS * abs(fs):
                return (f"true_fracture_stress != true_stress(F/A, 1/(1-Z) - 1) at Z = {z!r}", "true-inverse")
        return None

    # ------------------------------------------------------------------ shrinking
    def shrink(self, case, still_fails):
        c = dict(case)
        if c["kind"] == "ro":
            for key in ("strain", "stress"):
                lst = list(c[key])
                i = 0
                while i < len(lst) and len(lst) > (1 if key == "stress" else 0):
                    trial = dict(c)
                    trial[key] = lst[:i] + lst[i + 1:]
                    if key == "stress" and not trial[key]:
                        break
                    try:
                        ok = still_fails(trial)
                    except Exception:
                        ok = False
                    if ok:
                        lst = trial[key]
                        c = trial
                    else:
                        i += 1
            for key in ("E", "K", "n"):
                for digits in (0, 1, 2, 3):
                    trial = dict(c)
                    trial[key] = round(c[key], digits) if key != "n" else round(c[key], digits + 1)
                    if trial[key] > 0 and trial[key] != c[key]:
                        try:
                            if still_fails(trial):
                                c = trial
                                break
                        except Exception:
                            pass
        elif c["kind"] == "hooke":
            for key in ("e", "s"):
                for i in range(len(c[key])):
                    trial = dict(c)
                    trial[key] = list(c[key])
                    trial[key][i] = 0.0
                    try:
                        if trial[key] != c[key] and still_fails(trial):
                            c = trial
                    except Exception:
                        pass
        return c
