"""C12: mean stress transformation along the iso-damage lines of a Haigh diagram.

Implementation side (real pylife, in-process), generators, correspondence lines and the direct
property oracle (closed forms written here independently of both the code and the Lean model)."""
import json
import math
import warnings

import numpy as np
import pandas as pd

from . import core
from .core import Prop, f2h, h2f

INF = math.inf
_MST = None


def mst():
    global _MST
    if _MST is None:
        warnings.simplefilter("ignore")
        import pylife.strength.meanstress as M
        _MST = M
    return _MST


# ---------------------------------------------------------------- JSON-able floats
def enc(x):
    x = float(x)
    if x == INF:
        return "inf"
    if x == -INF:
        return "-inf"
    return x


def dec(x):
    return float(x)


# ---------------------------------------------------------------- independent specification
def pos(R):
    """Abscissa of the ray R in the normalised Haigh diagram (mean / amplitude)."""
    if R in (INF, -INF):
        return -1.0
    return (1.0 + R) / (1.0 - R)


def haigh_segments(diag):
    """The diagram as a list of (s_lo, s_hi, M) covering the mean/amplitude axis from left to right,
    or None if it is not of the standard shape (exactly one segment beyond R = 1, namely (1, inf])."""
    kind, p = diag
    if kind == "g":
        M, M2 = p
        return [(-INF, -1.0, 0.0), (-1.0, 1.0, M), (1.0, INF, M2)]
    if kind == "f":
        M0, M1, M2, M3, M4, R12, R23 = p
        return [(-INF, -1.0, M4), (-1.0, 1.0, M0), (1.0, pos(R12), M1), (pos(R12), pos(R23), M2), (pos(R23), INF, M3)]
    segs = [(dec(p[i]), dec(p[i + 1]), dec(p[i + 2])) for i in range(0, len(p), 3)]
    beyond = [s for s in segs if s[0] >= 1.0]
    if len(beyond) != 1 or beyond[0][0] != 1.0 or beyond[0][1] != INF:
        return None
    rest = sorted((s for s in segs if s[0] < 1.0), key=lambda s: s[0])
    out = [(-INF, -1.0, beyond[0][2])]
    for lo, hi, M in rest:
        out.append((pos(lo), INF if hi == 1.0 else pos(hi), M))
    return out


def walk(segs, a, m, Rg):
    """Amplitude after moving the cycle (a, m) along the iso-damage lines to the ray Rg; nan when the
    exact iso-damage amplitude does not stay positive (outside the property's quantifier)."""
    s, sg = m / a, pos(Rg)
    f, cur = 1.0, s
    order = segs if sg >= s else list(reversed(segs))
    for lo, hi, M in order:
        if sg >= s:
            if hi <= cur:
                continue
            if lo >= sg:
                break
            nxt = min(hi, sg)
        else:
            if lo >= cur:
                continue
            if hi <= sg:
                break
            nxt = max(lo, sg)
        if 1.0 + M * cur <= 1e-9 or 1.0 + M * nxt <= 1e-9:
            return math.nan
        f *= (1.0 + M * cur) / (1.0 + M * nxt)
        cur = nxt
    return a * f


def goodman_closed_form(a, m, M, M2, Rg):
    """Textbook FKM-Goodman: equivalent amplitude at R = -1, then back to the target ray."""
    if m < -a:                      # R > 1
        eq = a * (1.0 - M)
    elif m <= a:                    # -inf <= R <= 0
        eq = a + M * m
    else:                           # 0 < R < 1
        eq = (1.0 + M) * (a + M2 * m) / (1.0 + M2)
    if Rg > 1.0:
        return eq / (1.0 - M)
    sg = pos(Rg)
    if Rg <= 0.0:
        return eq / (1.0 + M * sg)
    return eq / (1.0 + M) * (1.0 + M2) / (1.0 + M2 * sg)


def close(a, b, rtol=1e-9):
    return abs(a - b) <= rtol * max(1.0, abs(a), abs(b))


# ---------------------------------------------------------------- implementation side
def make_hd(diag):
    M = mst()
    kind, p = diag
    if kind == "g":
        return M.HaighDiagram.fkm_goodman(pd.Series({"M": p[0], "M2": p[1]}))
    if kind == "f":
        return M.HaighDiagram.five_segment(pd.Series(dict(zip(["M0", "M1", "M2", "M3", "M4", "R12", "R23"], p))))
    d = {(dec(p[i]), dec(p[i + 1])): dec(p[i + 2]) for i in range(0, len(p), 3)}
    return M.HaighDiagram.from_dict(d)


def frame_of(iface, cyc):
    x = np.array([dec(c[0]) for c in cyc], dtype=float)
    y = np.array([dec(c[1]) for c in cyc], dtype=float)
    if iface == "ft":
        return pd.DataFrame({"from": x, "to": y})
    return pd.DataFrame({"range": x, "mean": y})


def amp_mean(iface, c):
    x, y = dec(c[0]), dec(c[1])
    if iface == "ft":
        return abs(x - y) / 2.0, (x + y) / 2.0
    return x / 2.0, y


def run_chain(diag, iface, cyc, goals):
    """HaighDiagram.transform applied successively; list of result frames."""
    hd = make_hd(diag)
    frame = frame_of(iface, cyc)
    out = []
    for g in goals:
        frame = hd.transform(frame, dec(g))
        out.append(frame)
    return out


def matrix_of(case):
    mst()
    ex = np.array(case["ex"], dtype=float)
    ey = np.array(case["ey"], dtype=float)
    names = ["from", "to"] if case["layout"] == "ft" else ["range", "mean"]
    ix = pd.IntervalIndex.from_breaks(ex)
    iy = pd.IntervalIndex.from_breaks(ey)
    levels, lnames = [ix, iy], list(names)
    extra = case.get("extra", 0)
    if extra:
        levels = levels + [pd.Index(list(range(extra)))]
        lnames = lnames + ["node"]
        if case.get("extra_first"):
            levels = [levels[2], levels[0], levels[1]]
            lnames = [lnames[2], lnames[0], lnames[1]]
    idx = pd.MultiIndex.from_product(levels, names=lnames)
    vals = np.array(case["counts"], dtype=float)
    ser = pd.Series(vals, index=idx, name="cycles")
    if case.get("nonzero_only"):
        ser = ser[ser.values > 0]
    return ser, names


class C12(Prop):
    ID = "C12"
    SOURCES = [
        "src/pylife/strength/meanstress.py",
        "src/pylife/stress/collective/load_collective.py",
        "src/pylife/stress/collective/load_histogram.py",
    ]
    LEAN_MODULES = ["Proofs.C12", "Proofs.C12General"]
    PARALLEL = 8          # impl_lines / oracle are sharded over forked processes by core.pmap
    THEOREMS = [
        "PylifeVerif.C12.transform_conserves_potential",
        "PylifeVerif.C12.goodman_arrives_at_target",
        "PylifeVerif.C12.goodman_eq_closed_form",
        "PylifeVerif.C12.goodman_fixes_target_R",
        "PylifeVerif.C12.goodman_idempotent",
        "PylifeVerif.C12.goodman_path_independent",
        "PylifeVerif.C12.goodman_monotone_in_amplitude_fixed_R",
        "PylifeVerif.C12.goodman_closed_form_monotone_continuous",
        # every gap-free diagram with exactly one segment beyond R = 1 (Proofs/C12General.lean): potential constructed, arrival proved
        "PylifeVerif.C12.stdDiagram_has_potential",
        "PylifeVerif.C12.transform_arrives",
        "PylifeVerif.C12.transform_path_independent",
        "PylifeVerif.C12.transform_idempotent",
        "PylifeVerif.C12.transform_fixes_target",
        "PylifeVerif.C12.transform_monotone_continuous_fixed_mean_std",
        "PylifeVerif.C12.transform_monotone_in_amplitude_fixed_R",
        "PylifeVerif.C12.fiveSegment_arrives_at_target",
        "PylifeVerif.C12.fiveSegment_path_independent",
        "PylifeVerif.C12.fiveSegment_idempotent",
        "PylifeVerif.C12.fiveSegment_fixes_target_R",
        "PylifeVerif.C12.fiveSegment_monotone_continuous_fixed_mean",
        "PylifeVerif.C12.transform_path_independent_partial",
        "PylifeVerif.C12.transform_fixes_target_partial",
        "PylifeVerif.C12.rebin_conserves_cycles",
        "PylifeVerif.C12.split_beyond_R1_fails_at_witness",
    ]
    PARTIAL = {
        "PylifeVerif.C12.transform_path_independent":
            "full for every gap-free diagram in standard form (exactly one segment (1,inf] beyond R = 1, at least one border below 1, "
            "positive iso-damage amplitude at every kink) in any listing order; NOT covered: diagrams with several segments beyond R = 1 - there "
            "the real code does not follow the iso-damage lines (open finding split-beyond-R1, refuted in the kernel at the witness: "
            "split_beyond_R1_fails_at_witness) - and the two-segment diagram {(1,inf], (-inf,1]}",
    }
    RULE = ("case 'cyc' = (diagram: FKM-Goodman M,M2 | five-segment 7 parameters | from_dict segments; interface range/mean or "
            "from/to frame; 1 or 2 successive targets incl. -inf and R > 1; cycles incl. those on every segment border and at "
            "R = -inf): model and HaighDiagram.transform must give bit-identical range/mean/amplitude for every cycle; "
            "case 'mat' = rainflow matrix (from/to or range/mean classes, optional extra index level) through "
            "series.meanstress_transform.fkm_goodman: model and code must give the same number of classes and bit-identical class sums. "
            "Oracle on the real code alone: = textbook Goodman closed form, = segment-walk along iso-damage lines (any diagram), "
            "idempotence, fixed target, path independence, monotone + continuous in amplitude, plain function = collective accessor "
            "(Series and per-row DataFrame parameters) = histogram accessor, matrix total conserved.")
    ASSUMPTIONS = [
        "C12: pandas glue (broadcast of the diagram over the collective index, xs/loc selection per segment, IntervalIndex.mid, "
        "stable sort_values for <= 16 segments) is modelled per cycle: each cycle sees the segments of its own diagram row in the "
        "order of the sort keys; validated by the correspondence incl. per-row parameter frames",
        "C12: np.hypot/np.sqrt (class width of the re-binning) are computed by numpy in the harness and handed to the model; "
        "np.linspace is modelled as i*(max/n) with the last break = max",
        "C12: targets R = 1 (raises ZeroDivisionError / meaningless) and R = +inf (not a value the collectives produce; the code "
        "returns amplitude 0 for R > 1 cycles) are outside the modelled domain; cycles have amplitude > 0",
        "C12: the model follows the code after tools/fixes/C12-beyond-R1-key.diff",
    ]

    def __init__(self):
        self.stats = {"cyc_cases": 0, "mat_cases": 0, "cycles": 0, "by_diagram": {}, "targets": {"-inf": 0, "gt1": 0, "le0": 0, "0..1": 0},
                      "border_cycles": 0, "neginf_cycles": 0, "beyond1_cycles": 0, "two_goal_cases": 0, "guard_skipped": 0,
                      "mat_layouts": {}, "mat_classes_total": 0, "oracle_checks": 0}
        self.exhaustive = False

    # ------------------------------------------------------------ generators
    GOODMAN = [(0.0, 0.0), (0.3, 0.1), (0.5, 0.5 / 3), (0.25, 0.25), (0.75, 0.125), (0.5, 0.0), (0.9375, 0.3125)]
    FIVE = [
        (0.5, 0.5 / 3, 0.5 / 6, 1.0, -2.0, 0.4, 0.8),        # the test-suite's set
        (0.5, 0.25, 0.125, 0.0625, 0.25, 0.25, 0.5),
        (0.3, 0.1, 0.05, 0.0, 0.0, 0.5, 0.75),
        (0.4, 0.4, 0.2, 0.2, 0.1, 0.2, 0.6),
        (0.25, 0.125, 0.125, 0.5, -0.5, 0.125, 0.875),
    ]
    DICTS = [
        ["d", [1.0, "inf", 0.1, "-inf", -2.0, 0.2, -2.0, 0.0, 0.3, 0.0, 1.0, 0.1]],
        ["d", [1.0, "inf", 0.25, "-inf", -1.0, 0.5, -1.0, 0.0, 0.25, 0.0, 0.5, 0.125, 0.5, 1.0, 0.0]],
        ["d", [1.0, "inf", 0.0, "-inf", 1.0, 0.25]],
    ]
    DICT_SPLIT = ["d", [1.0, 2.0, 0.1, 2.0, "inf", 0.2, "-inf", 0.0, 0.3, 0.0, 1.0, 0.1]]

    def borders(self, diag):
        kind, p = diag
        if kind == "g":
            return [0.0]
        if kind == "f":
            return [0.0, p[5], p[6]]
        return sorted({dec(p[i + 1]) for i in range(0, len(p), 3) if -INF < dec(p[i + 1]) < 1.0})

    def gen_goal(self, rng, diag):
        b = self.borders(diag)
        mids = [0.5 * (x + y) for x, y in zip(b, b[1:] + [1.0])]
        c = rng.random()
        if c < 0.12:
            return -INF
        if c < 0.3:
            return rng.choice([1.5, 2.0, 3.0, 10.0, 1.0625, round(rng.uniform(1.01, 8.0), 3)])
        if c < 0.5:
            return rng.choice(b + mids + [-1.0])        # borders and the points where a sort key equals the goal key
        if c < 0.7:
            return rng.choice([-1.0, -3.0, -0.5, -1.0 / 3.0, round(rng.uniform(-6.0, 0.0), 3)])
        return rng.choice([0.1, 0.5, 0.3, 0.75, 0.9, 0.95, 1.0 / 3.0, round(rng.uniform(0.0, 0.99), 3)])

    def gen_cycles(self, rng, diag, n):
        b = self.borders(diag)
        out = []
        for _ in range(n):
            a = rng.choice([1.0, 2.0, 0.5, 3.0, round(rng.uniform(0.1, 5.0), 3)])
            c = rng.random()
            if c < 0.25:        # on a segment border / at R = -inf (upper = 0)
                R = rng.choice(b + [-INF, -1.0])
                m = -a if R == -INF else a * (1.0 + R) / (1.0 - R)
            elif c < 0.45:      # R > 1
                m = -a * rng.choice([1.5, 2.0, 3.0, 1.25, round(rng.uniform(1.01, 4.0), 3)])
            else:
                m = a * rng.choice([-0.75, -0.5, 0.0, 0.5, 0.75, 1.5, 2.0, 3.0, 5.0, 12.0, 50.0, round(rng.uniform(-1.0, 20.0), 3)])
            out.append((a, m))
        return out

    def gen_cyc_case(self, rng):
        c = rng.random()
        if c < 0.4:
            M, M2 = rng.choice(self.GOODMAN) if rng.random() < 0.6 else (lambda M: (M, round(rng.uniform(0.0, M), 3)))(round(rng.uniform(0.0, 0.95), 3))
            diag = ["g", [M, M2]]
        elif c < 0.8:
            diag = ["f", list(rng.choice(self.FIVE))]
            if rng.random() < 0.3:
                p = diag[1]
                p[5] = round(rng.uniform(0.05, 0.45), 3)
                p[6] = round(rng.uniform(0.5, 0.95), 3)
        elif c < 0.95:
            diag = json.loads(json.dumps(rng.choice(self.DICTS)))
        else:
            diag = json.loads(json.dumps(self.DICT_SPLIT))
        goals = [self.gen_goal(rng, diag)]
        if rng.random() < 0.5:
            goals.append(self.gen_goal(rng, diag))
        iface = rng.choice(["rm", "rm", "ft"])
        cyc = []
        for a, m in self.gen_cycles(rng, diag, rng.choice([1, 4, 8, 12])):
            if iface == "rm":
                cyc.append([enc(2.0 * a), enc(m)])
            else:
                fr, to = m - a, m + a
                cyc.append([enc(to), enc(fr)] if rng.random() < 0.5 else [enc(fr), enc(to)])
        return {"k": "cyc", "diag": diag, "goals": [enc(g) for g in goals], "iface": iface, "cyc": cyc}

    def gen_mat_case(self, rng):
        M, M2 = rng.choice(self.GOODMAN)
        layout = rng.choice(["ft", "rm"])
        nx, ny = rng.choice([2, 3, 5, 8]), rng.choice([2, 3, 5, 8])
        if layout == "ft":
            lo = rng.choice([-4.0, -1.0, 0.0, -2.5])
            w = rng.choice([0.5, 1.0, 0.25, 0.3, 0.75])
            ex = [lo + i * w for i in range(nx + 1)]
            wy = w if rng.random() < 0.6 else rng.choice([0.5, 1.0, 0.4])
            lo2 = lo if rng.random() < 0.6 else rng.choice([-3.0, -0.5, 1.0])
            ey = [lo2 + i * wy for i in range(ny + 1)]
        else:
            w = rng.choice([0.5, 1.0, 0.25, 0.3])
            ex = [i * w for i in range(nx + 1)]
            lo = rng.choice([-4.0, -1.0, 0.0, -1.0 / 12.0])
            wy = rng.choice([0.5, 1.0, 0.3])
            ey = [lo + i * wy for i in range(ny + 1)]
        extra = rng.choice([0, 0, 0, 2, 3])
        ncell = nx * ny * max(extra, 1)
        dens = rng.choice([0.2, 0.6, 1.0])
        counts = [float(rng.randrange(1, 50)) if rng.random() < dens else 0.0 for _ in range(ncell)]
        if not any(counts):
            counts[rng.randrange(ncell)] = 7.0
        goal = rng.choice([-1.0, 0.0, -1.0 / 3.0, 1.0 / 3.0, 0.5, -0.5, 0.9, round(rng.uniform(-1.0, 0.99), 3)])
        return {"k": "mat", "diag": ["g", [M, M2]], "goal": goal, "layout": layout, "ex": ex, "ey": ey, "counts": counts,
                "extra": extra, "extra_first": rng.random() < 0.5, "nonzero_only": rng.random() < 0.4}

    def generate(self, rng, tier):
        n_cyc, n_mat = (150, 40) if tier == "quick" else (1700, 350)
        cases = []
        # systematic grid: every Goodman / five-segment parameter set x structured targets x structured cycles
        for diag in [["g", list(p)] for p in self.GOODMAN[:4]] + [["f", list(p)] for p in self.FIVE[:3]]:
            b = self.borders(diag)
            mids = [0.5 * (x + y) for x, y in zip(b, b[1:] + [1.0])]
            targets = [-INF, -3.0, -1.0] + b + mids + [0.96875, 1.5, 4.0]
            cyc = [[2.0, enc(-1.0 if R == -INF else (1.0 + R) / (1.0 - R))] for R in [-INF, -1.0, -0.5] + b + mids + [0.9375]]
            cyc += [[2.0, -3.0], [2.0, -1.5], [1.0, 6.0]]
            for g in targets:
                cases.append({"k": "cyc", "diag": diag, "goals": [enc(g)], "iface": "rm", "cyc": cyc})
        self.exhaustive = False
        for _ in range(n_cyc):
            cases.append(self.gen_cyc_case(rng))
        for _ in range(n_mat):
            cases.append(self.gen_mat_case(rng))
        for i, c in enumerate(cases):      # the expensive oracle parts (monotony, interfaces) on every 4th case
            if c["k"] == "cyc" and i % 4 == 0:
                c["deep"] = True
        return cases

    # ------------------------------------------------------------ correspondence
    def model_lines(self, case):
        if case["k"] == "cyc":
            kind, p = case["diag"]
            toks = ["mst", case["iface"], kind, str(len(p))] + [f2h(dec(x)) for x in p]
            toks += [str(len(case["goals"]))] + [f2h(dec(g)) for g in case["goals"]]
            for c in case["cyc"]:
                toks += [f2h(dec(c[0])), f2h(dec(c[1]))]
            return [" ".join(toks)]
        ser, names = matrix_of(case)
        if len(ser) == 0:
            return []
        rng_, mean_, binsize = self._mat_inputs(ser, names)
        kind, p = case["diag"]
        toks = ["mstmat", kind, str(len(p))] + [f2h(x) for x in p] + [f2h(case["goal"]), f2h(binsize)]
        for r, m, n in zip(rng_, mean_, ser.values):
            toks += [f2h(r), f2h(m), f2h(n)]
        return [" ".join(toks)]

    @staticmethod
    def _mat_inputs(ser, names):
        a = ser.index.get_level_values(names[0])
        b = ser.index.get_level_values(names[1])
        if names[0] == "from":
            rng_ = np.abs(np.asarray(a.mid) - np.asarray(b.mid))
            mean_ = (np.asarray(a.mid) + np.asarray(b.mid)) / 2.0
        else:
            rng_ = np.asarray(a.mid, dtype=float)
            mean_ = np.asarray(b.mid, dtype=float)
        binsize = float(np.hypot(a.length.min(), b.length.min()) / np.sqrt(2.0))
        return rng_, mean_, binsize

    def impl_lines(self, case):
        try:
            return self._impl_lines(case)
        except (TypeError, ValueError, KeyError, IndexError, ZeroDivisionError, AttributeError) as e:
            return [f"error {type(e).__name__}"]

    def _impl_lines(self, case):
        s = self.stats
        if case["k"] == "cyc":
            s["cyc_cases"] += 1
            s["cycles"] += len(case["cyc"])
            s["by_diagram"][case["diag"][0]] = s["by_diagram"].get(case["diag"][0], 0) + 1
            s["two_goal_cases"] += len(case["goals"]) > 1
            for g in case["goals"]:
                g = dec(g)
                s["targets"]["-inf" if g == -INF else "gt1" if g > 1 else "le0" if g <= 0 else "0..1"] += 1
            bset = set(self.borders(case["diag"]))
            for c in case["cyc"]:
                a, m = amp_mean(case["iface"], c)
                if m + a == 0:
                    s["neginf_cycles"] += 1
                elif m + a < 0:
                    s["beyond1_cycles"] += 1
                elif (m - a) / (m + a) in bset:
                    s["border_cycles"] += 1
            frame = run_chain(case["diag"], case["iface"], case["cyc"], case["goals"])[-1]
            amp = frame.load_collective.amplitude.to_numpy()
            return [" ".join(f"{f2h(a)} {f2h(r)} {f2h(m)}" for a, r, m in zip(amp, frame["range"].to_numpy(), frame["mean"].to_numpy()))]
        ser, names = matrix_of(case)
        if len(ser) == 0:
            return []
        s["mat_cases"] += 1
        key = case["layout"] + ("+extra" if case.get("extra") else "")
        s["mat_layouts"][key] = s["mat_layouts"].get(key, 0) + 1
        kind, p = case["diag"]
        res = ser.meanstress_transform.fkm_goodman(pd.Series({"M": p[0], "M2": p[1]}), case["goal"]).to_pandas()
        per_class = res.groupby(level="range", sort=False, observed=True).sum() if case.get("extra") else res
        per_class = per_class.sort_index(level="range") if case.get("extra") else per_class
        s["mat_classes_total"] += len(per_class)
        return [" ".join([str(len(per_class))] + [f2h(v) for v in per_class.to_numpy()])]

    def nontrivial(self, case, model_out):
        """cyc: at least one cycle's amplitude is changed by the transformation; mat: at least two classes."""
        if case["k"] == "cyc":
            if not model_out:
                return None
            toks = model_out[0].split()
            amps_out = toks[0::3]
            amps_in = [f2h(amp_mean(case["iface"], c)[0]) for c in case["cyc"]]
            moved = any(a != b for a, b in zip(amps_in, amps_out))
            return json.dumps(case, sort_keys=True) if moved else None
        return json.dumps(case, sort_keys=True) if model_out and not model_out[0].startswith(("0", "1 ")) else None

    # ------------------------------------------------------------ the property on the real code
    def classify(self, case, g, a, m):
        if haigh_segments(case["diag"]) is None:
            return "split-beyond-R1"
        if g == -INF and m + a < 0:
            return "neginf-target-beyond-R1"
        return "C12"

    def oracle(self, case):
        # an exception raised by the implementation on an input of the property's domain is a failure of the property
        try:
            if case["k"] == "mat":
                return self.oracle_mat(case)
            return self.oracle_cyc(case)
        except (TypeError, ValueError, KeyError, IndexError, ZeroDivisionError, AttributeError) as e:
            return (f"the implementation raised / returned a malformed result: {type(e).__name__}: {str(e)[:200]}", "C12")

    def oracle_cyc(self, case):
        M = mst()
        diag, iface, cyc = case["diag"], case["iface"], case["cyc"]
        goals = [dec(g) for g in case["goals"]]
        segs = haigh_segments(diag)
        walk_segs = segs
        if segs is None:       # diagram with several segments beyond R = 1: still specified by the walk
            p = diag[1]
            raw = [(dec(p[i]), dec(p[i + 1]), dec(p[i + 2])) for i in range(0, len(p), 3)]
            bey = sorted((s for s in raw if s[0] >= 1.0), key=lambda s: s[0])
            rest = sorted((s for s in raw if s[0] < 1.0), key=lambda s: s[0])
            walk_segs = [(-INF if lo == 1.0 else pos(lo), pos(hi), Mx) for lo, hi, Mx in bey]
            walk_segs += [(pos(lo), INF if hi == 1.0 else pos(hi), Mx) for lo, hi, Mx in rest]
        frames = run_chain(diag, iface, cyc, goals)
        am = [amp_mean(iface, c) for c in cyc]
        # (1) every stage follows the iso-damage lines (segment walk; Goodman additionally the textbook closed form)
        cur = am
        for g, fr in zip(goals, frames):
            nxt = []
            for (a, m), r, mm in zip(cur, fr["range"].to_numpy() / 2.0, fr["mean"].to_numpy()):
                e = walk(walk_segs, a, m, g) if a > 0 else math.nan
                self.stats["oracle_checks"] += 1
                if e != e:
                    self.stats["guard_skipped"] += 1
                    nxt.append((0.0, 0.0))
                    continue
                if not close(e, r):
                    return (f"target R={g}: cycle amplitude={a} mean={m}: transformed amplitude {r}, iso-damage walk gives {e}",
                            self.classify(case, g, a, m))
                if not close(mm, r * pos(g)):
                    return (f"target R={g}: cycle amplitude={a} mean={m}: result mean {mm} is not on the target ray (amplitude {r})",
                            self.classify(case, g, a, m))
                if diag[0] == "g":
                    cf = goodman_closed_form(a, m, diag[1][0], diag[1][1], g)
                    if not close(cf, r):
                        return (f"Goodman M={diag[1]} target R={g}: amplitude={a} mean={m}: code {r}, closed form {cf}", "C12")
                nxt.append((r, mm))
            cur = nxt
        if segs is None:
            return None
        hd = make_hd(diag)
        last, g = frames[-1], goals[-1]
        # (2) idempotence / a cycle at the target R is unchanged
        again = hd.transform(last, g)
        for i, (r0, r1) in enumerate(zip(last["range"].to_numpy(), again["range"].to_numpy())):
            if cur[i][0] > 0 and not close(r0, r1):
                return (f"not idempotent: target R={g}, cycle {cyc[i]}: range {r0} -> {r1}", self.classify(case, g, *am[i]))
        # (3) path independence: R1 then R2 = R2 directly
        if len(goals) == 2:
            direct = run_chain(diag, iface, cyc, [goals[1]])[0]
            for i, (r0, r1) in enumerate(zip(last["range"].to_numpy(), direct["range"].to_numpy())):
                if cur[i][0] > 0 and not close(r0, r1):
                    return (f"path dependent: R1={goals[0]} then R2={goals[1]} gives range {r0}, directly {r1}; cycle {cyc[i]}",
                            self.classify(case, goals[0], *am[i]))
        g0 = goals[0]
        if not case.get("deep"):
            return None
        # (4) monotone and continuous in the amplitude (fixed mean), first target
        for (a, m) in am[:3]:
            if a <= 0:
                continue
            bs = [m / pos(b) for b in self.borders(diag) + [-INF] if pos(b) != 0 and m / pos(b) > 0]
            amps = sorted({a * f for f in (0.5, 0.999, 1.0, 1.001, 2.0)} | {x * f for x in bs for f in (1 - 1e-9, 1.0, 1 + 1e-9)})
            e = [walk(segs, x, m, g0) for x in amps]
            if any(v != v for v in e):
                continue
            t = M.fkm_goodman if diag[0] == "g" else None
            fr = hd.transform(pd.DataFrame({"range": 2.0 * np.array(amps), "mean": m}), g0)
            r = fr["range"].to_numpy() / 2.0
            for i in range(1, len(amps)):
                if r[i] < r[i - 1] - 1e-9 * max(1.0, r[i]):
                    return (f"not monotone in amplitude: mean={m} target R={g0}: amplitudes {amps[i-1]}, {amps[i]} -> {r[i-1]}, {r[i]}",
                            self.classify(case, g0, amps[i], m))
                if amps[i] - amps[i - 1] <= 3e-9 * amps[i] and abs(r[i] - r[i - 1]) > 1e-6 * max(1.0, r[i]):
                    return (f"jump in amplitude: mean={m} target R={g0}: amplitudes {amps[i-1]}, {amps[i]} -> {r[i-1]}, {r[i]}",
                            self.classify(case, g0, amps[i], m))
        # (5) interfaces agree: plain function = collective accessor (Series / per-row DataFrame parameters) = histogram accessor
        a_arr = np.array([x[0] for x in am])
        m_arr = np.array([x[1] for x in am])
        df = pd.DataFrame({"range": 2.0 * a_arr, "mean": m_arr})
        if diag[0] in "gf":
            names = ["M", "M2"] if diag[0] == "g" else ["M0", "M1", "M2", "M3", "M4", "R12", "R23"]
            par = dict(zip(names, diag[1]))
            if diag[0] == "g":
                plain = M.fkm_goodman(a_arr, m_arr, par["M"], par["M2"], g0)
                acc = df.meanstress_transform.fkm_goodman(pd.Series(par), g0).amplitude.to_numpy()
                dfi = df.copy()
                dfi.index.name = "element_id"
                acc2 = dfi.meanstress_transform.fkm_goodman(pd.DataFrame({k: [v] * len(df) for k, v in par.items()}, index=dfi.index), g0).amplitude.to_numpy()
            else:
                plain = M.five_segment_correction(a_arr, m_arr, R_goal=g0, **par)
                acc = df.meanstress_transform.five_segment(pd.Series(par), g0).amplitude.to_numpy()
                dfi = df.copy()
                dfi.index.name = "element_id"
                acc2 = dfi.meanstress_transform.five_segment(pd.DataFrame({k: [v] * len(df) for k, v in par.items()}, index=dfi.index), g0).amplitude.to_numpy()
            base = hd.transform(df, g0).load_collective.amplitude.to_numpy()
            for nm, arr in (("plain function", plain), ("collective accessor (Series parameters)", acc),
                            ("collective accessor (per-row DataFrame parameters)", acc2)):
                if len(arr) != len(base) or any(f2h(x) != f2h(y) for x, y in zip(arr, base)):
                    return (f"interfaces disagree: {nm} {list(arr)} vs HaighDiagram.transform {list(base)} (target R={g0})", "C12")
        if diag[0] == "g" and len(am) >= 1:
            # histogram accessor on one-cell-per-cycle matrices: class mid = the cycle
            a, m = am[0]
            w = 0.25
            idx = pd.MultiIndex.from_arrays([pd.IntervalIndex.from_arrays([2 * a - w], [2 * a + w]),
                                             pd.IntervalIndex.from_arrays([m - w], [m + w])], names=["range", "mean"])
            ser = pd.Series([3.0], index=idx, name="cycles")
            rr = hd.transform(ser, g0)["range"].to_numpy()[0] / 2.0
            e = hd.transform(pd.DataFrame({"range": [2 * a], "mean": [m]}), g0)["range"].to_numpy()[0] / 2.0
            if not close(rr, e):
                return (f"histogram interface {rr} vs collective interface {e} for amplitude={a} mean={m} target R={g0}", "C12")
        return None

    def oracle_mat(self, case):
        ser, names = matrix_of(case)
        kind, p = case["diag"]
        if len(ser) > 0 and float(np.max(self._mat_inputs(ser, names)[0])) <= 0:
            return None      # only cycles of amplitude 0: outside the property's quantifier (the code returns an empty result)
        res = ser.meanstress_transform.fkm_goodman(pd.Series({"M": p[0], "M2": p[1]}), case["goal"]).to_pandas()
        if len(ser) == 0:
            return None if len(res) == 0 else ("empty matrix gives a non-empty result", "C12")
        self.stats["oracle_checks"] += 1
        tot_in, tot_out = float(ser.sum()), float(res.sum())
        rng_, mean_, _ = self._mat_inputs(ser, names)
        if tot_in != tot_out:
            return (f"matrix transform to R={case['goal']} does not conserve the cycles: {tot_in} in, {tot_out} out", "C12")
        if case.get("extra"):
            gi = ser.groupby(level="node").sum()
            go = res.groupby(level="node").sum()
            if not gi.sort_index().equals(go.sort_index()):
                return (f"matrix transform does not conserve the cycles per node: {gi.to_dict()} vs {go.to_dict()}", "C12")
        # the class sums are those of the cycles transformed one by one through the collective interface
        hd = make_hd(case["diag"])
        one = hd.transform(ser, case["goal"])["range"].reindex(ser.index).to_numpy()   # label-aligned with the counts
        itv = res.index.get_level_values("range").unique()
        exp = [float(ser.values[((one >= iv.left) if iv.left == 0.0 else (one > iv.left)) & (one <= iv.right)].sum()) for iv in itv]
        got = [float(res[res.index.get_level_values("range") == iv].sum()) for iv in itv]
        if exp != got:
            return (f"matrix transform to R={case['goal']}: class sums {got} but the cycles transformed one by one fall into {exp}",
                    "matrix-row-order")
        # every class of the result lies on the target ray
        lc = ser.meanstress_transform.fkm_goodman(pd.Series({"M": p[0], "M2": p[1]}), case["goal"])
        R = lc.R.to_numpy()
        amp = lc.amplitude.to_numpy()
        for r, a in zip(R, amp):
            if a > 0 and not close(r, case["goal"], 1e-7):
                return (f"result class not at the target R: {r} vs {case['goal']}", "C12")
        return None

    # ------------------------------------------------------------ shrinking
    def shrink(self, case, still_fails):
        if case["k"] == "cyc":
            cur = case
            for i in range(len(cur["cyc"]) - 1, -1, -1):
                if len(cur["cyc"]) == 1:
                    break
                cand = dict(cur, cyc=cur["cyc"][:i] + cur["cyc"][i + 1:])
                if still_fails(cand):
                    cur = cand
            if len(cur["goals"]) == 2:
                for cand in (dict(cur, goals=cur["goals"][:1]), dict(cur, goals=cur["goals"][1:])):
                    if still_fails(cand):
                        cur = cand
                        break
            return cur
        cur = case
        for i, v in enumerate(case["counts"]):
            if v != 0.0:
                cc = list(cur["counts"])
                cc[i] = 0.0
                cand = dict(cur, counts=cc)
                if any(cc) and still_fails(cand):
                    cur = cand
        return cur
