"""C12: mean stress transformation along the iso-damage lines of a Haigh diagram.

Implementation side (real pylife, in-process), generators, correspondence lines and the direct
property oracle (closed forms written here independently of both the code and the Lean model).

Case kinds
  cyc  one diagram (FKM-Goodman with or without M2 | five-segment | from_dict, the latter in every admissible listing
       order of its segments = the rotations of the ascending order, C12.rotations), a frame of cycles (range/mean or
       from/to), 1-2 successive targets, through HaighDiagram.transform (+ plain functions / accessors in the oracle)
  frm  per-element parameter FRAME with different rows (Goodman / five-segment incl. different R12/R23; optionally surplus rows with
       break points of their own = ignored (five-segment with element-wise R12/R23: only since /repo eb02d01, before it KeyError:
       Interval(...), finding five-segment-surplus-diagram - a label of the record only, a recurrence is reported as a plain
       KeyError violation), or a missing row = refused; frame per (element, node) or per element only = layout `subkey`) and a collective
       whose index carries the element key (named index, (key, cycle_number) MultiIndex in any level order, unsorted
       rows, two-level keys) through df.meanstress_transform.*; compared label by label.  Optional fields: `surplus`
       = parameter rows no cycle refers to (ignored by the code, same result demanded), `drop` = the parameter row of
       one key removed (refused with ValueError 'No Haigh diagram' since /repo 226f5ce; oracle only, no model line).
       In the oracle every `frm` case (also the refused one) is run a second time against a MATRIX with one class per cycle
       (`oracle_frm_matrix`, HaighDiagram.<kind>(frame).transform(matrix))
  mat  rainflow matrix (from/to or range/mean classes, 0-2 further index levels in ANY level order, rows optionally
       sparse / shuffled, uniform or non-uniform class widths) through series.meanstress_transform.fkm_goodman with a
       parameter Series, a per-key parameter frame (different rows), a frame over a subset of the further levels or a
       frame that brings a level of its own; class sums compared per key of the further levels.  A per-key frame may
       carry a surplus row (key 99, ignored) or lack the row of a key (mat_missing: refused like 'frm', oracle only)

In the oracle's comparison histogram route vs plain function (one clause of `oracle_mat`) the noise-amplitude classes
- amplitude <= 1e-9 * max(|mean| of the class, largest range and largest |mean| of the key's classes) - are left out
and counted in stats['noise_amplitude_classes']; every other clause still covers them.
"""
import itertools
import json
import math
import random
import warnings

import numpy as np
import pandas as pd

from . import core
from .core import Prop, f2h, h2f

INF = math.inf
_MST = None


def mst():
    global _MST
    if _MST is None:
        warnings.simplefilter("ignore")
        import pylife.strength.meanstress as M
        _MST = M
    return _MST


# ---------------------------------------------------------------- JSON-able floats
def enc(x):
    x = float(x)
    if x == INF:
        return "inf"
    if x == -INF:
        return "-inf"
    return x


def dec(x):
    return float(x)


# ---------------------------------------------------------------- independent specification
def pos(R):
    """Abscissa of the ray R in the normalised Haigh diagram (mean / amplitude)."""
    if R in (INF, -INF):
        return -1.0
    return (1.0 + R) / (1.0 - R)


def gpar(p):
    """(M, M2) of a Goodman parameter list; a list without M2 means the documented default M2 = M/3."""
    return (p[0], p[1]) if len(p) == 2 else (p[0], p[0] / 3.0)


def is_negzero(x):
    return x == 0.0 and math.copysign(1.0, x) < 0.0


GNAMES = ["M", "M2"]
FNAMES = ["M0", "M1", "M2", "M3", "M4", "R12", "R23"]


def haigh_segments(diag):
    """The diagram as a list of (s_lo, s_hi, M) covering the mean/amplitude axis from left to right,
    or None if it is not of the standard shape (exactly one segment beyond R = 1, namely (1, inf])."""
    kind, p = diag
    if kind == "g":
        M, M2 = gpar(p)
        return [(-INF, -1.0, 0.0), (-1.0, 1.0, M), (1.0, INF, M2)]
    if kind == "f":
        M0, M1, M2, M3, M4, R12, R23 = p
        return [(-INF, -1.0, M4), (-1.0, 1.0, M0), (1.0, pos(R12), M1), (pos(R12), pos(R23), M2), (pos(R23), INF, M3)]
    segs = [(dec(p[i]), dec(p[i + 1]), dec(p[i + 2])) for i in range(0, len(p), 3)]
    beyond = [s for s in segs if s[0] >= 1.0]
    if len(beyond) != 1 or beyond[0][0] != 1.0 or beyond[0][1] != INF:
        return None
    rest = sorted((s for s in segs if s[0] < 1.0), key=lambda s: s[0])
    out = [(-INF, -1.0, beyond[0][2])]
    for lo, hi, M in rest:
        out.append((pos(lo), INF if hi == 1.0 else pos(hi), M))
    return out


GUARD_EPS = 1e-6      # the quantifier's "exact iso-damage amplitude stays positive", with room for rounding (1/eps * 2^-53 << rtol)


def walk(segs, a, m, Rg):
    """Amplitude after moving the cycle (a, m) along the iso-damage lines to the ray Rg; nan when the
    exact iso-damage amplitude does not stay positive (outside the property's quantifier)."""
    s, sg = m / a, pos(Rg)
    f, cur = 1.0, s
    order = segs if sg >= s else list(reversed(segs))
    for lo, hi, M in order:
        if sg >= s:
            if hi <= cur:
                continue
            if lo >= sg:
                break
            nxt = min(hi, sg)
        else:
            if lo >= cur:
                continue
            if hi <= sg:
                break
            nxt = max(lo, sg)
        if 1.0 + M * cur <= GUARD_EPS or 1.0 + M * nxt <= GUARD_EPS:
            return math.nan
        f *= (1.0 + M * cur) / (1.0 + M * nxt)
        cur = nxt
    return a * f


def goodman_closed_form(a, m, M, M2, Rg):
    """Textbook FKM-Goodman: equivalent amplitude at R = -1, then back to the target ray."""
    if m < -a:                      # R > 1
        eq = a * (1.0 - M)
    elif m <= a:                    # -inf <= R <= 0
        eq = a + M * m
    else:                           # 0 < R < 1
        eq = (1.0 + M) * (a + M2 * m) / (1.0 + M2)
    if Rg > 1.0:
        return eq / (1.0 - M)
    sg = pos(Rg)
    if Rg <= 0.0:
        return eq / (1.0 + M * sg)
    return eq / (1.0 + M) * (1.0 + M2) / (1.0 + M2 * sg)


def close(a, b, rtol=1e-9, scale=1.0):
    """relative comparison; `scale` = magnitude of the input amplitude (differences below 1e-3*rtol*scale do not count)"""
    return abs(a - b) <= rtol * max(abs(a), abs(b), 1e-3 * scale)


# ---------------------------------------------------------------- implementation side
def make_hd(diag):
    M = mst()
    kind, p = diag
    if kind == "g":
        return M.HaighDiagram.fkm_goodman(pd.Series(dict(zip(GNAMES, p))))       # one parameter: no 'M2' key (default M/3)
    if kind == "f":
        return M.HaighDiagram.five_segment(pd.Series(dict(zip(FNAMES, p))))
    d = {(dec(p[i]), dec(p[i + 1])): dec(p[i + 2]) for i in range(0, len(p), 3)}
    return M.HaighDiagram.from_dict(d)


def frame_of(iface, cyc):
    x = np.array([dec(c[0]) for c in cyc], dtype=float)
    y = np.array([dec(c[1]) for c in cyc], dtype=float)
    if iface == "ft":
        return pd.DataFrame({"from": x, "to": y})
    return pd.DataFrame({"range": x, "mean": y})


def amp_mean(iface, c):
    x, y = dec(c[0]), dec(c[1])
    if iface == "ft":
        return abs(x - y) / 2.0, (x + y) / 2.0
    return x / 2.0, y


def run_chain(diag, iface, cyc, goals):
    """HaighDiagram.transform applied successively; list of result frames."""
    hd = make_hd(diag)
    frame = frame_of(iface, cyc)
    out = []
    for g in goals:
        frame = hd.transform(frame, dec(g))
        out.append(frame)
    return out


# ------------------------------------------------ 'frm': collective + per-element parameter frame
def frm_key_names(case):
    return ["element_id", "node"][:len(case["keys"][0])]


def frm_frames(case):
    """(collective DataFrame, parameter DataFrame, canonical row labels) of a 'frm' case.  Row label = key + (cycle number,)."""
    mst()
    knames = frm_key_names(case)
    cols = ["from", "to"] if case["iface"] == "ft" else ["range", "mean"]
    labels, data = [], []
    for key, cyc in zip(case["keys"], case["cyc"]):
        for j, c in enumerate(cyc):
            labels.append(tuple(key) + (j,))
            data.append((dec(c[0]), dec(c[1])))
    order = case["order"]                      # permutation of knames + ["cycle_number"], or knames only (one cycle per key)
    canon = knames + ["cycle_number"]
    pos_of = [canon.index(n) for n in order]
    perm = case.get("perm") or list(range(len(labels)))
    tuples = [tuple(labels[i][k] for k in pos_of) for i in perm]
    if len(order) == 1:
        idx = pd.Index([t[0] for t in tuples], name=order[0])
    else:
        idx = pd.MultiIndex.from_tuples(tuples, names=order)
    df = pd.DataFrame([data[i] for i in perm], columns=cols, index=idx, dtype=float)
    names = GNAMES if case["kind"] == "g" else FNAMES
    ncol = len(case["rows"][0])
    pperm = case.get("pperm") or list(range(len(case["keys"])))
    npl = case.get("plevels") or len(knames)      # the parameter frame is indexed by the first `npl` key levels (diagram per element,
    dropped = None if case.get("drop") is None else tuple(case["keys"][case["drop"]][:npl])      # cycles per (element, node))
    entries = []
    for i in pperm:
        k = tuple(case["keys"][i][:npl])
        if k != dropped and k not in [e[0] for e in entries]:
            entries.append((k, list(case["rows"][i])))
    for j, (k, r) in enumerate(case.get("surplus") or []):       # diagrams no cycle refers to: ignored by the code
        entries.insert(min(2 * j + 1, len(entries)), (tuple(k), list(r)))
    pk = [e[0] for e in entries]
    pidx = pd.Index([k[0] for k in pk], name=knames[0]) if npl == 1 else pd.MultiIndex.from_tuples(pk, names=knames[:npl])
    par = pd.DataFrame([e[1] for e in entries], columns=names[:ncol], index=pidx, dtype=float)
    return df, par, labels


def frm_missing(case):
    """A key of the collective has no parameter row: HaighDiagram.transform refuses (ValueError 'No Haigh diagram')."""
    return case.get("drop") is not None


def mat_missing(case):
    """Some class of the matrix has a key of the levels it shares with the parameter frame that the frame lacks."""
    case = upgrade_mat(case)
    ser, names, enames = matrix_of(case)
    _, plevels, pmap = mat_param(case)
    shared = [n for n in plevels if n in enames]
    if not shared or len(ser) == 0:
        return False
    have = {tuple(k[plevels.index(n)] for n in shared) for k in pmap}
    vals = [ser.index.get_level_values(n).to_numpy() for n in shared]
    need = {tuple(v[i].item() for v in vals) for i in range(len(ser))}
    return not need <= have


def expects_no_diagram(fn):
    """Runs fn(); None if it raises the documented ValueError, else a description."""
    try:
        fn()
    except ValueError as e:
        if "No Haigh diagram" in str(e):
            return None
        return f"cycles without a Haigh diagram: ValueError with another message: {str(e)[:200]}"
    return "cycles without a Haigh diagram were not refused (the result cannot be their transformation)"


def frm_diag(case, i):
    return [case["kind"], list(case["rows"][i])]


def frm_result_by_label(case, lc):
    """{canonical row label: (amplitude, from, to)} of the LoadCollective the accessor returned."""
    canon = frm_key_names(case) + ["cycle_number"]
    fr = lc.to_pandas()
    amp = lc.amplitude
    names = list(fr.index.names)
    out = {}
    for t, a, f, to in zip(fr.index, amp.to_numpy(), fr["from"].to_numpy(), fr["to"].to_numpy()):
        t = t if isinstance(t, tuple) else (t,)
        d = dict(zip(names, t))
        lab = tuple(d[n] if n in d else 0 for n in canon)
        if lab in out:
            raise ValueError(f"result row {lab} occurs twice")
        out[lab] = (float(a), float(f), float(to))
    return out


def frm_call(case, df, par):
    acc = df.meanstress_transform
    return acc.fkm_goodman(par, dec(case["goal"])) if case["kind"] == "g" else acc.five_segment(par, dec(case["goal"]))


# ------------------------------------------------ 'mat': rainflow matrix
MAT_EXTRA_NAMES = ["node", "gp"]


def upgrade_mat(case):
    """Cases stored before the per-key parameters existed: diag/extra/extra_first -> rows/par/extras/order."""
    if "par" in case:
        return case
    c = dict(case)
    n = c.pop("extra", 0)
    c["extras"] = [n] if n else []
    names = ["from", "to"] if c["layout"] == "ft" else ["range", "mean"]
    c["order"] = (["node"] + names) if (n and c.pop("extra_first", False)) else names + (["node"] if n else [])
    c["rows"] = [list(c.pop("diag")[1])]
    c["par"] = {"levels": []}
    c.setdefault("shuffle", None)
    return c


def mat_names(case):
    return ["from", "to"] if case["layout"] == "ft" else ["range", "mean"]


def matrix_of(case):
    """(Series, class level names, names of the further levels).  `counts` are in product order of the canonical level order
    (class levels, then the further levels); `order` permutes the levels of the index, `perm` the rows."""
    mst()
    case = upgrade_mat(case)
    ex = np.array(case["ex"], dtype=float)
    ey = np.array(case["ey"], dtype=float)
    names = mat_names(case)
    extras = list(case.get("extras") or [])
    enames = MAT_EXTRA_NAMES[:len(extras)]
    levels = [pd.IntervalIndex.from_breaks(ex), pd.IntervalIndex.from_breaks(ey)] + [pd.Index([7 * i + 3 for i in range(n)]) for n in extras]
    canon = names + enames
    idx = pd.MultiIndex.from_product(levels, names=canon)
    ser = pd.Series(np.array(case["counts"], dtype=float), index=idx, name="cycles")
    order = case.get("order") or canon
    if list(order) != canon:
        ser = ser.reorder_levels(list(order))
    if case.get("nonzero_only"):
        ser = ser[ser.values > 0]
    if case.get("shuffle") is not None and len(ser) > 1:
        p = list(range(len(ser)))
        random.Random(case["shuffle"]).shuffle(p)
        ser = ser.iloc[p]
    return ser, names, enames


def mat_param(case):
    """The parameter object handed to the accessor and {parameter key: (M, M2)}; parameter key = values of `plevels`."""
    case = upgrade_mat(case)
    par = case["par"]
    rows = case["rows"]
    ncol = len(rows[0])
    plevels = list(par.get("levels") or [])
    if not plevels:
        return pd.Series(dict(zip(GNAMES, rows[0]))), plevels, {(): gpar(rows[0])}
    keys = [tuple(k) for k in par["keys"]]
    idx = pd.Index([k[0] for k in keys], name=plevels[0]) if len(plevels) == 1 else pd.MultiIndex.from_tuples(keys, names=plevels)
    pf = pd.DataFrame([list(r) for r in rows], columns=GNAMES[:ncol], index=idx, dtype=float)
    return pf, plevels, {k: gpar(r) for k, r in zip(keys, rows)}


def mat_cells(case):
    """Label-level description of what the accessor has to do, written without pandas alignment:
    (class level names, result key names, sorted result keys, cells) with cells = list of
    (result key, (M, M2), range mid resp. |from-to| of the mids, mean, count)."""
    ser, names, enames = matrix_of(case)
    _, plevels, pmap = mat_param(case)
    new_levels = [n for n in plevels if n not in enames]            # levels only the parameter frame has
    rnames = enames + new_levels
    inames = list(ser.index.names)
    a = ser.index.get_level_values(names[0])
    b = ser.index.get_level_values(names[1])
    amid, bmid = np.asarray(a.mid, dtype=float), np.asarray(b.mid, dtype=float)
    if names[0] == "from":
        rng_, mean_ = np.abs(amid - bmid), (amid + bmid) / 2.0
    else:
        rng_, mean_ = amid, bmid
    evals = [ser.index.get_level_values(n).to_numpy() for n in enames]
    cells = []
    for i in range(len(ser)):
        ekey = {n: evals[k][i].item() for k, n in enumerate(enames)}
        for pkey, mm in pmap.items():
            pk = dict(zip(plevels, pkey))
            if any(pk[n] != ekey[n] for n in plevels if n in ekey):
                continue
            rkey = tuple(ekey[n] if n in ekey else pk[n] for n in rnames)
            cells.append((rkey, mm, float(rng_[i]), float(mean_[i]), float(ser.values[i]), i))
    rkeys = sorted({c[0] for c in cells})
    binsize = float(np.hypot(a.length.min(), b.length.min()) / np.sqrt(2.0)) if len(ser) else 0.0
    return names, rnames, rkeys, cells, binsize


def mat_result_by_key(res, rnames):
    """{result key: [(range interval, class sum) sorted by the interval]} of the accessor's result Series."""
    names = list(res.index.names)
    out = {}
    for t, v in zip(res.index, res.to_numpy()):
        d = dict(zip(names, t))
        key = tuple(d[n].item() if hasattr(d[n], "item") else d[n] for n in rnames)
        out.setdefault(key, []).append((d["range"], float(v)))
    for k in out:
        out[k].sort(key=lambda x: (x[0].left, x[0].right))
    return out


class C12(Prop):
    ID = "C12"
    LAST_DIGITS = 1e-13       # correspondence: see core.Prop.LAST_DIGITS (the transformed amplitude is a quotient of products)
    SOURCES = [
        "src/pylife/strength/meanstress.py",
        "src/pylife/stress/collective/load_collective.py",
        "src/pylife/stress/collective/load_histogram.py",
    ]
    LEAN_MODULES = ["Proofs.C12", "Proofs.C12General", "Proofs.C12Frames", "Proofs.C12Guard"]
    PARALLEL = 8          # impl_lines / oracle are sharded over forked processes by core.pmap
    THEOREMS = [
        "PylifeVerif.C12.transform_conserves_potential",
        # FKM-Goodman, every cycle and target, no guard hypothesis (goodman_guard discharges it)
        "PylifeVerif.Meanstress.goodman_guard",
        "PylifeVerif.C12.goodman_arrives_at_target",
        "PylifeVerif.C12.goodman_eq_closed_form",
        "PylifeVerif.C12.goodmanDefault_eq_closed_form",
        "PylifeVerif.C12.goodman_fixes_target_R",
        "PylifeVerif.C12.goodman_idempotent",
        "PylifeVerif.C12.goodman_path_independent",
        "PylifeVerif.C12.goodman_monotone_in_amplitude_fixed_R",
        "PylifeVerif.C12.goodman_closed_form_monotone_continuous",
        # frames (what the interfaces exchange) and the matrix interface as the code composes it
        "PylifeVerif.C12.mkCycle_valid",
        "PylifeVerif.C12.mkCycle_amp_mean",
        "PylifeVerif.C12.mkCycle_rowOf",
        "PylifeVerif.C12.frameAmp_rowOf",
        "PylifeVerif.C12.goodman_frame_eq_closed_form",
        "PylifeVerif.C12.goodman_frame_on_target_ray",
        "PylifeVerif.C12.goodman_frame_path_independent",
        "PylifeVerif.C12.goodman_frame_idempotent",
        "PylifeVerif.C12.goodman_frame_positive",
        "PylifeVerif.C12.matrixTransform_conserves_cycles",
        # every gap-free diagram with exactly one segment beyond R = 1 (Proofs/C12General.lean): potential constructed, arrival proved
        "PylifeVerif.C12.transform_arrives",
        "PylifeVerif.C12.transform_path_independent",
        "PylifeVerif.C12.transform_idempotent",
        "PylifeVerif.C12.transform_fixes_target",
        "PylifeVerif.C12.transform_monotone_continuous_fixed_mean_std",
        "PylifeVerif.C12.transform_monotone_in_amplitude_fixed_R",
        "PylifeVerif.C12.fiveSegment_arrives_at_target",
        "PylifeVerif.C12.fiveSegment_path_independent",
        "PylifeVerif.C12.fiveSegment_idempotent",
        "PylifeVerif.C12.fiveSegment_fixes_target_R",
        "PylifeVerif.C12.fiveSegment_monotone_continuous_fixed_mean",
        "PylifeVerif.C12.rebin_conserves_cycles",
        # the guard = "iso-damage amplitude positive at the cycle and at the target" (Proofs/C12Guard.lean): transformGuard_iff_pos for the
        # standard listing order `diagram Minf M0 r1 bs Mn` only, stdDiagram_guard_iff for any listing order; unguarded five-segment statements
        "PylifeVerif.C12.transformGuard_iff_pos",
        "PylifeVerif.C12.stdDiagram_guard_iff",
        "PylifeVerif.C12.fiveSegment_guard_iff",
        "PylifeVerif.C12.fiveSegment_guard",
        "PylifeVerif.C12.fiveSegment_path_independent_of_slopes",
        "PylifeVerif.C12.fiveSegment_idempotent_of_slopes",
        # refutation that supports the open finding split-beyond-R1 (not a clause of the property)
        "PylifeVerif.C12.split_beyond_R1_fails_at_witness",
    ]
    _CUT = ("domain cut: diagram in standard form (StdDiagram: gap-free, exactly one segment (1,inf] beyond R = 1, at least one border "
            "below 1; GoodD: slopes beyond 1 and left of the first border < 1 and BOTH adjacent iso-damage lines positive at EVERY kink, "
            "also kinks the cycle never passes); five-segment: FiveSegOK = 0 < R12 < R23 < 1 plus GoodD (the code validates none of this: "
            "R12 >= R23 raises ValueError in pd.Interval, R12 < 0 AttributeError 'overlap'); the guard TransformGuard is a hypothesis here; "
            "by transformGuard_iff_pos / stdDiagram_guard_iff / fiveSegment_guard_iff it is EQUIVALENT to the property's own restriction "
            "(iso-damage potential positive at the cycle and at the target), and it is discharged for FKM-Goodman (goodman_guard) and for "
            "five-segment diagrams with M4 <= 0 <= M0 < 1, 0 <= M1, M2, M3 (fiveSegment_guard, *_of_slopes)")
    PARTIAL = {
        "PylifeVerif.C12.transform_path_independent":
            "full for every gap-free diagram in standard form (exactly one segment (1,inf] beyond R = 1, at least one border below 1, "
            "positive iso-damage amplitude at every kink) in any listing order, under THREE TransformGuard hypotheses: for the cycle and the "
            "first target, for the cycle and the second target, and for the INTERMEDIATE cycle transform D g1 c and the second target (the "
            "two-guard form transform_path_independent' in Proofs/C12Guard.lean derives the intermediate one from the other two; it is not in "
            "THEOREMS); NOT covered: diagrams with several segments beyond R = 1 - there "
            "the real code does not follow the iso-damage lines (open finding split-beyond-R1, refuted in the kernel at the witness: "
            "PylifeVerif.C12.split_beyond_R1_fails_at_witness) - and the two-segment diagram {(1,inf], (-inf,1]}",
        "PylifeVerif.C12.transform_arrives":
            "domain cut: diagram in standard form (StdDiagram, any listing order: gap-free, exactly one segment (1,inf] beyond R = 1, at least "
            "one border below 1); NO TransformGuard hypothesis - arrival at the target R holds for every cycle and target with valid R; of "
            "StdDiagram the proof uses only the listing (a permutation of the standard order) and the order of the borders (SortedR), not GoodD",
        "PylifeVerif.C12.split_beyond_R1_fails_at_witness": "a refutation at the witness of the open finding, listed so that its axioms are audited",
        "PylifeVerif.C12.fiveSegment_guard": "five-segment parameter sets with M4 > 0 or a negative slope are covered by the guarded theorems only",
        "PylifeVerif.C12.transform_idempotent": _CUT,
        "PylifeVerif.C12.transform_fixes_target": _CUT,
        "PylifeVerif.C12.transform_monotone_continuous_fixed_mean_std":
            _CUT + "; the statement is a Lipschitz bound between two amplitudes at which BOTH guards hold",
        "PylifeVerif.C12.transform_monotone_in_amplitude_fixed_R":
            _CUT + "; this theorem is stated for the standard listing order `diagram Minf M0 r1 bs Mn` only (hypotheses SortedR and GoodD, "
            "not StdDiagram of a permuted list), with the guard at both amplitudes",
        "PylifeVerif.C12.fiveSegment_path_independent": _CUT,
        "PylifeVerif.C12.fiveSegment_idempotent": _CUT,
        "PylifeVerif.C12.fiveSegment_fixes_target_R": _CUT,
        "PylifeVerif.C12.fiveSegment_monotone_continuous_fixed_mean": _CUT,
        "PylifeVerif.C12.goodman_closed_form_monotone_continuous":
            "about the closed form eqAmp; the code's result is goodmanClosed = eqAmp / backFactor g (goodman_eq_closed_form), i.e. eqAmp "
            "divided by a constant that is positive for a fixed target, so monotony and continuity carry over; needs M2 <= M; the fixed-mean "
            "statement about `transform` itself follows from transform_monotone_continuous_fixed_mean_std + goodman_std + goodman_guard but is "
            "not stated as one theorem; 'interfaces agree' has no theorem: "
            "the interfaces are pandas glue around the one modelled function and are compared by the correspondence / oracle only",
    }
    RULE = ("case 'cyc' = (diagram: FKM-Goodman M[,M2 - default M/3] | five-segment 7 parameters | from_dict segments in every admissible "
            "listing order (the rotations of the ascending order); interface range/mean or "
            "from/to frame incl. upper load -0.0; 1 or 2 successive targets incl. -inf and R > 1; cycles incl. those on every segment border, at "
            "R = -inf, amplitudes 1e-6..1e6, targets R down to 1+1e-3 (cycles reach R of about 1.002) and mean/amplitude up to 1e6): model and HaighDiagram.transform must give "
            "bit-identical range/mean/amplitude for every cycle; "
            "case 'frm' = collective whose index carries an element key (named index | (key, cycle_number) in any level order | unsorted rows | "
            "two-level keys | layout 'subkey': cycles indexed by (element_id, node, cycle_number), one parameter row per element_id) + parameter "
            "FRAME with a different row per key (Goodman with/without M2, five-segment with different R12/R23) "
            "through df.meanstress_transform.*: every result row, found by its label, must be bit-identical to the model run with that key's parameters; "
            "'frm' / 'mat' cases may carry surplus parameter rows no cycle refers to (ignored: same demand; five-segment surplus rows have break "
            "points R12 / R23 of their own, which no diagram in use has - ignored since /repo eb02d01, KeyError before it) or lack the row of a key (no model "
            "line; oracle only: refused with ValueError 'No Haigh diagram', /repo 226f5ce); in the oracle every 'frm' case also takes the matrix "
            "route: HaighDiagram.<kind>(frame).transform of a matrix with one class per cycle = each key's classes with that key's diagram alone, bit for bit "
            "(a case with a missing row: refused there as well); "
            "case 'mat' = rainflow matrix (from/to or range/mean classes, 0-2 further levels in any level order, sparse / shuffled rows, "
            "non-uniform widths; parameter Series | per-key frame with different rows | frame over a subset of the levels | frame with a level "
            "of its own) through series.meanstress_transform.fkm_goodman: same number of classes and bit-identical class sums PER KEY of the "
            "further levels. Oracle on the real code alone: = textbook Goodman closed form, = segment-walk along iso-damage lines (any diagram), "
            "idempotence, fixed target, path independence, monotone + continuous in amplitude, plain function = collective accessor "
            "(Series and per-row DataFrame parameters, per key) = histogram accessor (in the matrix oracle this one comparison leaves out the "
            "noise-amplitude classes: amplitude <= 1e-9 * max(|mean|, largest range / |mean| of the key)), matrix total and per-key totals conserved, class sums = the "
            "cycles transformed one by one with their key's parameters, operands (collective, matrix, parameter frame) unchanged.  Gates on 'cyc' "
            "cases: the clause plain function = collective accessor / operands unchanged runs on every 2nd case and on every default-M2 Goodman "
            "case (and on the every-4th cases below); monotone + continuous in amplitude and the histogram accessor run on every 4th case.")
    ASSUMPTIONS = [
        "C12: pandas glue (Broadcaster: broadcast of the diagram / the parameter frame over the collective or matrix index; xs/loc selection per "
        "segment; reorder of index levels) is NOT modelled: the model is per cycle (each cycle sees the segments of its own diagram row in the "
        "order of the sort keys); the pairing row <-> parameter row <-> result row is validated by the 'frm' and 'mat' correspondence cases, "
        "which look every result row up by its label and use different parameters for every key",
        "C12: IntervalIndex.mid = 0.5*(left+right) and a stable sort_values for <= 16 segments (pandas 3.0.5 here; bit identity of the "
        "segment order depends on it) are assumed as modelled in segKey / insertAsc / insertDesc",
        "C12: np.hypot/np.sqrt (class width of the re-binning) and the class mids / |from-to| of the class mids are computed by numpy/pandas in the "
        "harness and handed to the model; np.linspace is modelled as i*(max/n) with the last break = max; int(np.ceil(x)) is Float.ceil + "
        "toUInt64 in the driver (Driver/Meanstress.lean ceilNat) and Nat.ceil in the theorem matrixTransform_conserves_cycles",
        "C12: the driver only parses the line and calls the MODEL functions transformChain / frameAmp / matBreaks / matrixTransform "
        "(Model/Meanstress.lean) with ext = IEEE classification (inf/nan -> ExtR constructors); the theorems instantiate ext = fin over the reals",
        "C12: targets R = 1 (raises ZeroDivisionError / meaningless) and R = +inf are outside the modelled domain; cycles have amplitude > 0; a "
        "cycle whose R is +inf cannot arise after /repo commit c28a67e (signed-zero upper load) except by overflow of lower/upper (|lower/upper| > 1.8e308)",
        "C12: the model follows the code after the /repo commits 1ef2d1a (C12-beyond-R1-key), c28a67e (C12-signed-zero-upper), "
        "ab50530 (C12-matrix-row-order, superseded by ef4f38d), ef4f38d (C12-matrix-index-layout), 9e46386 (C12-goodman-default-M2-keeps-operand) "
        "and 3b0f832 (C12-five-segment-row-pairing); all of them are committed",
        "C12: sequences ('seq' cases: one parameter object / collective / histogram / HaighDiagram used again after in-place changes) are "
        "oracle-only; an argument counts as changed by a call when its VALUES or INDEX differ afterwards; names, dtypes and added informational "
        "keys / columns are counted (seq_metadata_changes) but are no failure unless a later call with the same object differs from the call "
        "with fresh copies",
        "C12: the mean classes of the matrix result (means_bins) are checked by the oracle (every class on the target ray), not by the model",
        "C12: a matrix class whose amplitude is below 1e-9 of its mean / of the largest range (from- and to-mid equal up to rounding) rounds to "
        "R = 1.0 exactly - the cycle of amplitude 0, outside the quantifier; the oracle does not compare interfaces on it (the class sums and the "
        "model correspondence still cover it)",
        "C12: LoadHistogram.R still computes lower / upper without the '+ 0.0' of LoadCollective.R (c28a67e): upper = mean + amplitude is -0.0 only "
        "if both summands are -0.0, i.e. never for amplitude > 0, so the model's cycR (either zero counts as +0.0) agrees with it on the quantifier",
        "C12: since 226f5ce a collective / matrix key without a row in the parameter frame is refused (ValueError 'No Haigh diagram'; checked by "
        "the oracle, no model counterpart) and surplus parameter rows are ignored (generated; for a five-segment frame with element-wise R12 / R23 "
        "and a surplus row with break points of its own this holds only since eb02d01 - 226f5ce alone raised KeyError: Interval(...), finding "
        "five-segment-surplus-diagram, which has no class label in the oracle: a recurrence shows as a plain KeyError violation); "
        "five_segment is called with an unnamed parameter "
        "Series or a frame with integer / tuple labels - a Series with a name (KeyError: 0 from haigh.xs(0)), a string label of a one-level index "
        "and an empty frame raise in the unchanged code and are not generated",
    ]

    def __init__(self):
        self.stats = {"cyc_cases": 0, "frm_cases": 0, "mat_cases": 0, "cycles": 0, "by_diagram": {},
                      "targets": {"-inf": 0, "gt1": 0, "le0": 0, "0..1": 0},
                      "border_cycles": 0, "neginf_cycles": 0, "beyond1_cycles": 0, "negzero_upper_cycles": 0, "default_M2_cases": 0,
                      "two_goal_cases": 0, "guard_skipped": 0, "frm_layouts": {}, "frm_keys": 0,
                      "mat_layouts": {}, "mat_params": {}, "mat_orders": {}, "mat_classes_total": 0, "mat_empty": 0, "oracle_checks": 0, "refused_cases": 0, "seq_cases": 0, "seq_calls": 0, "seq_metadata_changes": 0, "surplus_diagram_cases": 0, "noise_amplitude_classes": 0,
                      "split_known_mechanism": 0}
        self.exhaustive = False

    # ------------------------------------------------------------ generators
    GOODMAN = [(0.0, 0.0), (0.3, 0.1), (0.5, 0.5 / 3), (0.25, 0.25), (0.75, 0.125), (0.5, 0.0), (0.9375, 0.3125)]
    FIVE = [
        (0.5, 0.5 / 3, 0.5 / 6, 1.0, -2.0, 0.4, 0.8),        # the test-suite's set
        (0.5, 0.25, 0.125, 0.0625, 0.25, 0.25, 0.5),
        (0.3, 0.1, 0.05, 0.0, 0.0, 0.5, 0.75),
        (0.4, 0.4, 0.2, 0.2, 0.1, 0.2, 0.6),
        (0.25, 0.125, 0.125, 0.5, -0.5, 0.125, 0.875),
    ]
    DICTS = [
        ["d", [1.0, "inf", 0.1, "-inf", -2.0, 0.2, -2.0, 0.0, 0.3, 0.0, 1.0, 0.1]],
        ["d", [1.0, "inf", 0.25, "-inf", -1.0, 0.5, -1.0, 0.0, 0.25, 0.0, 0.5, 0.125, 0.5, 1.0, 0.0]],
        ["d", [1.0, "inf", 0.0, "-inf", 1.0, 0.25]],
    ]
    DICT_SPLIT = ["d", [1.0, 2.0, 0.1, 2.0, "inf", 0.2, "-inf", 0.0, 0.3, 0.0, 1.0, 0.1]]

    @staticmethod
    def rotations(diag):
        """The admissible listings of a from_dict diagram: HaighDiagram._validate wants every segment to start where the one listed
        before it ends ((-inf, b] may follow (1, inf]), i.e. the rotations of the ascending order.  The sort keys of (1,inf] and
        (-inf,b] tied before 1ef2d1a, so a result could depend on which of the two is listed first."""
        tr = sorted((diag[1][i:i + 3] for i in range(0, len(diag[1]), 3)), key=lambda t: dec(t[0]))
        return [["d", [x for t in tr[k:] + tr[:k] for x in t]] for k in range(len(tr))]

    def borders(self, diag):
        kind, p = diag
        if kind == "g":
            return [0.0]
        if kind == "f":
            return [0.0, p[5], p[6]]
        return sorted({dec(p[i + 1]) for i in range(0, len(p), 3) if -INF < dec(p[i + 1]) < 1.0})

    def gen_goal(self, rng, diag):
        b = self.borders(diag)
        mids = [0.5 * (x + y) for x, y in zip(b, b[1:] + [1.0])]
        c = rng.random()
        if c < 0.12:
            return -INF
        if c < 0.3:
            return rng.choice([1.5, 2.0, 3.0, 10.0, 1.0625, round(rng.uniform(1.01, 8.0), 3), 1.0 + 10.0 ** rng.uniform(-3, 0), 10.0 ** rng.uniform(1, 4)])
        if c < 0.5:
            return rng.choice(b + mids + [-1.0])        # borders and the points where a sort key equals the goal key
        if c < 0.7:
            return rng.choice([-1.0, -3.0, -0.5, -1.0 / 3.0, round(rng.uniform(-6.0, 0.0), 3), -10.0 ** rng.uniform(0, 5)])
        return rng.choice([0.1, 0.5, 0.3, 0.75, 0.9, 0.95, 1.0 / 3.0, round(rng.uniform(0.0, 0.99), 3), 1.0 - 10.0 ** rng.uniform(-4, -1)])

    def gen_goodman(self, rng):
        if rng.random() < 0.6:
            M, M2 = rng.choice(self.GOODMAN)
        else:
            M = round(rng.uniform(0.0, 0.95), 3)
            M2 = round(rng.uniform(0.0, M), 3)
        return [M] if rng.random() < 0.15 else [M, M2]        # ~15 %: no 'M2' given, the code's default M/3

    def gen_five(self, rng):
        p = list(rng.choice(self.FIVE))
        if rng.random() < 0.3:
            p[5] = round(rng.uniform(0.05, 0.45), 3)
            p[6] = round(rng.uniform(0.5, 0.95), 3)
        return p

    def gen_amp(self, rng):
        c = rng.random()
        if c < 0.7:
            return rng.choice([1.0, 2.0, 0.5, 3.0, round(rng.uniform(0.1, 5.0), 3)])
        return float(f"{10.0 ** rng.uniform(-6, 6):.4g}")        # log-uniform 1e-6 .. 1e6

    def gen_cycles(self, rng, diag, n):
        b = self.borders(diag)
        out = []
        for _ in range(n):
            a = self.gen_amp(rng)
            c = rng.random()
            if c < 0.25:        # on a segment border / at R = -inf (upper = 0)
                R = rng.choice(b + [-INF, -1.0])
                m = -a if R == -INF else a * (1.0 + R) / (1.0 - R)
            elif c < 0.45:      # R > 1: mean = -k*amplitude, k from just above 1 (R -> +inf) to 1e3 (R -> 1+)
                k = rng.choice([1.5, 2.0, 3.0, 1.25, round(rng.uniform(1.01, 4.0), 3), 1.0 + 10.0 ** rng.uniform(-6, -2), 10.0 ** rng.uniform(0.6, 3)])
                m = -a * k
            else:
                m = a * rng.choice([-0.75, -0.5, 0.0, 0.5, 0.75, 1.5, 2.0, 3.0, 5.0, 12.0, 50.0, round(rng.uniform(-1.0, 20.0), 3),
                                    10.0 ** rng.uniform(1.5, 6)])
            out.append((a, m))
        return out

    def enc_cycles(self, rng, iface, am):
        cyc = []
        for a, m in am:
            if iface == "rm":
                cyc.append([enc(2.0 * a), enc(m)])
            else:
                fr, to = m - a, m + a
                if to == 0.0 and rng.random() < 0.5:
                    to = -0.0        # the same load; only the sign bit of the zero differs (e.g. np.round(-1e-9, 3))
                cyc.append([enc(to), enc(fr)] if rng.random() < 0.5 else [enc(fr), enc(to)])
        return cyc

    def gen_cyc_case(self, rng):
        c = rng.random()
        if c < 0.4:
            diag = ["g", self.gen_goodman(rng)]
        elif c < 0.8:
            diag = ["f", self.gen_five(rng)]
        elif c < 0.95:
            diag = json.loads(json.dumps(rng.choice(self.DICTS)))
        else:
            diag = json.loads(json.dumps(self.DICT_SPLIT))
        if diag[0] == "d" and rng.random() < 0.6:
            diag = self.rotations(diag)[rng.randrange(len(diag[1]) // 3)]
        goals = [self.gen_goal(rng, diag)]
        if rng.random() < 0.5:
            goals.append(self.gen_goal(rng, diag))
        iface = rng.choice(["rm", "rm", "ft"])
        cyc = self.enc_cycles(rng, iface, self.gen_cycles(rng, diag, rng.choice([1, 4, 8, 12])))
        return {"k": "cyc", "diag": diag, "goals": [enc(g) for g in goals], "iface": iface, "cyc": cyc}

    def gen_frm_case(self, rng):
        kind = rng.choice(["g", "f"])
        layout = rng.choice(["named", "multi", "multi", "swapped", "mkey", "subkey"])
        nk = rng.choice([2, 3, 4])
        if layout in ("mkey", "subkey"):
            ids = rng.sample([1, 2, 5, 9], 2)
            keys = [[e, n] for e in ids for n in rng.sample(["a", "b", "c"], 2)][:max(nk, 3)]
        else:
            keys = [[e] for e in rng.sample([0, 1, 2, 3, 7, 10, 42, 1000], nk)]
        knames = ["element_id", "node"][:len(keys[0])]
        rows, seen = [], set()
        for _ in keys:       # a DIFFERENT parameter row for every key
            while True:
                if kind == "g":
                    r = self.gen_goodman(rng)
                    r = [r[0], gpar(r)[1]]
                else:
                    r = self.gen_five(rng)
                    if rng.random() < 0.7:
                        r[5] = round(rng.uniform(0.05, 0.45), 3)
                        r[6] = round(rng.uniform(0.5, 0.95), 3)
                if tuple(r) not in seen:
                    seen.add(tuple(r))
                    rows.append(r)
                    break
        if layout == "subkey":       # one diagram per element_id, the cycles are indexed by (element_id, node, cycle_number)
            first = {}
            rows = [first.setdefault(k[0], r) for k, r in zip(keys, rows)]
        if kind == "g" and rng.random() < 0.2 and layout != "subkey":
            rows = [[r[0]] for r in rows]          # frame without an 'M2' column
            if len({tuple(r) for r in rows}) < len(rows):
                rows = [[round(0.9 * (i + 1) / (len(rows) + 1), 3)] for i in range(len(rows))]
        goal = self.gen_goal(rng, [kind, rows[0]])
        iface = rng.choice(["rm", "rm", "ft"])
        if layout == "named":
            ncyc = [1] * len(keys)
            order = list(knames)
        else:
            ncyc = [rng.choice([1, 2, 3]) for _ in keys]
            order = knames + ["cycle_number"]
            if layout == "swapped" or (layout in ("mkey", "subkey") and rng.random() < 0.7):
                while order == knames + ["cycle_number"]:
                    rng.shuffle(order)
        cyc = [self.enc_cycles(rng, iface, self.gen_cycles(rng, [kind, r], n)) for r, n in zip(rows, ncyc)]
        total = sum(ncyc)
        perm = list(range(total))
        if rng.random() < 0.6:
            rng.shuffle(perm)
        pperm = list(range(len(keys)))
        if rng.random() < 0.7:
            rng.shuffle(pperm)
        case = {"k": "frm", "kind": kind, "layout": layout, "keys": keys, "rows": rows, "goal": enc(goal), "iface": iface,
                "order": order, "cyc": cyc, "perm": perm, "pperm": pperm}
        if layout == "subkey":
            case["plevels"] = 1
        one_level = len(keys[0]) == 1 or layout == "subkey"
        c = rng.random()
        if c < (0.4 if kind == "f" else 0.25):          # diagrams no cycle refers to (ignored)
            sk = [[9999] if one_level else [keys[0][0], "zz"]]
            if rng.random() < 0.3:
                sk.append([-5] if one_level else [77, keys[0][1]])
            sur = []
            for i, k in enumerate(sk):
                if kind == "g":
                    r = [0.9 * v for v in rows[i % len(rows)]]
                else:       # break points R12 / R23 of its own: R intervals that no diagram in use has
                    r = self.gen_five(rng)
                    while True:
                        r[5], r[6] = round(rng.uniform(0.05, 0.45), 4), round(rng.uniform(0.5, 0.95), 4)
                        if all(r[5] != q[5] and r[6] != q[6] for q in rows):
                            break
                sur.append([k, r])
            case["surplus"] = sur
        elif c < (0.48 if kind == "f" else 0.31):        # a key of the collective without diagram (refused)
            case["drop"] = rng.randrange(len(keys))
        return case

    def gen_breaks(self, rng, lo, w, n, uniform):
        if uniform:
            return [lo + i * w for i in range(n + 1)]
        out = [lo]
        for _ in range(n):
            out.append(out[-1] + w * rng.choice([1.0, 1.0, 2.0, 0.5, 1.5]))
        return out

    def gen_mat_case(self, rng):
        layout = rng.choice(["ft", "rm"])
        nx, ny = rng.choice([2, 3, 5, 8]), rng.choice([2, 3, 5, 8])
        uniform = rng.random() < 0.8
        if layout == "ft":
            lo = rng.choice([-4.0, -1.0, 0.0, -2.5])
            w = rng.choice([0.5, 1.0, 0.25, 0.3, 0.75])
            ex = self.gen_breaks(rng, lo, w, nx, uniform)
            wy = w if rng.random() < 0.6 else rng.choice([0.5, 1.0, 0.4])
            lo2 = lo if rng.random() < 0.6 else rng.choice([-3.0, -0.5, 1.0])
            ey = self.gen_breaks(rng, lo2, wy, ny, uniform)
        else:
            w = rng.choice([0.5, 1.0, 0.25, 0.3])
            ex = self.gen_breaks(rng, 0.0, w, nx, uniform)
            lo = rng.choice([-4.0, -1.0, 0.0, -1.0 / 12.0])
            wy = rng.choice([0.5, 1.0, 0.3])
            ey = self.gen_breaks(rng, lo, wy, ny, uniform)
        extras = rng.choice([[], [], [2], [3], [2], [2, 2], [3, 2]])
        if extras and nx * ny > 25:
            nx, ny = min(nx, 5), min(ny, 5)
            ex, ey = ex[:nx + 1], ey[:ny + 1]
        enames = MAT_EXTRA_NAMES[:len(extras)]
        canon = (["from", "to"] if layout == "ft" else ["range", "mean"]) + enames
        order = list(canon)
        if rng.random() < 0.6:
            rng.shuffle(order)
        ncell = nx * ny * int(np.prod(extras)) if extras else nx * ny
        dens = rng.choice([0.2, 0.6, 1.0])
        counts = [float(rng.randrange(1, 50)) if rng.random() < dens else 0.0 for _ in range(ncell)]
        if not any(counts) and rng.random() < 0.8:
            counts[rng.randrange(ncell)] = 7.0
        ne = int(np.prod(extras)) if extras else 1
        if any(counts):
            # (since 226f5ce HaighDiagram.transform ignores diagrams no cycle refers to and refuses cycles without diagram)
            keep_all = rng.random() < 0.7       # else a key may have no occupied class: with nonzero_only its diagram is surplus (ignored)
            for e in range(ne):
                if keep_all and not any(counts[e::ne]):
                    counts[e + ne * rng.randrange(ncell // ne)] = float(rng.randrange(1, 9))
        # parameters
        evals = [[7 * i + 3 for i in range(n)] for n in extras]
        c = rng.random()
        if not extras:
            pk = "series" if c < 0.75 else "frame-new"
        else:
            pk = "series" if c < 0.3 else "frame" if c < 0.75 else "frame-sub" if (c < 0.9 and len(extras) == 2) else "frame-new"
        if pk == "series":
            par = {"levels": []}
            nrows = 1
        elif pk == "frame":
            lv = list(enames)
            if len(lv) == 2 and rng.random() < 0.5:
                lv.reverse()
            keys = [list(k) for k in itertools.product(*[evals[enames.index(n)] for n in lv])]
            rng.shuffle(keys)
            par = {"levels": lv, "keys": keys}
            nrows = len(keys)
        elif pk == "frame-sub":
            n = rng.choice(enames)
            keys = [[v] for v in evals[enames.index(n)]]
            rng.shuffle(keys)
            par = {"levels": [n], "keys": keys}
            nrows = len(keys)
        else:
            keys = [[v] for v in rng.sample([1, 2, 5, 11], rng.choice([1, 2, 3]))]
            par = {"levels": ["element_id"], "keys": keys}
            nrows = len(keys)
        if pk in ("frame", "frame-sub") and rng.random() < 0.25:
            par["keys"].insert(rng.randrange(nrows + 1), [99] * len(par["levels"]))      # a diagram no class refers to
            nrows += 1
        if pk in ("frame", "frame-sub") and rng.random() < 0.06 and nrows > 1:
            par["keys"].pop(rng.randrange(len(par["keys"])))                             # (possibly) a class without diagram: refused
            nrows -= 1
        rows, seen = [], set()
        while len(rows) < nrows:
            M, M2 = rng.choice(self.GOODMAN) if rng.random() < 0.7 else (lambda M: (M, round(rng.uniform(0.0, M), 3)))(round(rng.uniform(0.0, 0.95), 3))
            if (M, M2) not in seen:
                seen.add((M, M2))
                rows.append([M, M2])
        if rng.random() < 0.15:
            rows = [[r[0]] for r in rows] if len({r[0] for r in rows}) == len(rows) else [[round(0.9 * (i + 1) / (nrows + 1), 3)] for i in range(nrows)]
        goal = rng.choice([-1.0, 0.0, -1.0 / 3.0, 1.0 / 3.0, 0.5, -0.5, 0.9, round(rng.uniform(-1.0, 0.99), 3)])
        return {"k": "mat", "goal": goal, "layout": layout, "ex": ex, "ey": ey, "counts": counts, "extras": extras, "order": order,
                "par": par, "rows": rows, "nonzero_only": rng.random() < 0.4, "shuffle": rng.randrange(1 << 30) if rng.random() < 0.4 else None}

    def gen_seq_case(self, rng):
        """ONE parameter object / ONE collective / ONE histogram / ONE HaighDiagram used again and again, with in-place changes between
        the calls (oracle only: every result = the result with fresh copies = closed form)."""
        kind = rng.choice(["g", "g", "f"])
        frame = rng.random() < 0.5
        keys = [[e] for e in rng.sample([0, 1, 2, 3, 7, 10, 42], rng.choice([2, 3]))] if frame else [[0]]
        rows = []
        for _ in keys:
            r = self.gen_goodman(rng) if kind == "g" else self.gen_five(rng)
            rows.append([r[0], gpar(r)[1]] if kind == "g" else r)
        iface = rng.choice(["rm", "rm", "ft"])
        cyc = [self.enc_cycles(rng, iface, self.gen_cycles(rng, [kind, r], rng.choice([1, 2, 3]))) for r in rows]
        cols = GNAMES if kind == "g" else FNAMES[:5]
        steps = []
        for _ in range(rng.choice([3, 4, 5])):
            st = {"goal": enc(rng.choice([-1.0, 0.0, -INF, 0.5, -0.5, 1.0 / 3.0, 2.0, round(rng.uniform(-1.0, 0.95), 3)]))}
            c = rng.random()
            if c < 0.6:          # write parameters in place
                col = rng.choice(cols)
                v = round(rng.uniform(0.0, 0.9), 3)
                if kind == "g" and col == "M2":
                    v = round(rng.uniform(0.0, 0.3), 3)
                st["par"] = [rng.randrange(len(keys)) if (frame and rng.random() < 0.7) else None, col, v]
            elif c < 0.8:        # write a cycle in place
                k = rng.randrange(len(keys))
                st["cyc"] = [k, rng.randrange(len(cyc[k])), self.enc_cycles(rng, iface, self.gen_cycles(rng, [kind, rows[k]], 1))[0]]
            elif c < 0.9:        # write a count of the histogram in place
                st["cnt"] = [rng.randrange(6), float(rng.randrange(1, 40))]
            steps.append(st)
        order = list(range(len(steps)))
        rng.shuffle(order)
        return {"k": "seq", "kind": kind, "frame": frame, "keys": keys, "rows": rows, "iface": iface, "cyc": cyc, "steps": steps, "hd_order": order}

    def generate(self, rng, tier):
        n_cyc, n_frm, n_mat = (180, 50, 60) if tier == "quick" else (1700, 450, 500)
        cases = []
        # systematic grid: every Goodman / five-segment parameter set x structured targets x structured cycles
        for diag in [["g", list(p)] for p in self.GOODMAN[:4]] + [["g", [0.45]]] + [["f", list(p)] for p in self.FIVE[:3]]:
            b = self.borders(diag)
            mids = [0.5 * (x + y) for x, y in zip(b, b[1:] + [1.0])]
            targets = [-INF, -3.0, -1.0] + b + mids + [0.96875, 1.5, 4.0]
            cyc = [[2.0, enc(-1.0 if R == -INF else (1.0 + R) / (1.0 - R))] for R in [-INF, -1.0, -0.5] + b + mids + [0.9375]]
            cyc += [[2.0, -3.0], [2.0, -1.5], [1.0, 6.0]]
            for g in targets:
                cases.append({"k": "cyc", "diag": diag, "goals": [enc(g)], "iface": "rm", "cyc": cyc})
        # from_dict diagrams: every listing order of the segments x targets of every region (the sort keys of (1,inf] and (-inf,b]
        # tied before 1ef2d1a: the result for a goal in (0,1) depended on which was listed first)
        for base in self.DICTS[:1] + [self.DICTS[2]]:
            for d in self.rotations(base):
                for g in (0.3, -INF):
                    cases.append({"k": "cyc", "diag": d, "goals": [enc(g)], "iface": "rm",
                                  "cyc": [[1.0, -10.0], [2.0, -1.0], [2.0, 0.5], [2.0, 7.0], [2.0, -2.5]]})
        # upper load -0.0 in a from/to frame, every target region
        for g in (-INF, -1.0, 0.0, 0.5, 2.0):
            cases.append({"k": "cyc", "diag": ["g", [0.3, 0.1]], "goals": [enc(g)], "iface": "ft",
                          "cyc": [[-2.0, -0.0], [-0.0, -3.0], [-2.0, 0.0], [1.0, 3.0]]})
        # the matrix index layouts: every order of (class levels, node) x {Series, per-node frame}
        for layout in ("rm", "ft"):
            canon = (["range", "mean"] if layout == "rm" else ["from", "to"]) + ["node"]
            ex = [0.0, 1.0, 2.0, 3.0] if layout == "rm" else [-2.0, -1.0, 0.0, 1.0]
            ey = [-2.0, 0.0, 2.0] if layout == "rm" else [-1.0, 0.0, 1.0, 2.0]
            n = (len(ex) - 1) * (len(ey) - 1) * 3
            for order in itertools.permutations(canon):
                for par, rows in (({"levels": []}, [[0.3, 0.1]]),
                                  ({"levels": ["node"], "keys": [[10], [3], [17]]}, [[0.3, 0.1], [0.5, 0.25], [0.9, 0.0]])):
                    cases.append({"k": "mat", "goal": -1.0 if layout == "rm" else 0.25, "layout": layout, "ex": ex, "ey": ey,
                                  "counts": [float(i + 1) for i in range(n)], "extras": [3], "order": list(order), "par": par,
                                  "rows": rows, "nonzero_only": False, "shuffle": None})
        self.exhaustive = False
        for _ in range(n_cyc):
            cases.append(self.gen_cyc_case(rng))
        for _ in range(n_frm):
            cases.append(self.gen_frm_case(rng))
        for _ in range(n_mat):
            cases.append(self.gen_mat_case(rng))
        for _ in range(36 if tier == "quick" else 250):
            cases.append(self.gen_seq_case(rng))
        for i, c in enumerate(cases):      # the expensive oracle parts (monotony, interfaces) on every 4th case
            if c["k"] == "cyc" and i % 4 == 0:
                c["deep"] = True
            if c["k"] == "cyc" and (i % 2 == 0 or (c["diag"][0] == "g" and len(c["diag"][1]) == 1)):
                c["acc"] = True        # accessor / plain function / operands-unchanged clause: every 2nd case and every default-M2 case
        return cases

    # ------------------------------------------------------------ correspondence
    @staticmethod
    def _mst_line(iface, diag, goals, cyc):
        kind, p = diag
        toks = ["mst", iface, kind, str(len(p))] + [f2h(dec(x)) for x in p]
        toks += [str(len(goals))] + [f2h(dec(g)) for g in goals]
        for c in cyc:
            toks += [f2h(dec(c[0])), f2h(dec(c[1]))]
        return " ".join(toks)

    def model_lines(self, case):
        if case["k"] == "seq":
            return []          # sequences of calls on the same objects: oracle only (every single call is a 'cyc' / 'frm' / 'mat' situation)
        if case["k"] == "cyc":
            return [self._mst_line(case["iface"], case["diag"], case["goals"], case["cyc"])]
        if case["k"] == "frm":       # the model is per cycle: one line per key with that key's parameters
            if frm_missing(case):
                return []
            return [self._mst_line(case["iface"], frm_diag(case, i), [case["goal"]], cyc) for i, cyc in enumerate(case["cyc"])]
        case = upgrade_mat(case)
        if mat_missing(case):
            return []
        names, rnames, rkeys, cells, binsize = mat_cells(case)
        if not cells:
            return []
        toks = ["mstmat", f2h(case["goal"]), f2h(binsize), str(len(rkeys))]
        for rkey, (M, M2), r, m, n, _ in cells:
            toks += [str(rkeys.index(rkey)), "2", f2h(M), f2h(M2), f2h(r), f2h(m), f2h(n)]
        return [" ".join(toks)]

    def impl_lines(self, case):
        try:
            return self._impl_lines(case)
        except (TypeError, ValueError, KeyError, IndexError, ZeroDivisionError, AttributeError, AssertionError) as e:
            n = len(case["cyc"]) if case["k"] == "frm" else 1
            return [f"error {type(e).__name__}"] * n

    def _impl_lines(self, case):
        s = self.stats
        if case["k"] == "seq":
            return []
        if case["k"] == "cyc":
            s["cyc_cases"] += 1
            s["cycles"] += len(case["cyc"])
            s["by_diagram"][case["diag"][0]] = s["by_diagram"].get(case["diag"][0], 0) + 1
            s["default_M2_cases"] += case["diag"][0] == "g" and len(case["diag"][1]) == 1
            s["two_goal_cases"] += len(case["goals"]) > 1
            for g in case["goals"]:
                g = dec(g)
                s["targets"]["-inf" if g == -INF else "gt1" if g > 1 else "le0" if g <= 0 else "0..1"] += 1
            bset = set(self.borders(case["diag"]))
            for c in case["cyc"]:
                a, m = amp_mean(case["iface"], c)
                if case["iface"] == "ft" and is_negzero(max(dec(c[0]), dec(c[1]))) and (is_negzero(dec(c[0])) or is_negzero(dec(c[1]))):
                    s["negzero_upper_cycles"] += 1
                if m + a == 0:
                    s["neginf_cycles"] += 1
                elif m + a < 0:
                    s["beyond1_cycles"] += 1
                elif (m - a) / (m + a) in bset:
                    s["border_cycles"] += 1
            frame = run_chain(case["diag"], case["iface"], case["cyc"], case["goals"])[-1]
            amp = frame.load_collective.amplitude.to_numpy()
            return [" ".join(f"{f2h(a)} {f2h(r)} {f2h(m)}" for a, r, m in zip(amp, frame["range"].to_numpy(), frame["mean"].to_numpy()))]
        if case["k"] == "frm" and frm_missing(case):
            s["refused_cases"] += 1
            return []
        if case["k"] == "frm":
            s["frm_cases"] += 1
            s["frm_keys"] += len(case["keys"])
            s["cycles"] += sum(len(c) for c in case["cyc"])
            lk = f"{case['kind']}:{case['layout']}:{'/'.join(case['order'])}"
            s["frm_layouts"][lk] = s["frm_layouts"].get(lk, 0) + 1
            s["default_M2_cases"] += case["kind"] == "g" and len(case["rows"][0]) == 1
            df, par, labels = frm_frames(case)
            got = frm_result_by_label(case, frm_call(case, df, par))
            if len(got) != len(labels):
                return [f"error result has {len(got)} rows, the collective {len(labels)}"] * len(case["cyc"])
            out = []
            for key, cyc in zip(case["keys"], case["cyc"]):
                out.append(" ".join("{} {} {}".format(*map(f2h, got[tuple(key) + (j,)])) for j in range(len(cyc))))
            return out
        case = upgrade_mat(case)
        if mat_missing(case):
            s["refused_cases"] += 1
            return []
        names, rnames, rkeys, cells, binsize = mat_cells(case)
        ser, _, enames = matrix_of(case)
        if not cells:
            s["mat_empty"] += 1
            return []
        s["mat_cases"] += 1
        par, plevels, _ = mat_param(case)
        key = case["layout"] + ("+" + "+".join(enames) if enames else "")
        s["mat_layouts"][key] = s["mat_layouts"].get(key, 0) + 1
        pk = ("series" if not plevels else "frame:" + "+".join(plevels)) + (":noM2" if len(case["rows"][0]) == 1 else "")
        s["mat_params"][pk] = s["mat_params"].get(pk, 0) + 1
        ok = "/".join(ser.index.names)
        s["mat_orders"][ok] = s["mat_orders"].get(ok, 0) + 1
        res = ser.meanstress_transform.fkm_goodman(par, case["goal"]).to_pandas()
        if len(res) == 0:
            return ["0"]        # only classes of amplitude 0: max range 0, no result class
        by = mat_result_by_key(res, rnames)
        if sorted(by) != rkeys:
            return [f"error result keys {sorted(by)} expected {rkeys}"]
        n = len(by[rkeys[0]])
        s["mat_classes_total"] += n * len(rkeys)
        toks = [str(n)]
        for k in rkeys:
            if len(by[k]) != n:
                return [f"error key {k} has {len(by[k])} classes, key {rkeys[0]} {n}"]
            toks += [f2h(v) for _, v in by[k]]
        return [" ".join(toks)]

    def compare(self, case, model_out, impl_out):
        if case["k"] == "frm":      # the accessor returns a from/to collective: from = mean - range/2, to = mean + range/2
            conv = []
            for line in model_out:
                t = line.split()
                o = []
                for a, r, m in zip(t[0::3], t[1::3], t[2::3]):
                    r_, m_ = h2f(r), h2f(m)
                    o += [a, f2h(m_ - r_ / 2.0), f2h(m_ + r_ / 2.0)]
                conv.append(" ".join(o))
            model_out = conv
        return super().compare(case, model_out, impl_out)

    def nontrivial(self, case, model_out):
        """cyc/frm: at least one cycle's amplitude is changed by the transformation; mat: at least two classes."""
        if not model_out:
            return None
        if case["k"] == "cyc":
            toks = model_out[0].split()
            amps_in = [f2h(amp_mean(case["iface"], c)[0]) for c in case["cyc"]]
            moved = any(a != b for a, b in zip(amps_in, toks[0::3]))
            return json.dumps(case, sort_keys=True) if moved else None
        if case["k"] == "frm":
            moved = False
            for line, cyc in zip(model_out, case["cyc"]):
                amps_in = [f2h(amp_mean(case["iface"], c)[0]) for c in cyc]
                moved = moved or any(a != b for a, b in zip(amps_in, line.split()[0::3]))
            return json.dumps(case, sort_keys=True) if moved else None
        return json.dumps(case, sort_keys=True) if not model_out[0].startswith(("0", "1 ")) else None

    # ------------------------------------------------------------ the property on the real code
    def classify(self, case, g, a, m, got=None, segs_raw=None):
        if case["k"] == "cyc" and case["iface"] == "ft" and m + a == 0 and any(
                is_negzero(dec(v)) for c in case["cyc"] for v in c if amp_mean("ft", c) == (a, m)) and got == 0.0:
            return "signed-zero-upper"          # the cycle is annihilated (amplitude 0) because its upper load is -0.0
        if haigh_segments(case["diag"]) is None if case["k"] == "cyc" else False:
            # open finding, tied to its mechanism: a cycle beyond R = 1 is moved to R = -inf with the slope of ITS segment only,
            # or the target lies beyond R = 1
            if g > 1.0:
                return "split-beyond-R1"
            if got is not None and segs_raw is not None:
                s = m / a
                bey = [x for x in segs_raw if x[1] <= -1.0]          # (x_lo, x_hi, M) of the segments beyond R = 1, left to right
                rest = [x for x in segs_raw if x[0] >= -1.0]
                if m + a < 0:          # (a) the cycle is moved to R = -inf with the slope of ITS segment all the way
                    for Mx in [Mx for lo, hi, Mx in bey if lo <= s <= hi]:
                        e = walk([(-INF, -1.0, Mx)] + rest, a, m, g)
                        if e == e and close(e, got, 1e-9, a):
                            self.stats["split_known_mechanism"] += 1
                            return "split-beyond-R1"
                if m + a <= 0 and len(bey) == 2 and s >= bey[0][1]:
                    # (b) a cycle in the outer segment (b, inf] (incl. one AT R = -inf, pushed over the flipping point) is first moved
                    #     BACKWARDS to R = b with the slope of (b, inf] and then to R = -inf with the slope of (1, b]
                    (_, xb, M1), (_, _, Mb) = bey
                    c = (1.0 + Mb * -1.0) / (1.0 + Mb * xb) * (1.0 + M1 * xb) / (1.0 + M1 * -1.0)
                    e = walk(segs_raw, a, m, g)
                    if e == e and close(e * c, got, 1e-9, a):
                        self.stats["split_known_mechanism"] += 1
                        return "split-beyond-R1"
            return "C12"
        if g == -INF and m + a < 0:
            return "neginf-target-beyond-R1"
        return "C12"

    def oracle(self, case):
        # an exception raised by the implementation on an input of the property's domain is a failure of the property
        try:
            if case["k"] == "mat":
                return self.oracle_mat(case)
            if case["k"] == "seq":
                return self.oracle_seq(case)
            if case["k"] == "frm":
                return self.oracle_frm(case)
            return self.oracle_cyc(case)
        except (TypeError, ValueError, KeyError, IndexError, ZeroDivisionError, AttributeError, AssertionError) as e:
            klass = "C12"
            if case["k"] == "mat" and upgrade_mat(case)["par"].get("levels"):
                msg = str(e)
                if (isinstance(e, ValueError) and "NaN to integer" in msg) or (isinstance(e, AssertionError) and "new_levels" in msg):
                    klass = "matrix-index-layout"     # fixed by /repo commit ef4f38d
            return (f"the implementation raised / returned a malformed result: {type(e).__name__}: {str(e)[:200]}", klass)

    def _check_cycle(self, case, diag, walk_segs, g, a, m, r, mm):
        """One transformed cycle against the specification.  None or (description, a, m)."""
        e = walk(walk_segs, a, m, g) if a > 0 else math.nan
        self.stats["oracle_checks"] += 1
        if e != e:
            self.stats["guard_skipped"] += 1
            return "skip"
        if not close(e, r, 1e-9, a):
            return f"target R={g}: cycle amplitude={a} mean={m}: transformed amplitude {r}, iso-damage walk gives {e}"
        if not close(mm, r * pos(g), 1e-9, a):
            return f"target R={g}: cycle amplitude={a} mean={m}: result mean {mm} is not on the target ray (amplitude {r})"
        if diag[0] == "g":
            M_, M2_ = gpar(diag[1])
            cf = goodman_closed_form(a, m, M_, M2_, g)
            if not close(cf, r, 1e-9, a):
                return f"Goodman M={diag[1]} (M2 = {M2_}) target R={g}: amplitude={a} mean={m}: code {r}, closed form {cf}"
        return None

    def oracle_cyc(self, case):
        M = mst()
        diag, iface, cyc = case["diag"], case["iface"], case["cyc"]
        goals = [dec(g) for g in case["goals"]]
        segs = haigh_segments(diag)
        walk_segs = segs
        if segs is None:       # diagram with several segments beyond R = 1: still specified by the walk
            p = diag[1]
            raw = [(dec(p[i]), dec(p[i + 1]), dec(p[i + 2])) for i in range(0, len(p), 3)]
            bey = sorted((s for s in raw if s[0] >= 1.0), key=lambda s: s[0])
            rest = sorted((s for s in raw if s[0] < 1.0), key=lambda s: s[0])
            walk_segs = [(-INF if lo == 1.0 else pos(lo), pos(hi), Mx) for lo, hi, Mx in bey]
            walk_segs += [(pos(lo), INF if hi == 1.0 else pos(hi), Mx) for lo, hi, Mx in rest]
        frames = run_chain(diag, iface, cyc, goals)
        am = [amp_mean(iface, c) for c in cyc]
        # (1) every stage follows the iso-damage lines (segment walk; Goodman additionally the textbook closed form)
        cur = am
        for g, fr in zip(goals, frames):
            nxt = []
            for (a, m), r, mm in zip(cur, fr["range"].to_numpy() / 2.0, fr["mean"].to_numpy()):
                if a <= 0:
                    nxt.append((0.0, 0.0))
                    continue
                d = self._check_cycle(case, diag, walk_segs, g, a, m, r, mm)
                if d == "skip":
                    nxt.append((0.0, 0.0))
                    continue
                if d is not None:
                    k = self.classify(case, g, a, m, got=float(r), segs_raw=walk_segs)
                    if not self.known(k, d):
                        return (d, k)
                    nxt.append((0.0, 0.0))        # known finding on this cycle: the later clauses skip it
                    continue
                nxt.append((r, mm))
            cur = nxt
        hd = make_hd(diag)
        last, g = frames[-1], goals[-1]
        # (2) idempotence / a cycle at the target R is unchanged
        again = hd.transform(last, g)
        for i, (r0, r1) in enumerate(zip(last["range"].to_numpy(), again["range"].to_numpy())):
            if cur[i][0] > 0 and not close(r0, r1, 1e-9, cur[i][0]):
                d = f"not idempotent: target R={g}, cycle {cyc[i]}: range {r0} -> {r1}"
                # the cycle that is transformed the second time is (r0/2, mean of the first result)
                k = self.classify(case, g, r0 / 2.0, float(last["mean"].to_numpy()[i]), got=r1 / 2.0, segs_raw=walk_segs)
                if not self.known(k, d):
                    return (d, k)
        # (3) path independence: R1 then R2 = R2 directly
        if len(goals) == 2:
            direct = run_chain(diag, iface, cyc, [goals[1]])[0]
            for i, (r0, r1) in enumerate(zip(last["range"].to_numpy(), direct["range"].to_numpy())):
                if cur[i][0] > 0 and not close(r0, r1, 1e-9, cur[i][0]):
                    d = f"path dependent: R1={goals[0]} then R2={goals[1]} gives range {r0}, directly {r1}; cycle {cyc[i]}"
                    k = self.classify(case, goals[0], *am[i])
                    if segs is None and (goals[0] == -INF or goals[0] > 1.0 or sum(am[i]) <= 0):
                        k = "split-beyond-R1"      # the intermediate or the original cycle lies at / beyond the flipping point
                    if not self.known(k, d):
                        return (d, k)
        if segs is None:
            return None
        g0 = goals[0]
        # (5a) operands unchanged, plain function = collective accessor (Series parameters) on the Goodman / five-segment cases marked
        # `acc` or `deep` (every 2nd case, every default-M2 Goodman case, every 4th case)
        a_arr = np.array([x[0] for x in am])
        m_arr = np.array([x[1] for x in am])
        if diag[0] in "gf" and (case.get("acc") or case.get("deep")):
            names = GNAMES if diag[0] == "g" else FNAMES
            par = pd.Series(dict(zip(names, diag[1])))
            par0 = par.copy()
            df = frame_of(iface, cyc)
            df0 = df.copy()
            acc = (df.meanstress_transform.fkm_goodman(par, g0) if diag[0] == "g" else df.meanstress_transform.five_segment(par, g0)).amplitude.to_numpy()
            if not (list(par.index) == list(par0.index) and par.equals(par0)):
                return (f"the accessor modified the caller's parameter Series: {par0.to_dict()} -> {par.to_dict()}", "default-M2-writes-operand")
            if not df.equals(df0):
                return ("the accessor modified the caller's collective", "C12")
            base = frames[0].load_collective.amplitude.to_numpy()
            if len(acc) != len(base) or any(f2h(x) != f2h(y) for x, y in zip(acc, base)):
                return (f"interfaces disagree: collective accessor (Series parameters) {list(acc)} vs HaighDiagram.transform {list(base)} (target R={g0})", "C12")
            if iface == "rm":
                pr = dict(zip(names, diag[1]))
                if diag[0] == "g":
                    plain = M.fkm_goodman(a_arr, m_arr, pr["M"], gpar(diag[1])[1], g0)
                else:
                    plain = M.five_segment_correction(a_arr, m_arr, R_goal=g0, **pr)
                if len(plain) != len(base) or any(f2h(x) != f2h(y) for x, y in zip(plain, base)):
                    return (f"interfaces disagree: plain function {list(plain)} vs HaighDiagram.transform {list(base)} (target R={g0})", "C12")
        if not case.get("deep"):
            return None
        # (4) monotone and continuous in the amplitude (fixed mean), first target
        for (a, m) in am[:3]:
            if a <= 0:
                continue
            bs = [m / pos(b) for b in self.borders(diag) + [-INF] if pos(b) != 0 and m / pos(b) > 0]
            amps = sorted({a * f for f in (0.5, 0.999, 1.0, 1.001, 2.0)} | {x * f for x in bs for f in (1 - 1e-9, 1.0, 1 + 1e-9)})
            e = [walk(segs, x, m, g0) for x in amps]
            if any(v != v for v in e):
                continue
            fr = hd.transform(pd.DataFrame({"range": 2.0 * np.array(amps), "mean": m}), g0)
            r = fr["range"].to_numpy() / 2.0
            for i in range(1, len(amps)):
                if r[i] < r[i - 1] - 1e-9 * max(r[i], r[i - 1]):
                    return (f"not monotone in amplitude: mean={m} target R={g0}: amplitudes {amps[i-1]}, {amps[i]} -> {r[i-1]}, {r[i]}",
                            self.classify(case, g0, amps[i], m))
                if amps[i] - amps[i - 1] <= 3e-9 * amps[i] and abs(r[i] - r[i - 1]) > 1e-6 * max(r[i], r[i - 1]):
                    return (f"jump in amplitude: mean={m} target R={g0}: amplitudes {amps[i-1]}, {amps[i]} -> {r[i-1]}, {r[i]}",
                            self.classify(case, g0, amps[i], m))
        # (5b) histogram accessor on one-cell-per-cycle matrices: class mid = the cycle
        if diag[0] == "g" and len(am) >= 1:
            a, m = am[0]
            w = 0.25 * a
            idx = pd.MultiIndex.from_arrays([pd.IntervalIndex.from_arrays([2 * a - w], [2 * a + w]),
                                             pd.IntervalIndex.from_arrays([m - w], [m + w])], names=["range", "mean"])
            ser = pd.Series([3.0], index=idx, name="cycles")
            rr = hd.transform(ser, g0)["range"].to_numpy()[0] / 2.0
            e = hd.transform(pd.DataFrame({"range": [2 * a], "mean": [m]}), g0)["range"].to_numpy()[0] / 2.0
            if not close(rr, e, 1e-9, a):
                return (f"histogram interface {rr} vs collective interface {e} for amplitude={a} mean={m} target R={g0}", "C12")
        return None

    # ---- the same objects used again after an in-place change
    @staticmethod
    def _snapshot(obj):
        return (obj.copy(deep=True), list(obj.index.names), obj.dtypes.to_dict() if isinstance(obj, pd.DataFrame) else obj.dtype,
                list(obj.columns) if isinstance(obj, pd.DataFrame) else obj.name)

    def _intact(self, obj, snap):
        """False when a call changed VALUES or INDEX (labels, order) of an argument - that alters what a later call with the same object
        computes.  Metadata the property says nothing about (a renamed Series / level, a dtype, informational keys or columns added to the
        caller's object) is only counted (stats seq_metadata_changes): whether it matters shows in the comparison with fresh copies."""
        old = snap[0]
        if not obj.index.equals(old.index):
            return False
        if isinstance(old, pd.DataFrame):
            same = all(c in obj.columns for c in old.columns) and obj[list(old.columns)].astype(float).equals(old.astype(float))
        else:
            same = obj.astype(float).equals(old.astype(float))
        if not same:
            return False
        if self._snapshot(obj)[1:] != snap[1:]:
            self.stats["seq_metadata_changes"] += 1
        return True

    def oracle_seq(self, case):
        """(a) ONE parameter object handed to the collective and the matrix accessor while its values are written in place;
        (b) ONE collective frame / ONE histogram used again after an in-place change; (c) ONE HaighDiagram transformed several times in
        another order; (d) no call changes its arguments.  Every result = the result with fresh deep copies of all arguments (bit-identical)
        and = closed form / iso-damage walk for the values the objects hold at the time of the call."""
        M = mst()
        self.stats["seq_cases"] += 1
        kind, frame, keys = case["kind"], case["frame"], case["keys"]
        names = GNAMES if kind == "g" else FNAMES
        cols = ["from", "to"] if case["iface"] == "ft" else ["range", "mean"]
        rows = [list(r) for r in case["rows"]]
        cyc = [[list(c) for c in cs] for cs in case["cyc"]]
        kidx = pd.Index([k[0] for k in keys], name="element_id")
        if frame:
            par = pd.DataFrame(rows, columns=names, index=kidx, dtype=float)
            lab = [(k[0], j) for k, cs in zip(keys, cyc) for j in range(len(cs))]
            df = pd.DataFrame([[dec(c[0]), dec(c[1])] for cs in cyc for c in cs], columns=cols, dtype=float,
                              index=pd.MultiIndex.from_tuples(lab, names=["element_id", "cycle_number"]))
        else:
            par = pd.Series(dict(zip(names, rows[0])), dtype=float)
            lab = [(keys[0][0], j) for j in range(len(cyc[0]))]
            df = pd.DataFrame([[dec(c[0]), dec(c[1])] for c in cyc[0]], columns=cols, dtype=float)
        # histogram: dense 3 x 2 range/mean matrix (x element_id for a parameter frame)
        lv = [pd.IntervalIndex.from_breaks([0.0, 1.0, 2.0, 3.0]), pd.IntervalIndex.from_breaks([-2.0, 0.0, 2.0])]
        hidx = pd.MultiIndex.from_product(lv + ([kidx] if frame else []), names=["range", "mean"] + (["element_id"] if frame else []))
        hist = pd.Series(np.arange(1.0, len(hidx) + 1.0), index=hidx, name="cycles")

        def call_col(d, p, g):
            acc = d.meanstress_transform
            lc = acc.fkm_goodman(p, g) if kind == "g" else acc.five_segment(p, g)
            return lc.amplitude.to_numpy(), lc.to_pandas()

        def check_intact(what, objs):
            for nm, (o, sn) in objs.items():
                if not self._intact(o, sn):
                    return (f"{what} changed the values or the index of its argument '{nm}'", "C12")
            return None

        hd_jobs = []
        for n, st in enumerate(case["steps"]):
            g = dec(st["goal"])
            if "par" in st:
                k, col, v = st["par"]
                if frame and k is not None:
                    par.loc[keys[k][0], col] = v
                    rows[k][names.index(col)] = v
                else:
                    par[col] = v
                    for r in rows:
                        r[names.index(col)] = v
            if "cyc" in st:
                k, j, c = st["cyc"]
                pos_ = lab.index((keys[k][0], j))
                df.iloc[pos_, 0] = dec(c[0])
                df.iloc[pos_, 1] = dec(c[1])
                cyc[k][j] = list(c)
            if "cnt" in st:
                hist.iloc[st["cnt"][0] % len(hist)] = st["cnt"][1]
            snaps = {"parameters": (par, self._snapshot(par)), "collective": (df, self._snapshot(df)), "histogram": (hist, self._snapshot(hist))}
            where = f"call {n + 1} of {len(case['steps'])} on the same objects (after {[k for k in ('par', 'cyc', 'cnt') if k in st] or 'no change'}), target R={g}"
            # ---- collective accessor: same objects vs fresh deep copies vs specification
            self.stats["seq_calls"] += 1
            amp, fr = call_col(df, par, g)
            d = check_intact("the collective accessor", snaps)
            if d:
                return d
            amp2, fr2 = call_col(df.copy(deep=True), par.copy(deep=True), g)
            if len(amp) != len(amp2) or any(f2h(float(x)) != f2h(float(y)) for x, y in zip(amp, amp2)) or not fr.equals(fr2):
                return (f"{where}: collective accessor gives {list(amp)}, with fresh copies of the same values {list(amp2)}", "C12")
            by = dict(zip([t if isinstance(t, tuple) else (keys[0][0], t) for t in fr.index], zip(amp, fr["from"].to_numpy(), fr["to"].to_numpy())))
            if frame and list(fr.index.names) != ["element_id", "cycle_number"]:
                by = dict(zip([tuple(dict(zip(fr.index.names, t))[x] for x in ("element_id", "cycle_number")) for t in fr.index],
                              zip(amp, fr["from"].to_numpy(), fr["to"].to_numpy())))
            for i_k, (key, cs) in enumerate(zip(keys, cyc)):
                diag = [kind, list(rows[i_k])]
                segs = haigh_segments(diag)
                for j, c in enumerate(cs):
                    a, m = amp_mean(case["iface"], c)
                    if a <= 0 or (key[0], j) not in by:
                        continue
                    r_, f_, t_ = by[(key[0], j)]
                    dsc = self._check_cycle(case, diag, segs, g, a, m, float(r_), (float(f_) + float(t_)) / 2.0)
                    if dsc not in (None, "skip"):
                        return (f"{where}, element {key[0]} with the parameters it holds NOW {diag[1]}: " + dsc, "C12")
            hd_jobs.append((g, df.copy(deep=True), amp))
            # ---- matrix accessor (FKM-Goodman, -1 <= R < 1)
            if kind == "g" and -1.0 <= g < 1.0:
                self.stats["seq_calls"] += 1
                res = hist.meanstress_transform.fkm_goodman(par, g).to_pandas()
                d = check_intact("the matrix accessor", snaps)
                if d:
                    return d
                res2 = hist.copy(deep=True).meanstress_transform.fkm_goodman(par.copy(deep=True), g).to_pandas()
                if not (res.equals(res2) and res.index.equals(res2.index)):
                    return (f"{where}: matrix accessor gives the class sums {list(res.to_numpy())}, with fresh copies of the same values "
                            f"{list(res2.to_numpy())}", "C12")
                if float(res.sum()) != float(hist.sum()):
                    return (f"{where}: matrix accessor does not conserve the cycles: {float(hist.sum())} -> {float(res.sum())}", "C12")
        # ---- (c) ONE HaighDiagram for the final parameters, used for all the recorded (target, collective) pairs in another order
        make = M.HaighDiagram.fkm_goodman if kind == "g" else M.HaighDiagram.five_segment
        hd = make(par.copy(deep=True))
        for n in case["hd_order"] + case["hd_order"][:1]:
            if n >= len(hd_jobs):
                continue
            g, d_, _ = hd_jobs[n]
            sn = self._snapshot(d_)
            one = hd.transform(d_, g)
            if not self._intact(d_, sn):
                return ("HaighDiagram.transform changed the collective it was given", "C12")
            fresh = make(par.copy(deep=True)).transform(d_.copy(deep=True), g)
            if not (one.equals(fresh) and one.index.equals(fresh.index)):
                return (f"one HaighDiagram object used again (job {n}, target R={g}) gives {one['range'].tolist()}, a fresh diagram "
                        f"{fresh['range'].tolist()}", "C12")
        return None

    def oracle_frm(self, case):
        """Collective with an element key + parameter frame with a different row per key: every result row, looked up by its
        label, = the plain function with that key's parameters (bit-identical), = specification; operands unchanged.
        A case whose frame lacks the row of a key (`drop`) must be refused instead (ValueError 'No Haigh diagram').
        Either way the case ends in the matrix route (`oracle_frm_matrix`)."""
        M = mst()
        g = dec(case["goal"])
        df, par, labels = frm_frames(case)
        df0, par0 = df.copy(), par.copy()
        if frm_missing(case):
            d = expects_no_diagram(lambda: frm_call(case, df, par))
            return (d, "C12") if d is not None else self.oracle_frm_matrix(case, par, g)
        self.stats["surplus_diagram_cases"] += bool(case.get("surplus"))
        lc = frm_call(case, df, par)
        if list(par.columns) != list(par0.columns) or not par.equals(par0):
            return (f"the accessor modified the caller's parameter frame: columns {list(par0.columns)} -> {list(par.columns)}", "default-M2-writes-operand")
        if not df.equals(df0):
            return ("the accessor modified the caller's collective", "C12")
        got = frm_result_by_label(case, lc)
        if sorted(got) != sorted(labels):
            return (f"the result has the rows {sorted(got)[:6]}.. ({len(got)}), the collective {sorted(labels)[:6]}.. ({len(labels)})", "C12")
        for i, (key, cyc) in enumerate(zip(case["keys"], case["cyc"])):
            diag = frm_diag(case, i)
            segs = haigh_segments(diag)
            am = [amp_mean(case["iface"], c) for c in cyc]
            a_arr = np.array([x[0] for x in am])
            m_arr = np.array([x[1] for x in am])
            if case["iface"] == "rm":
                if case["kind"] == "g":
                    plain = M.fkm_goodman(a_arr, m_arr, diag[1][0], gpar(diag[1])[1], g)
                else:
                    plain = M.five_segment_correction(a_arr, m_arr, R_goal=g, **dict(zip(FNAMES, diag[1])))
            else:
                plain = make_hd(diag).transform(frame_of("ft", cyc), g).load_collective.amplitude.to_numpy()
            for j, (a, m) in enumerate(am):
                amp, fr, to = got[tuple(key) + (j,)]
                if f2h(amp) != f2h(float(plain[j])):
                    # /repo commit 3b0f832 (C12-five-segment-row-pairing): before it five_segment paired slopes and R12/R23 of different rows of a
                    # parameter frame with a two-level index whose rows are not grouped in sorted order
                    klass = "five-segment-param-row-pairing" if (case["kind"] == "f" and len(key) == 2) else "C12"
                    return (f"key {key} cycle {j} (amplitude {a}, mean {m}), parameters {diag[1]}, target R={g}: accessor with the parameter "
                            f"frame gives {amp}, the same cycle alone with this key's parameters {float(plain[j])}", klass)
                d = self._check_cycle(case, diag, segs, g, a, m, amp, (fr + to) / 2.0)
                if d not in (None, "skip"):
                    return (f"key {key}: " + d, "C12")
        return self.oracle_frm_matrix(case, par, g)

    def oracle_frm_matrix(self, case, par, g):
        """The same parameter frame against a MATRIX (histogram route): one class per cycle, index (range, mean, key levels) in the
        case's level order.  HaighDiagram.<kind>(frame).transform(matrix) = each key's classes transformed with that key's diagram alone
        (same class intervals, hence bit-identical).  Only HaighDiagram.transform is called here, for Goodman and five-segment alike; the
        matrix accessor series.meanstress_transform.fkm_goodman and the conservation of the cycles per key belong to the 'mat' cases
        (`oracle_mat`).  A case with a missing row (`drop`) must be refused here as well."""
        M = mst()
        knames = frm_key_names(case)
        rows, keyvals = [], []
        for key, cyc in zip(case["keys"], case["cyc"]):
            for c in cyc:
                a, m = amp_mean(case["iface"], c)
                if a > 1e-9 * max(abs(m), 1e-300):
                    rows.append((2.0 * a, m))
                    keyvals.append(tuple(key))
        if not rows:
            return None
        w = [0.25 * r for r, _ in rows]
        lev = {"range": pd.IntervalIndex.from_arrays([r - x for (r, _), x in zip(rows, w)], [r + x for (r, _), x in zip(rows, w)]),
               "mean": pd.IntervalIndex.from_arrays([m - x for (_, m), x in zip(rows, w)], [m + x for (_, m), x in zip(rows, w)]),
               "i": np.arange(len(rows))}
        for j, n in enumerate(knames):
            lev[n] = [k[j] for k in keyvals]
        order = [n for n in case["order"] if n in knames]
        order = ["range"] + order[:1] + ["mean"] + order[1:] + ["i"] if len(case["perm"] or []) % 2 else ["range", "mean"] + order + ["i"]
        ser = pd.Series(np.arange(1.0, len(rows) + 1.0), index=pd.MultiIndex.from_arrays([lev[n] for n in order], names=order), name="cycles")
        make = M.HaighDiagram.fkm_goodman if case["kind"] == "g" else M.HaighDiagram.five_segment
        if frm_missing(case):
            d = expects_no_diagram(lambda: make(par.copy()).transform(ser, g))
            return None if d is None else ("matrix with the parameter frame: " + d, "C12")
        tr = make(par.copy()).transform(ser, g)["range"]
        got = dict(zip(tr.index.get_level_values("i"), tr.to_numpy()))
        if sorted(got) != list(range(len(rows))):
            return (f"matrix with the parameter frame: result rows {sorted(got)} for {len(rows)} classes", "C12")
        names = GNAMES if case["kind"] == "g" else FNAMES
        for i_key, key in enumerate(case["keys"]):
            sel = [i for i, k in enumerate(keyvals) if k == tuple(key)]
            if not sel:
                continue
            sub = pd.Series(1.0, index=pd.MultiIndex.from_arrays([lev["range"][sel], lev["mean"][sel], np.array(sel)], names=["range", "mean", "i"]), name="cycles")
            one = make(pd.Series(dict(zip(names, case["rows"][i_key])))).transform(sub, g)["range"]
            exp = dict(zip(one.index.get_level_values("i"), one.to_numpy()))
            for i in sel:
                if f2h(float(got[i])) != f2h(float(exp[i])):
                    return (f"matrix class of key {key} (range {rows[i][0]}, mean {rows[i][1]}), parameters {case['rows'][i_key]}, target R={g}: with the "
                            f"parameter frame {got[i]}, with this key's diagram alone {exp[i]}", "C12")
        return None

    def oracle_mat(self, case):
        M = mst()
        case = upgrade_mat(case)
        ser, names, enames = matrix_of(case)
        _, rnames, rkeys, cells, binsize = mat_cells(case)
        par, plevels, pmap = mat_param(case)
        goal = case["goal"]
        if mat_missing(case):
            d = expects_no_diagram(lambda: ser.meanstress_transform.fkm_goodman(par, goal))
            return None if d is None else (d, "C12")
        if cells and max(c[2] for c in cells) <= 0:
            return None      # only cycles of amplitude 0: outside the property's quantifier (the code returns an empty result)
        ser0 = ser.copy()
        par0 = par.copy()
        lc = ser.meanstress_transform.fkm_goodman(par, goal)
        res = lc.to_pandas()
        same_par = par.equals(par0) and (list(par.index) == list(par0.index) if isinstance(par, pd.Series) else list(par.columns) == list(par0.columns))
        if not same_par:
            return ("the accessor modified the caller's parameter object (an 'M2' entry appeared)", "default-M2-writes-operand")
        if not (ser.equals(ser0) and list(ser.index.names) == list(ser0.index.names)):
            return ("the accessor modified the caller's matrix", "C12")
        if not cells:
            return None if len(res) == 0 else ("empty matrix gives a non-empty result", "C12")
        self.stats["oracle_checks"] += 1
        npar = len(pmap) if any(n not in enames for n in plevels) else 1
        tot_in, tot_out = float(ser.sum()) * npar, float(res.sum())
        if tot_in != tot_out:
            return (f"matrix transform to R={goal} does not conserve the cycles: {tot_in} in, {tot_out} out", "C12")
        by = mat_result_by_key(res, rnames)
        if sorted(by) != rkeys:
            return (f"the result has the keys {sorted(by)} of the levels {rnames}, expected {rkeys}", "C12")
        # per key: the class sums are those of the cycles transformed one by one (plain function, that key's parameters)
        for k in rkeys:
            mine = [c for c in cells if c[0] == k]
            cnt = np.array([c[4] for c in mine])
            if float(cnt.sum()) != float(sum(v for _, v in by[k])):
                return (f"matrix transform does not conserve the cycles of key {k}: {float(cnt.sum())} in, {sum(v for _, v in by[k])} out", "C12")
            Mk, M2k = mine[0][1]
            amp = np.array([c[2] / 2.0 for c in mine])
            mean = np.array([c[3] for c in mine])
            live = amp > 0
            one = np.zeros(len(mine))
            if live.any():
                # histogram route of HaighDiagram.transform for this key alone: the classes of this key (their own intervals, so the
                # class mids are the same doubles), one class per row, a parameter Series - no alignment of any kind involved
                rows_ = [c[5] for c, l in zip(mine, live) if l]
                idx = pd.MultiIndex.from_arrays([ser.index.get_level_values(names[0])[rows_], ser.index.get_level_values(names[1])[rows_],
                                                 np.arange(len(rows_))], names=[names[0], names[1], "i"])
                hser = pd.Series(1.0, index=idx, name="cycles")
                hd = M.HaighDiagram.fkm_goodman(pd.Series({"M": Mk, "M2": M2k}))
                tr = hd.transform(hser, goal)["range"]
                vals = dict(zip(tr.index.get_level_values("i"), tr.to_numpy()))
                one[live] = [vals[i] for i in range(len(rows_))]
                plain = 2.0 * M.fkm_goodman(amp[live], mean[live], Mk, M2k, goal)
                # A class whose from- and to-mid coincide up to rounding (|from - to| = 1 ulp of the mids, e.g. 0.5 vs
                # 0.5000000000000001) has amplitude "> 0" only formally: mean -/+ amplitude round to the mean, R = 1.0 exactly, i.e. the
                # cycle of amplitude 0 at R = 1 that is outside the property's quantifier.  Both routes are then arbitrary (and differ);
                # the class sums below still have to be those of the code's own value.
                scale = float(max(2.0 * amp.max(), np.abs(mean).max()))
                for x, y, a_, m_ in zip(one[live], plain, amp[live], mean[live]):
                    if a_ <= 1e-9 * max(abs(m_), scale):
                        self.stats["noise_amplitude_classes"] += 1
                        continue
                    if not close(x, y, 1e-9, scale):
                        return (f"key {k}: histogram route {x} vs plain function {y} (amplitude {a_}, mean {m_})", "C12")
            exp = [float(cnt[((one >= iv.left) if iv.left == 0.0 else (one > iv.left)) & (one <= iv.right)].sum()) for iv, _ in by[k]]
            got = [v for _, v in by[k]]
            if exp != got:
                klass = "matrix-row-order" if not plevels else "C12"
                return (f"matrix transform to R={goal}, key {k} (M={Mk}, M2={M2k}): class sums {got} but the cycles of this key transformed "
                        f"one by one fall into {exp}", klass)
        # every class of the result lies on the target ray
        R = lc.R.to_numpy()
        amp = lc.amplitude.to_numpy()
        for r, a in zip(R, amp):
            if a > 0 and not close(r, goal, 1e-7):
                return (f"result class not at the target R: {r} vs {goal}", "C12")
        return None

    # ------------------------------------------------------------ shrinking
    def shrink(self, case, still_fails):
        if case["k"] == "seq":
            cur = case
            for i in range(len(cur["steps"]) - 1, -1, -1):
                if len(cur["steps"]) > 1:
                    cand = dict(cur, steps=cur["steps"][:i] + cur["steps"][i + 1:], hd_order=list(range(len(cur["steps"]) - 1)))
                    if still_fails(cand):
                        cur = cand
            return cur
        if case["k"] == "cyc":
            cur = case
            for i in range(len(cur["cyc"]) - 1, -1, -1):
                if len(cur["cyc"]) == 1:
                    break
                cand = dict(cur, cyc=cur["cyc"][:i] + cur["cyc"][i + 1:])
                if still_fails(cand):
                    cur = cand
            if len(cur["goals"]) == 2:
                for cand in (dict(cur, goals=cur["goals"][:1]), dict(cur, goals=cur["goals"][1:])):
                    if still_fails(cand):
                        cur = cand
                        break
            return cur
        if case["k"] == "frm":
            cur = case
            for cand in (dict(cur, perm=None), dict(cur, pperm=None)):
                cand = dict(cur, **{k: v for k, v in cand.items() if k in ("perm", "pperm")})
                if still_fails(cand):
                    cur = cand
            if len(cur["order"]) > 1:
                for i in range(len(cur["cyc"])):          # one cycle per key where that still fails
                    if len(cur["cyc"][i]) > 1:
                        cc = [list(c) for c in cur["cyc"]]
                        cc[i] = cc[i][:1]
                        cand = dict(cur, cyc=cc, perm=None)
                        if still_fails(cand):
                            cur = cand
            return cur
        cur = case = upgrade_mat(case)
        for cand in (dict(cur, shuffle=None), dict(cur, nonzero_only=False)):
            if still_fails(cand):
                cur = cand
        for i, v in enumerate(case["counts"]):
            if v != 0.0:
                cc = list(cur["counts"])
                cc[i] = 0.0
                cand = dict(cur, counts=cc)
                if any(cc) and still_fails(cand):
                    cur = cand
        return cur
