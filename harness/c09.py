"""C09: FKM-nonlinear damage curves (P_RAM / P_RAJ), the P_RAM damage parameter, damage accumulation and
lifetime (DamageCalculatorPRAM), safety index (compute_beta) and load safety factors (gamma_L).

Implementation side + generators + direct property oracle.  The Lean model is lean/Model/FkmNonlinear.lean,
its protocol handler lean/Driver/FkmNonlinear.lean (ops `c09.*`)."""
import json
import math
import re
import warnings

import numpy as np
import pandas as pd

from . import core
from .core import Prop, f2h, h2f, close

SOURCES = [
    "src/pylife/strength/woehler_fkm_nonlinear.py",
    "src/pylife/strength/damage_parameter.py",
    "src/pylife/strength/fkm_nonlinear/damage_calculator.py",
    "src/pylife/strength/fkm_nonlinear/parameter_calculations.py",
    "src/pylife/strength/fkm_load_distribution.py",
    "src/pylife/strength/fkm_nonlinear/constants.py",
]

GROUPS = ["Steel", "SteelCast", "Al_wrought"]

# key order of `Consts.toList` in the Lean model
CONST_KEYS = ["E", "n_prime", "a_sigma", "a_epsilon", "b_sigma", "b_epsilon", "epsilon_grenz",
              "f_25percent_damage_woehler", "a_PZ_RAM", "b_PZ_RAM", "a_PD_RAM", "b_PD_RAM", "d_1", "d_2",
              "f_25percent_material_woehler_FKM_nonlinear_RAM", "f_25percent_material_woehler_FKM_roughness_RAM",
              "k_st", "a_RP", "b_RP", "R_m_N_min", "a_M", "b_M", "R_m_bm", "d_RAJ",
              "f_25percent_material_woehler_FKM_nonlinear_RAJ", "f_25percent_material_woehler_FKM_roughness_RAJ",
              "a_PZ_RAJ", "b_PZ_RAJ", "a_PD_RAJ", "b_PD_RAJ"]

# The guideline's values (FKM nonlinear, tables 2.7, 2.10, 2.14, 2.33 incl. the authors' correction of the P_RAJ
# constants), restated here independently of the module under test: the oracle's reference.
GUIDELINE = {
    "Steel": {"E": 206e3, "a_M": 0.35, "b_M": -0.1, "d_1": -0.302, "d_2": -0.197, "a_PZ_RAM": 20.0, "b_PZ_RAM": 0.587,
              "a_PD_RAM": 0.82, "b_PD_RAM": 0.92, "d_RAJ": -0.63, "a_PZ_RAJ": 10.0, "b_PZ_RAJ": 0.826,
              "a_PD_RAJ": 3.33e-5, "b_PD_RAJ": 1.55},
    "SteelCast": {"E": 206e3, "a_M": 0.35, "b_M": 0.05, "d_1": -0.289, "d_2": -0.189, "a_PZ_RAM": 25.56, "b_PZ_RAM": 0.519,
                  "a_PD_RAM": 0.46, "b_PD_RAM": 0.96, "d_RAJ": -0.66, "a_PZ_RAJ": 10.03, "b_PZ_RAJ": 0.695,
                  "a_PD_RAJ": 5.15e-6, "b_PD_RAJ": 1.63},
    "Al_wrought": {"E": 70e3, "a_M": 1.0, "b_M": -0.04, "d_1": -0.238, "d_2": -0.167, "a_PZ_RAM": 16.71, "b_PZ_RAM": 0.537,
                   "a_PD_RAM": 0.30, "b_PD_RAM": 1.00, "d_RAJ": -0.61, "a_PZ_RAJ": 101.7, "b_PZ_RAJ": 0.26,
                   "a_PD_RAJ": 5.18e-7, "b_PD_RAJ": 2.04},
}
BETA_TABLE = [(1e-7, 5.20), (1e-6, 4.75), (1e-5, 4.27), (7.2e-5, 3.8), (1e-3, 3.09), (2.3e-1, 0.739), (0.5, 0.0)]

HEX16 = re.compile(r"^[0-9a-f]{16}$")
INF = math.inf


def _imports():
    import pylife.strength.woehler_fkm_nonlinear  # noqa: F401  (registers the accessors)
    import pylife.strength.fkm_load_distribution  # noqa: F401
    import pylife.strength.damage_parameter as dp
    import pylife.strength.fkm_nonlinear.damage_calculator as dc
    import pylife.strength.fkm_nonlinear.parameter_calculations as pc
    import pylife.strength.fkm_nonlinear.constants as const
    return dp, dc, pc, const


def fl(x):
    """life / float token"""
    x = float(x)
    return "inf" if x == INF else f2h(x)


def pram_curve(c):
    _imports()
    return pd.Series({"P_RAM_Z": c["PZ"], "P_RAM_D": c["PD"], "d_1": c["d1"], "d_2": c["d2"]}).woehler_P_RAM


def praj_curve(c):
    _imports()
    w = pd.Series({"P_RAJ_Z": c["PZ"], "P_RAJ_D_0": c["PD0"], "d_RAJ": c["d"]}).woehler_P_RAJ
    if c["PD"] != c["PD0"]:
        w.update_P_RAJ_D(c["PD"])
    return w


def life_table(case):
    rows = case["rows"]
    return pd.DataFrame({
        "P_RAM": [float(r[0]) for r in rows],
        "is_closed_hysteresis": [bool(r[1]) for r in rows],
        "run_index": [int(r[2]) for r in rows],
        "S_min": [0.0] * len(rows),
    })


def run_life(case):
    """The real DamageCalculatorPRAM on the table of the case."""
    _dp, dc, _pc, _const = _imports()
    with warnings.catch_warnings():
        warnings.simplefilter("ignore")
        with np.errstate(all="ignore"):
            calc = dc.DamageCalculatorPRAM(life_table(case), pram_curve(case))
            nseq = float(calc.lifetime_n_times_load_sequence)
            ncyc = float(calc.lifetime_n_cycles)
            x = float(np.asarray(calc._x).squeeze())
            idx = int(np.asarray(calc._n_cycles_until_damage).squeeze())
            infinite = bool(calc.is_life_infinite)
            D = [float(v) for v in calc.collective["D"].values]
            cum = [float(v) for v in calc.collective["cumulative_damage"].values]
    return {"nseq": nseq, "ncyc": ncyc, "x": x, "idx": idx, "infinite": infinite, "D": D, "cum": cum,
            "early": idx < len(case["rows"])}


def near_tie(cums, exact):
    """A prefix sum closer to one than summation-order rounding can resolve (never for the exact family)."""
    if exact:
        return False
    return any(abs(c - 1.0) < 1e-9 for c in cums)


# ------------------------------------------------------------------ generators
def logu(rng, lo, hi):
    return 10.0 ** rng.uniform(math.log10(lo), math.log10(hi))


def gen_pram_params(rng):
    if rng.random() < 0.3:
        g = GUIDELINE[rng.choice(GROUPS)]
        d1, d2 = g["d_1"], g["d_2"]
    else:
        d1, d2 = -rng.uniform(0.05, 1.2), -rng.uniform(0.05, 1.2)
    PZ = logu(rng, 20, 5000)
    PD = PZ * rng.choice([rng.uniform(0.02, 0.98), rng.uniform(0.9, 0.999999), 0.5])
    return {"d1": d1, "d2": d2, "PZ": PZ, "PD": PD}


def around(v):
    return [v, math.nextafter(v, INF), math.nextafter(v, -INF), v * (1 + 1e-9), v * (1 - 1e-9)]


def gen_pram_curve(rng):
    c = gen_pram_params(rng)
    ND = 1e3 * (c["PD"] / c["PZ"]) ** (1 / c["d2"])
    Ps = around(c["PD"]) + around(c["PZ"]) + [0.0, c["PD"] / 2, c["PZ"] * 3]
    Ps += [logu(rng, c["PD"] * 0.3, c["PZ"] * 30) for _ in range(6)]
    Ns = around(1e3) + around(ND) + [1.0, 0.5, ND * 10, "inf"]
    Ns += [logu(rng, 0.01, min(ND * 3, 1e300)) for _ in range(6)]
    c.update(kind="pram_curve", Ps=Ps, Ns=Ns)
    return c


def gen_praj_curve(rng):
    if rng.random() < 0.3:
        d = GUIDELINE[rng.choice(GROUPS)]["d_RAJ"]
    else:
        d = -rng.uniform(0.1, 1.5)
    PZ = logu(rng, 5, 5000)
    PD0 = PZ * logu(rng, 1e-5, 0.9)
    PD = PD0 if rng.random() < 0.5 else PD0 * rng.uniform(0.2, 1.0)   # lowered by update_P_RAJ_D
    ND = (PD0 / PZ) ** (1 / d)
    Ps = around(PD) + around(PD0) + around(PZ) + [0.0, PD / 2, PZ * 2]
    Ps += [logu(rng, PD * 0.3, PZ * 5) for _ in range(6)]
    Ns = around(ND) + around(1.0) + [0.25, ND * 10, "inf"] + [logu(rng, 0.01, min(ND * 3, 1e300)) for _ in range(6)]
    return {"kind": "praj_curve", "d": d, "PZ": PZ, "PD0": PD0, "PD": PD, "Ps": Ps, "Ns": Ns}


def gen_pram_row(rng):
    g = rng.choice(GROUPS)
    Rm = rng.choice([rng.uniform(150, 1600), 600.0, 285.714285714, 1000.0 / 0.35 * 0.1])   # incl. M_sigma ≈ 0
    E = rng.choice([GUIDELINE[g]["E"], rng.uniform(5e4, 2.5e5)])
    rows = []
    for _ in range(rng.randint(1, 8)):
        mode = rng.choice(["pos", "neg", "zero_mean", "neg_disc", "zero_disc", "any"])
        Sa = rng.uniform(0, 600)
        ea = Sa / E * rng.uniform(1, 3) if rng.random() < 0.9 else 0.0
        if mode == "pos":
            Sm = rng.uniform(0, 500)
        elif mode == "neg":
            Sm = -rng.uniform(0, 500)
        elif mode == "zero_mean":
            Sm = rng.choice([0.0, -0.0])
        elif mode == "neg_disc":
            Sm = -rng.uniform(5, 60) * (Sa + 1)
        elif mode == "zero_disc":
            Sa, Sm = 0.0, 0.0
        else:
            Sm = rng.uniform(-2000, 2000)
        rows.append([Sa, Sm, ea])
    return {"kind": "pram_row", "group": g, "Rm": Rm, "E": E, "rows": rows}


def gen_life(rng):
    mode = rng.choice(["never", "never", "pass1", "pass2", "zero", "big", "exact", "exact"])
    if mode == "exact":
        # d_1 = -1, P = P_Z * 1000 / 2^k  =>  N = 2^k exactly, damages dyadic, all sums exact (ties at one possible)
        PZ = 2.0 ** rng.randint(0, 8)
        c = {"d1": -1.0, "d2": -rng.uniform(0.1, 0.6), "PZ": PZ, "PD": PZ * 0.5}
        n1, n2 = rng.randint(0, 5), rng.randint(1, 5)
        rows = []
        for i in range(n1 + n2):
            k = rng.randint(0, 6)
            rows.append([PZ * 1000.0 / 2 ** k, rng.random() < 0.6, 1 if i < n1 else 2])
        return dict(c, kind="life", exact=True, rows=rows)
    c = gen_pram_params(rng)
    n1, n2 = rng.choice([0, 1, 2, 5, 12]), rng.choice([1, 2, 3, 7, 20])
    if mode == "never":
        t1, t2 = logu(rng, 1e-5, 0.4), logu(rng, 1e-5, 0.5)
    elif mode == "pass1":
        n1 = max(n1, 1)
        t1, t2 = rng.uniform(1.05, 4), logu(rng, 1e-3, 2)
    elif mode == "pass2":
        t1, t2 = rng.uniform(0.0, 0.9), rng.uniform(1.05, 3)
    elif mode == "big":
        t1, t2 = logu(rng, 1e-9, 1e-3), logu(rng, 1e-9, 1e-4)
    else:
        t1, t2 = logu(rng, 1e-4, 0.3), logu(rng, 1e-4, 0.3)
    rows = []
    for run, n, t in ((1, n1, t1), (2, n2, t2)):
        if n == 0:
            continue
        w = [rng.random() + 0.05 for _ in range(n)]
        s = sum(w)
        for wi in w:
            closed = rng.random() < 0.6
            D = t * wi / s
            N = (1.0 if closed else 0.5) / D
            # invert the curve by hand (slope d_1 below 1e3 cycles, d_2 above)
            P = c["PZ"] * (N / 1e3) ** (c["d1"] if N < 1e3 else c["d2"])
            rows.append([P, closed, run])
    if mode == "zero":
        for r in rows:
            if rng.random() < 0.5 or (r[2] == 2 and rng.random() < 0.3):
                r[0] = 0.0
        if rng.random() < 0.3:
            for r in rows:
                if r[2] == 2:
                    r[0] = 0.0
    if rng.random() < 0.15:     # rows exactly at the knee and at the endurance value
        rows[rng.randrange(len(rows))][0] = c["PZ"]
        rows[rng.randrange(len(rows))][0] = c["PD"]
    return dict(c, kind="life", exact=False, rows=rows)


def gen_beta(rng):
    m = rng.random()
    if m < 0.5:
        PA = logu(rng, 1e-9, 0.5)
    elif m < 0.7:
        PA = rng.choice([p for p, _ in BETA_TABLE] + [2.5e-2, 0.5, 0.4999999, 1e-9])
    elif m < 0.85:
        PA = logu(rng, 1e-100, 1e-9)
    else:
        PA = rng.uniform(0.01, 0.5)
    return {"kind": "beta", "PA": PA}


def gen_gamma(rng):
    m = rng.random()
    if m < 0.6:
        PA = rng.choice([p for p, _ in BETA_TABLE])
        if rng.random() < 0.3:
            PA *= 1 + rng.choice([-1, 1]) * 10 ** rng.uniform(-9, -4.5)     # around the isclose boundary
    elif m < 0.8:
        PA = logu(rng, 1e-8, 0.5)
    else:
        PA = rng.choice([1.05e-7, 1.2e-7, 0.9e-7, 1.005e-6, 1.02e-6])        # absolute tolerance 1e-8 matters
    PL = rng.choice([2.5, 50.0, 50, 2.5 * (1 + 1e-6), 2.5 * (1 + 2e-5), 2.50001, 10.0, 0.0, 97.5])
    which = rng.choice(["normal", "lognormal", "blanket"])
    n = rng.randint(1, 9)
    loads = [rng.choice([rng.uniform(-500, 500), float(rng.randint(-300, 300))]) for _ in range(n)]
    if all(v == 0 for v in loads):
        loads[0] = 1.0
    s = rng.choice([logu(rng, 1e-3, 50), 0.0]) if which == "normal" else rng.choice([logu(rng, 1e-4, 0.5), 0.0])
    return {"kind": "gamma", "which": which, "PA": PA, "PL": PL, "s": s, "loads": loads}


# ------------------------------------------------------------------ the property
class C09(Prop):
    ID = "C09"
    SOURCES = SOURCES
    LEAN_MODULES = ["Proofs.C09", "Proofs.BridgeC09"]
    THEOREMS = [f"PylifeVerif.C09.{t}" for t in [
        "pram_curve_inverse", "pram_branch_consistency", "pram_continuous", "pram_strictAnti_finite",
        "pram_infinite_below_endurance",
        "praj_curve_inverse", "praj_branch_consistency", "praj_continuous", "praj_strictAnti_finite",
        "praj_infinite_below_endurance",
        "pRAM_formula", "constants_eq_guideline", "pRAM_group_formula",
        "rowD_nonneg", "early_failure_index", "lifetime_eq_accumulation", "lifetime_eq_accumulation_rows",
        "isLifeInfinite_iff",
        "getBeta_table", "gammaL_formulas", "beta_is_neg_quantile_partial"]] + [
        f"PylifeVerif.Bridge.{t}" for t in [      # generated (translated) definitions = hand model
        "pram_fatigue_strength_limit_eq", "pram_fatigue_life_limit_eq", "pram_calc_N_eq", "pram_calc_P_RAM_eq",
        "praj_limits_eq", "praj_calc_N_eq", "praj_calc_N_explicit_eq", "praj_calc_P_RAJ_eq",
        "beta_table_eq", "get_beta_eq", "gamma_L_normal_eq", "gamma_L_lognormal_eq", "gamma_L_blanket_eq",
        "constants_eq", "constants_keys_complete"]]
    PARTIAL = {
        "PylifeVerif.C09.beta_is_neg_quantile_partial":
            "proved for an abstract strictly increasing (and symmetric) Phi: the residual |Phi(x) - P_A| vanishes exactly at the "
            "unique solution of Phi(x) = P_A and beta = -x; NOT proved: that scipy.optimize.root (hybrid Powell from x0 = -0.6 on "
            "this non-smooth residual) returns that root, and that scipy's norm.cdf is the standard normal distribution function - "
            "measured per run: compute_beta vs an independent quantile (series / continued fraction + bisection in the driver) and "
            "vs math.erfc in the oracle, P_A in [1e-100, 0.5]",
    }
    RULE = ("case = one of: P_RAM curve parameters + parameter / cycle values (incl. exactly P_Z, P_D, 1e3, N_D and their neighbours); "
            "P_RAJ curve likewise (with lowered P_RAJ_D); material group + R_m + rows (S_a, S_m, eps_a); hysteresis table "
            "(P_RAM, closed?, run) + curve; P_A; gamma_L inputs; constants of a group.  Correspondence: model (Float) vs real code, "
            "bit-exact for constants, P_RAM rows, table look-ups and the exact (dyadic) damage tables, relative 1e-11 where "
            "pow/log are involved.  Oracle: the property's relations on the real code (round trips, monotonicity, limits at the "
            "knees, sqrt formula with guideline constants, literal damage accumulation, erfc residual of beta, guideline gamma_L "
            "formulas).  Non-trivial = every case (distinct cases counted)")
    ASSUMPTIONS = [
        "C09: theorems are over the reals (Real.rpow, Real.sqrt); IEEE rounding of np.power / division is not modelled, the "
        "correspondence measures agreement of the same formulas at Float with relative tolerance 1e-11",
        "C09: admissible curve = what _validate accepts (P_Z > P_D, negative slopes) plus P_D > 0, which the code does not test",
        "C09: one assessment point per table (the multi-point groupby glue belongs to C10/C13); run-1 rows precede run-2 rows; tables "
        "without a run-2 row are rejected by the code (IndexError) and are not generated",
        "C09: np.searchsorted on the cumulative damages is modelled as 'first index with prefix sum >= 1' (numpy contract for a "
        "non-decreasing array); pandas' groupby sum/cumsum are modelled as plain sums (Kahan compensation changes ulps only): "
        "tables whose prefix sums come closer than 1e-9 to one without being exactly representable ties are compared without the index",
        "C09: P_RAM: strain amplitude and E non-negative (numpy sqrt of a negative product under a non-negative factor is NaN)",
        "C09: compute_beta is sampled for P_A in [1e-100, 0.5]; below about 1e-118 the root search reports failure (RuntimeError, loud) - not claimed",
        "C09: gamma_L takes beta from the tabulated list (_get_beta, np.isclose matching), not from compute_beta - modelled as coded",
        "C09: P_RAJ damage parameter row function (crack opening loop) and DamageCalculatorPRAJ are not modelled here (C10 treats the P_RAJ pipeline by oracle)",
    ]

    # tie T (DESIGN 1.1): lean/Generated/<name>.lean are regenerated from the current python source before the build;
    # Proofs.BridgeC09 proves them equal to the hand model the property theorems are about
    TRANSLATED = ["WoehlerFkmNonlinear", "FkmLoadDistribution", "FkmConstants"]

    def setup(self, log):
        import os
        import sys
        tdir = os.path.join(core.VERIF, "translate")
        sys.path.insert(0, tdir)
        try:
            import translate as T
            ok, msg = T.run_modules(self.TRANSLATED, core.REPO, core.LEAN)
        except Exception as e:      # the translator itself is broken: every bridge obligation counts as broken
            ok, msg = False, f"translator crashed: {type(e).__name__}: {e}"
            for n in self.TRANSLATED:
                with open(os.path.join(core.LEAN, "Generated", n + "Status.lean"), "w") as f:
                    f.write('#eval (throw (IO.userError "translator crashed") : IO Unit)\n')
        finally:
            sys.path.remove(tdir)
        self.stats["translator"] = msg
        log(("translator: " + msg) if ok else ("TRANSLATOR FAILED (broken proof obligation): " + msg))

    def __init__(self):
        self.stats = {}
        self.exhaustive = False

    def _count(self, key, n=1):
        self.stats[key] = self.stats.get(key, 0) + n

    # -------------------------------------------------------------- generation
    def generate(self, rng, tier):
        big = tier != "quick"
        for g in GROUPS:
            yield {"kind": "consts", "group": g}
        for p, _b in BETA_TABLE:
            yield {"kind": "beta", "PA": p}
            for pl in (2.5, 50.0):
                yield {"kind": "gamma", "which": "normal", "PA": p, "PL": pl, "s": 10.0, "loads": [100.0, -150.0, 120.0]}
                yield {"kind": "gamma", "which": "lognormal", "PA": p, "PL": pl, "s": 0.01, "loads": [1.0]}
        for pl in (2.5, 50.0, 10.0):
            yield {"kind": "gamma", "which": "blanket", "PA": 1e-5, "PL": pl, "s": 0.0, "loads": [1.0]}
        # P_A log grid
        ngrid = 60 if not big else 600
        for i in range(ngrid + 1):
            yield {"kind": "beta", "PA": 10.0 ** (-9 + i * (9 + math.log10(0.5)) / ngrid)}
        counts = {"pram_curve": 120, "praj_curve": 80, "pram_row": 150, "life": 400, "beta": 200, "gamma": 250}
        if big:
            counts = {k: v * 8 for k, v in counts.items()}
        gens = {"pram_curve": gen_pram_curve, "praj_curve": gen_praj_curve, "pram_row": gen_pram_row, "life": gen_life,
                "beta": gen_beta, "gamma": gen_gamma}
        for kind, n in counts.items():
            for _ in range(n):
                yield gens[kind](rng)

    # -------------------------------------------------------------- correspondence: model side
    def model_lines(self, case):
        k = case["kind"]
        if k == "consts":
            return [f"c09.consts {case['group']}"]
        if k == "pram_curve":
            c = f"{f2h(case['d1'])} {f2h(case['d2'])} {f2h(case['PZ'])} {f2h(case['PD'])}"
            return ([f"c09.pramND {c}"] + [f"c09.pramN {c} {f2h(p)}" for p in case["Ps"]]
                    + [f"c09.pramP {c} {fl(n)}" for n in case["Ns"]])
        if k == "praj_curve":
            c = f"{f2h(case['d'])} {f2h(case['PZ'])} {f2h(case['PD0'])} {f2h(case['PD'])}"
            return ([f"c09.prajND {c}"] + [f"c09.prajN {c} {f2h(p)}" for p in case["Ps"]]
                    + [f"c09.prajP {c} {fl(n)}" for n in case["Ns"]])
        if k == "pram_row":
            return [f"c09.pram {case['group']} {f2h(case['Rm'])} {f2h(case['E'])} {f2h(r[0])} {f2h(r[1])} {f2h(r[2])}"
                    for r in case["rows"]]
        if k == "life":
            c = f"{f2h(case['d1'])} {f2h(case['d2'])} {f2h(case['PZ'])} {f2h(case['PD'])}"
            rows = " ".join(f"{f2h(r[0])} {1 if r[1] else 0} {int(r[2])}" for r in case["rows"])
            return [f"c09.life {c} {rows}"]
        if k == "beta":
            return [f"c09.beta {f2h(case['PA'])}", f"c09.getbeta {f2h(case['PA'])}"]
        if k == "gamma":
            w = case["which"]
            if w == "normal":
                return [f"c09.gLn {f2h(case['PA'])} {f2h(case['PL'])} {f2h(case['s'])} " + " ".join(f2h(v) for v in case["loads"])]
            if w == "lognormal":
                return [f"c09.gLl {f2h(case['PA'])} {f2h(case['PL'])} {f2h(case['s'])}"]
            return [f"c09.gLb {f2h(case['PL'])}"]
        return []

    # -------------------------------------------------------------- correspondence: implementation side
    def impl_lines(self, case):
        dp, dc, pc, const = _imports()
        k = case["kind"]
        self._count("cases_" + k)
        with warnings.catch_warnings():
            warnings.simplefilter("ignore")
            if k == "consts":
                col = const.all_constants[case["group"]]
                out = []
                for key in CONST_KEYS:
                    v = float(col[key])
                    out.append("none" if (v != v or v == INF) else f2h(v))
                extra = sorted(set(const.all_constants.index) - set(CONST_KEYS))
                if extra:
                    out.append("unexpected-keys:" + ",".join(extra))
                return [" ".join(out)]
            if k == "pram_curve":
                w = pram_curve(case)
                out = [f2h(float(w.fatigue_life_limit))]
                for p in case["Ps"]:
                    n = float(w.calc_N(p))
                    self._count("pramN_" + ("inf" if n == INF else "d1" if p >= case["PZ"] else "d2"))
                    out.append(fl(n))
                for n in case["Ns"]:
                    nn = INF if n == "inf" else n
                    out.append(f2h(float(w.calc_P_RAM(nn))))
                return out
            if k == "praj_curve":
                w = praj_curve(case)
                out = [f"{f2h(float(w.fatigue_life_limit))} {f2h(float(w.fatigue_life_limit_final))}"]
                for p in case["Ps"]:
                    out.append(fl(float(w.calc_N(p))))
                for n in case["Ns"]:
                    nn = INF if n == "inf" else n
                    out.append(f2h(float(w.calc_P_RAJ(nn))))
                return out
            if k == "pram_row":
                rows = case["rows"]
                coll = pd.DataFrame({"S_a": [r[0] for r in rows], "S_m": [r[1] for r in rows], "epsilon_a": [r[2] for r in rows]})
                ap = pd.Series({"MatGroupFKM": case["group"], "R_m": case["Rm"], "E": case["E"]})
                obj = dp.P_RAM(coll, ap)
                M = float(obj._M_sigma)
                vals = [float(v) for v in obj.collective["P_RAM"].values]
                for r, v in zip(rows, vals):
                    self._count("pram_" + ("zero" if v == 0 else "pos_mean" if r[1] >= 0 else "neg_mean"))
                return [f"{f2h(M)} {f2h(v)}" for v in vals]
            if k == "life":
                r = run_life(case)
                self._count("life_" + ("early_pass1" if r["early"] and case["rows"][r["idx"]][2] == 1 else
                                       "early_pass2" if r["early"] else
                                       "inf" if r["nseq"] == INF else "never"))
                if case.get("exact"):
                    self._count("life_exact_family")
                    if any(c == 1.0 for c in r["cum"]):
                        self._count("life_exact_tie_at_one")
                if r["infinite"]:
                    self._count("life_is_infinite")
                return [f"{1 if r['early'] else 0} {r['idx']} {f2h(r['x'])} {f2h(r['nseq'])} {f2h(r['ncyc'])} "
                        f"{1 if r['infinite'] else 0} | " + " ".join(f2h(d) for d in r["D"])]
            if k == "beta":
                ser = pd.Series([1.0])
                try:
                    gb = f2h(float(ser.fkm_load_sequence._get_beta(pd.Series({"P_A": case["PA"]}))))
                    self._count("getbeta_hit")
                except ValueError:
                    gb = "ValueError"
                return [f2h(float(pc.compute_beta(case["PA"]))), gb]
            if k == "gamma":
                return [self._gamma_impl(case)]
        return []

    def _gamma_impl(self, case, count=True):
        ser = pd.Series([float(v) for v in case["loads"]], name="load")
        w = case["which"]
        try:
            if w == "normal":
                g = ser.fkm_safety_normal_from_stddev.gamma_L(pd.Series({"P_A": case["PA"], "P_L": case["PL"], "s_L": case["s"]}))
            elif w == "lognormal":
                g = ser.fkm_safety_lognormal_from_stddev.gamma_L(pd.Series({"P_A": case["PA"], "P_L": case["PL"], "LSD_s": case["s"]}))
            else:
                g = ser.fkm_safety_blanket.gamma_L(pd.Series({"P_L": case["PL"]}))
        except ValueError:
            if count:
                self._count("gamma_ValueError_" + w)
            return "ValueError"
        if count:
            self._count("gamma_" + w)
        return f2h(float(g))

    # -------------------------------------------------------------- comparison
    def compare(self, case, model_out, impl_out):
        if len(model_out) != len(impl_out):
            return f"length {len(model_out)} vs {len(impl_out)}"
        k = case["kind"]
        exact = k in ("consts", "pram_row") or (k == "life" and case.get("exact"))
        rtol = 0.0 if exact else 1e-11
        for i, (a, b) in enumerate(zip(model_out, impl_out)):
            if a == b:
                continue
            ta, tb = a.split(), b.split()
            if len(ta) != len(tb):
                return f"line {i}: model={a[:300]!r} impl={b[:300]!r}"
            if k == "life":
                d = self._compare_life(case, ta, tb)
                if d:
                    return f"line {i}: {d}: model={a[:300]!r} impl={b[:300]!r}"
                continue
            for j, (x, y) in enumerate(zip(ta, tb)):
                if x == y:
                    continue
                if HEX16.match(x) and HEX16.match(y):
                    fx, fy = h2f(x), h2f(y)
                    if k == "beta" and i == 0:
                        if abs(fx - fy) <= 1e-9 * max(1.0, abs(fy)):
                            continue
                    elif close(fx, fy, rtol=rtol):
                        continue
                    return f"line {i} token {j}: model={fx!r} impl={fy!r}"
                return f"line {i} token {j}: model={x!r} impl={y!r}"
        return None

    def _compare_life(self, case, ta, tb):
        """tokens: early idx x nSeq nCycles infinite | D…"""
        exact = bool(case.get("exact"))
        Dm, Di = [h2f(t) for t in ta[7:]], [h2f(t) for t in tb[7:]]
        for j, (x, y) in enumerate(zip(Dm, Di)):
            if not close(x, y, rtol=0.0 if exact else 1e-11):
                return f"damage of row {j}: model={x!r} impl={y!r}"
        if ta[5] != tb[5]:
            return "is_life_infinite differs"
        cum, acc = [], 0.0
        for d in Di:
            acc += d
            cum.append(acc)
        if near_tie(cum, exact):
            self._count("life_near_tie_relaxed")
            return None
        if ta[0] != tb[0] or ta[1] != tb[1]:
            return "early-failure decision / index differs"
        D1 = sum(d for d, r in zip(Di, case["rows"]) if r[2] == 1)
        # error propagation of the summation order through (1 - D1) / D2
        rt = 0.0 if exact else 1e-10 * (1.0 + abs(D1) / max(abs(1.0 - D1), 1e-300))
        for name, x, y in (("x", ta[2], tb[2]), ("n_times_load_sequence", ta[3], tb[3]), ("n_cycles", ta[4], tb[4])):
            fx, fy = h2f(x), h2f(y)
            if not close(fx, fy, rtol=max(rt, 4e-16)):
                return f"{name}: model={fx!r} impl={fy!r}"
        return None

    def nontrivial(self, case, model_out):
        return json.dumps(case, sort_keys=True)

    # -------------------------------------------------------------- direct property oracle (real code only)
    def oracle(self, case):
        k = case["kind"]
        with warnings.catch_warnings():
            warnings.simplefilter("ignore")
            if k == "consts":
                return self._oracle_consts(case)
            if k == "pram_curve":
                return self._oracle_curve(case, "pram")
            if k == "praj_curve":
                return self._oracle_curve(case, "praj")
            if k == "pram_row":
                return self._oracle_row(case)
            if k == "life":
                return self._oracle_life(case)
            if k == "beta":
                return self._oracle_beta(case)
            if k == "gamma":
                return self._oracle_gamma(case)
        return None

    def _oracle_consts(self, case):
        _dp, _dc, _pc, const = _imports()
        col = const.all_constants[case["group"]]
        for key, v in GUIDELINE[case["group"]].items():
            if float(col[key]) != v:
                return (f"constants[{case['group']}][{key}] = {float(col[key])!r}, guideline value {v!r}", "constants-table")
        return None

    def _oracle_curve(self, case, which):
        RT = 1e-9
        if which == "pram":
            w = pram_curve(case)
            calcN, calcP = (lambda p: float(w.calc_N(p))), (lambda n: float(w.calc_P_RAM(n)))
            PD_N, PD_P, PZ = case["PD"], case["PD"], case["PZ"]
            knee_N, knee_P = 1e3, case["PZ"]
        else:
            w = praj_curve(case)
            calcN, calcP = (lambda p: float(w.calc_N(p))), (lambda n: float(w.calc_P_RAJ(n)))
            PD_N, PD_P, PZ = case["PD"], case["PD0"], case["PZ"]
            knee_N, knee_P = 1.0, case["PZ"]
        ND = float(w.fatigue_life_limit)
        # admissibility as the property quantifies it
        if not (0 < PD_P < PZ):
            return None
        # (a) P -> N -> P, infinite at / below endurance, finite above
        pts = []
        for p in case["Ps"]:
            n = calcN(p)
            if p <= PD_N:
                if n != INF:
                    return (f"{which}: calc_N({p!r}) = {n!r} at/below the endurance value {PD_N!r}: not infinite", "curve-endurance")
                continue
            if not (0 < n < INF):
                return (f"{which}: calc_N({p!r}) = {n!r} above the endurance value {PD_N!r}: not finite positive", "curve-endurance")
            pts.append((p, n))
            if p > PD_P * (1 + 1e-7):
                back = calcP(n)
                if not close(back, p, rtol=RT):
                    return (f"{which}: calc_P(calc_N({p!r})) = {back!r}", "curve-inverse")
                if not n < ND * (1 + 1e-9):
                    return (f"{which}: calc_N({p!r}) = {n!r} not below the life limit {ND!r}", "curve-branch")
            if which == "pram" and ((p > PZ * (1 + 1e-9) and not n < 1e3) or (p < PZ * (1 - 1e-9) and not n > 1e3)):
                return (f"pram: calc_N({p!r}) = {n!r} on the wrong side of 1e3 (P_Z = {PZ!r})", "curve-branch")
        # strictly decreasing N(P)
        pts.sort()
        for (p1, n1), (p2, n2) in zip(pts, pts[1:]):
            if p2 > p1 * (1 + 1e-7) and not n2 < n1:
                return (f"{which}: calc_N not strictly decreasing: N({p1!r}) = {n1!r}, N({p2!r}) = {n2!r}", "curve-monotone")
        # (b) N -> P -> N, horizontal beyond the life limit
        qts = []
        for n in case["Ns"]:
            nn = INF if n == "inf" else n
            p = calcP(nn)
            if nn >= ND * (1 + 1e-9):
                if p != PD_P:
                    return (f"{which}: calc_P({nn!r}) = {p!r} beyond the life limit {ND!r}, endurance value {PD_P!r}", "curve-endurance")
                continue
            if nn <= ND * (1 - 1e-9):
                qts.append((nn, p))
                if not p > PD_P:
                    return (f"{which}: calc_P({nn!r}) = {p!r} not above the endurance value below the life limit", "curve-branch")
                if PD_N <= PD_P:
                    back = calcN(p)
                    if not close(back, nn, rtol=RT):
                        return (f"{which}: calc_N(calc_P({nn!r})) = {back!r}", "curve-inverse")
        qts.sort()
        for (n1, p1), (n2, p2) in zip(qts, qts[1:]):
            if n2 > n1 * (1 + 1e-7) and not p2 < p1:
                return (f"{which}: calc_P not strictly decreasing: P({n1!r}) = {p1!r}, P({n2!r}) = {p2!r}", "curve-monotone")
        # (c) continuity at the knees: values just left / right of the knee agree with the knee value
        for n0, p0 in ((knee_N, knee_P), (ND, PD_P)):
            for f in (1 - 1e-10, 1.0, 1 + 1e-10):
                v = calcP(n0 * f)
                if not close(v, p0, rtol=1e-8):
                    return (f"{which}: calc_P jumps at N = {n0!r}: calc_P({n0 * f!r}) = {v!r}, expected about {p0!r}", "curve-continuity")
        for f in (1 - 1e-10, 1.0, 1 + 1e-10):
            if knee_P * f > PD_N:
                v = calcN(knee_P * f)
                if not close(v, knee_N, rtol=1e-7):
                    return (f"{which}: calc_N jumps at P = {knee_P!r}: calc_N({knee_P * f!r}) = {v!r}, expected about {knee_N!r}", "curve-continuity")
        return None

    def _oracle_row(self, case):
        dp, _dc, _pc, _const = _imports()
        rows = case["rows"]
        coll = pd.DataFrame({"S_a": [r[0] for r in rows], "S_m": [r[1] for r in rows], "epsilon_a": [r[2] for r in rows]})
        ap = pd.Series({"MatGroupFKM": case["group"], "R_m": case["Rm"], "E": case["E"]})
        got = [float(v) for v in dp.P_RAM(coll, ap).collective["P_RAM"].values]
        g = GUIDELINE[case["group"]]
        M = g["a_M"] * 1e-3 * case["Rm"] + g["b_M"]
        for (Sa, Sm, ea), v in zip(rows, got):
            kf = M * (M + 2) if Sm >= 0 else M / 3 * (M / 3 + 2)
            fac = Sa + kf * Sm
            prod = fac * ea * case["E"]
            scale = (abs(Sa) + abs(kf * Sm)) * ea * case["E"]
            if abs(prod) <= 1e-12 * scale:      # sign of the product not resolvable
                if not abs(v) <= math.sqrt(1e-12 * scale) * 1.01:
                    return (f"P_RAM = {v!r} for a vanishing product (S_a={Sa!r}, S_m={Sm!r}, eps_a={ea!r})", "pram-formula")
                continue
            want = math.sqrt(prod) if prod > 0 else 0.0
            if not close(v, want, rtol=1e-9):
                return (f"P_RAM = {v!r}, sqrt((S_a + k S_m) eps_a E) = {want!r} (S_a={Sa!r}, S_m={Sm!r}, eps_a={ea!r}, "
                        f"group {case['group']}, R_m={case['Rm']!r})", "pram-formula")
        return None

    def _oracle_life(self, case):
        r = run_life(case)
        rows = case["rows"]
        exact = bool(case.get("exact"))
        # infinite life <=> the component curve gives infinite life for every hysteresis of the second pass
        w = pram_curve(case)
        want_inf = all(float(w.calc_N(P)) == INF for P, _c, run in rows if run == 2)
        if r["infinite"] != want_inf:
            return (f"is_life_infinite = {r['infinite']} but calc_N of the second-pass hystereses is "
                    f"{'infinite for all' if want_inf else 'finite for some'}", "lifetime-infinite")
        # damages of the hystereses, computed here from the curve parameters: closed 1/N, half 0.5/N
        ds = []
        for P, closed, _run in rows:
            if P == 0:
                ds.append(0.0)
                continue
            N = 1e3 * (P / case["PZ"]) ** (1 / (case["d1"] if P >= case["PZ"] else case["d2"]))
            ds.append((1.0 if closed else 0.5) / N)
        # literal accumulation through the recorded table
        acc, fail_at, cums = 0.0, None, []
        for i, d in enumerate(ds):
            acc += d
            cums.append(acc)
            if fail_at is None and acc >= 1.0:
                fail_at = i
        if near_tie(cums, exact):
            return None
        if fail_at is not None:
            if r["nseq"] != 0 or r["ncyc"] != fail_at:
                return (f"damage sum reaches one at hysteresis {fail_at} of the recorded table, but lifetime_n_times_load_sequence = "
                        f"{r['nseq']!r}, lifetime_n_cycles = {r['ncyc']!r}", "lifetime-early")
            return None
        D1 = sum(d for d, row in zip(ds, rows) if row[2] == 1)
        D2 = sum(d for d, row in zip(ds, rows) if row[2] == 2)
        n2 = sum(1 for row in rows if row[2] == 2)
        if D2 == 0:
            if r["nseq"] != INF or r["ncyc"] != INF:
                return (f"no damage in the second pass but lifetime = {r['nseq']!r} sequences / {r['ncyc']!r} cycles", "lifetime-accumulation")
            return None
        # repeat the second pass literally until the sum reaches one (acc already holds pass 1 + one pass 2)
        reps = 1
        guess = (1 - D1) / D2
        cond = 1.0 + D1 / max(1 - D1, 1e-300)
        if guess <= 3e5:
            while acc + D2 < 1.0:
                acc += D2
                reps += 1
            x_lit = reps + (1.0 - acc) / D2
            tol = 1e-8 * cond + reps * 1e-15
        else:               # too many repetitions to add one by one: block-wise
            reps = math.floor(guess) - 1
            acc = D1 + reps * D2
            while acc + D2 < 1.0:
                acc += D2
                reps += 1
            x_lit = reps + (1.0 - acc) / D2
            tol = 1e-7 * cond
        if not close(r["nseq"], 1.0 + x_lit, rtol=tol):
            return (f"literal accumulation: failure after 1 + {x_lit!r} passes, lifetime_n_times_load_sequence = {r['nseq']!r}", "lifetime-accumulation")
        if not close(r["ncyc"], (1.0 + x_lit) * n2, rtol=tol):
            return (f"literal accumulation: {(1.0 + x_lit) * n2!r} cycles, lifetime_n_cycles = {r['ncyc']!r}", "lifetime-accumulation")
        return None

    def _oracle_beta(self, case):
        _dp, _dc, pc, _const = _imports()
        PA = case["PA"]
        b = float(pc.compute_beta(PA))
        # Phi(-beta) = P_A with Phi(x) = erfc(-x / sqrt 2) / 2
        got = 0.5 * math.erfc(b / math.sqrt(2.0))
        if not close(got, PA, rtol=1e-8):
            return (f"compute_beta({PA!r}) = {b!r} but Phi(-beta) = {got!r}", "beta-quantile")
        if PA <= 0.5 and b < -1e-9:
            return (f"compute_beta({PA!r}) = {b!r} negative", "beta-quantile")
        return None

    def _oracle_gamma(self, case):
        got = self._gamma_impl(case, count=False)
        PA, PL, s = case["PA"], case["PL"], case["s"]

        def isclose(a, b):
            return abs(a - b) <= 1e-8 + 1e-5 * abs(b)
        beta = next((b for p, b in BETA_TABLE if isclose(PA, p)), None)
        w = case["which"]
        if w == "blanket":
            want = 1.1 if isclose(PL, 2.5) else 1.0 if isclose(PL, 50) else None
        elif beta is None:
            want = None
        else:
            alpha = (0.7 * beta - 2) * s if isclose(PL, 2.5) else 0.7 * beta * s
            if w == "normal":
                Lmax = max(abs(v) for v in case["loads"])
                want = (Lmax + alpha) / Lmax
            else:
                want = max(1.0, 10.0 ** alpha)
        if want is None:
            if got != "ValueError":
                return (f"gamma_L ({w}) for P_A={PA!r}, P_L={PL!r} outside the guideline's values returned {h2f(got)!r} instead of raising", "gamma-L")
            return None
        if got == "ValueError" or not close(h2f(got), want, rtol=1e-12):
            return (f"gamma_L ({w}) = {got if got == 'ValueError' else h2f(got)!r}, guideline formula gives {want!r} "
                    f"(P_A={PA!r}, P_L={PL!r}, s={s!r})", "gamma-L")
        return None

    # -------------------------------------------------------------- shrinking
    def shrink(self, case, still_fails):
        cur = dict(case)
        for key in ("rows", "Ps", "Ns", "loads"):
            if key not in cur:
                continue
            changed = True
            while changed and len(cur[key]) > 1:
                changed = False
                for i in range(len(cur[key])):
                    cand = dict(cur, **{key: cur[key][:i] + cur[key][i + 1:]})
                    if key == "rows" and cur["kind"] == "life" and not any(r[2] == 2 for r in cand["rows"]):
                        continue
                    try:
                        if still_fails(cand):
                            cur, changed = cand, True
                            break
                    except Exception:
                        continue
        return cur
