"""C09: FKM-nonlinear damage curves (P_RAM / P_RAJ), the P_RAM damage parameter, damage accumulation and
lifetime (DamageCalculatorPRAM), safety index (compute_beta) and load safety factors (gamma_L).

Implementation side + generators + direct property oracle.  The Lean model is lean/Model/FkmNonlinear.lean,
its protocol handler lean/Driver/FkmNonlinear.lean (ops `c09.*`)."""
import json
import math
import re
import warnings

import numpy as np
import pandas as pd

from . import core
from .core import Prop, f2h, h2f, close

SOURCES = [
    "src/pylife/strength/woehler_fkm_nonlinear.py",
    "src/pylife/strength/damage_parameter.py",
    "src/pylife/strength/fkm_nonlinear/damage_calculator.py",
    "src/pylife/strength/fkm_nonlinear/parameter_calculations.py",
    "src/pylife/strength/fkm_load_distribution.py",
    "src/pylife/strength/fkm_nonlinear/constants.py",
]

GROUPS = ["Steel", "SteelCast", "Al_wrought"]

# key order of `Consts.toList` in the Lean model
CONST_KEYS = ["E", "n_prime", "a_sigma", "a_epsilon", "b_sigma", "b_epsilon", "epsilon_grenz",
              "f_25percent_damage_woehler", "a_PZ_RAM", "b_PZ_RAM", "a_PD_RAM", "b_PD_RAM", "d_1", "d_2",
              "f_25percent_material_woehler_FKM_nonlinear_RAM", "f_25percent_material_woehler_FKM_roughness_RAM",
              "k_st", "a_RP", "b_RP", "R_m_N_min", "a_M", "b_M", "R_m_bm", "d_RAJ",
              "f_25percent_material_woehler_FKM_nonlinear_RAJ", "f_25percent_material_woehler_FKM_roughness_RAJ",
              "a_PZ_RAJ", "b_PZ_RAJ", "a_PD_RAJ", "b_PD_RAJ"]

# The guideline's values (FKM nonlinear, tables 2.7, 2.10, 2.14, 2.33 incl. the authors' correction of the P_RAJ
# constants), restated here independently of the module under test: the oracle's reference.
GUIDELINE = {
    "Steel": {"E": 206e3, "a_M": 0.35, "b_M": -0.1, "d_1": -0.302, "d_2": -0.197, "a_PZ_RAM": 20.0, "b_PZ_RAM": 0.587,
              "a_PD_RAM": 0.82, "b_PD_RAM": 0.92, "d_RAJ": -0.63, "a_PZ_RAJ": 10.0, "b_PZ_RAJ": 0.826,
              "a_PD_RAJ": 3.33e-5, "b_PD_RAJ": 1.55},
    "SteelCast": {"E": 206e3, "a_M": 0.35, "b_M": 0.05, "d_1": -0.289, "d_2": -0.189, "a_PZ_RAM": 25.56, "b_PZ_RAM": 0.519,
                  "a_PD_RAM": 0.46, "b_PD_RAM": 0.96, "d_RAJ": -0.66, "a_PZ_RAJ": 10.03, "b_PZ_RAJ": 0.695,
                  "a_PD_RAJ": 5.15e-6, "b_PD_RAJ": 1.63},
    "Al_wrought": {"E": 70e3, "a_M": 1.0, "b_M": -0.04, "d_1": -0.238, "d_2": -0.167, "a_PZ_RAM": 16.71, "b_PZ_RAM": 0.537,
                   "a_PD_RAM": 0.30, "b_PD_RAM": 1.00, "d_RAJ": -0.61, "a_PZ_RAJ": 101.7, "b_PZ_RAJ": 0.26,
                   "a_PD_RAJ": 5.18e-7, "b_PD_RAJ": 2.04},
}
# f_2.5% of the material curves (tables 2.10 / 2.33) - used by the corpus literals only
F25 = {"Steel": {"RAM": 0.71, "RAJ": 0.39}, "SteelCast": {"RAM": 0.51, "RAJ": 0.40}, "Al_wrought": {"RAM": 0.61, "RAJ": 0.36}}
K_EARLY = "early-failure-zero-repetitions"
K_BAND = "praj-updated-endurance-band"
BETA_TABLE = [(1e-7, 5.20), (1e-6, 4.75), (1e-5, 4.27), (7.2e-5, 3.8), (1e-3, 3.09), (2.3e-1, 0.739), (0.5, 0.0)]

HEX16 = re.compile(r"^[0-9a-f]{16}$")
INF = math.inf


def _imports():
    import pylife.strength.woehler_fkm_nonlinear  # noqa: F401  (registers the accessors)
    import pylife.strength.fkm_load_distribution  # noqa: F401
    import pylife.strength.damage_parameter as dp
    import pylife.strength.fkm_nonlinear.damage_calculator as dc
    import pylife.strength.fkm_nonlinear.parameter_calculations as pc
    import pylife.strength.fkm_nonlinear.constants as const
    return dp, dc, pc, const


def fl(x):
    """life / float token"""
    x = float(x)
    return "inf" if x == INF else f2h(x)


def pram_curve(c):
    _imports()
    return pd.Series({"P_RAM_Z": c["PZ"], "P_RAM_D": c["PD"], "d_1": c["d1"], "d_2": c["d2"]}).woehler_P_RAM


def praj_curve(c):
    _imports()
    w = pd.Series({"P_RAJ_Z": c["PZ"], "P_RAJ_D_0": c["PD0"], "d_RAJ": c["d"]}).woehler_P_RAJ
    if c["PD"] != c["PD0"]:
        w.update_P_RAJ_D(c["PD"])
    return w


def life_table(case):
    rows = case["rows"]
    return pd.DataFrame({
        "P_RAM": [float(r[0]) for r in rows],
        "is_closed_hysteresis": [bool(r[1]) for r in rows],
        "run_index": [int(r[2]) for r in rows],
        "S_min": [0.0] * len(rows),
    })


def run_life(case):
    """The real DamageCalculatorPRAM on the table of the case."""
    _dp, dc, _pc, _const = _imports()
    with warnings.catch_warnings():
        warnings.simplefilter("ignore")
        with np.errstate(all="ignore"):
            calc = dc.DamageCalculatorPRAM(life_table(case), pram_curve(case))
            nseq = float(calc.lifetime_n_times_load_sequence)
            ncyc = float(calc.lifetime_n_cycles)
            x = float(np.asarray(calc._x).squeeze())
            idx = int(np.asarray(calc._n_cycles_until_damage).squeeze())
            infinite = bool(calc.is_life_infinite)
            D = [float(v) for v in calc.collective["D"].values]
            cum = [float(v) for v in calc.collective["cumulative_damage"].values]
    return {"nseq": nseq, "ncyc": ncyc, "x": x, "idx": idx, "infinite": infinite, "D": D, "cum": cum,
            "early": idx < len(case["rows"])}


def multi_subcase(case, k):
    """The one-point table of point k of a multi-point case (what the point is when it is assessed alone)."""
    pt = case["points"][k]
    return {"kind": "life", "exact": bool(case.get("exact")), "d1": case["d1"], "d2": case["d2"], "PZ": pt["PZ"], "PD": pt["PD"],
            "rows": [[pt["P"][h], bool(c), int(r)] for h, (c, r) in enumerate(case["pattern"])]}


def run_life_multi(case):
    """The real DamageCalculatorPRAM on a table with several assessment points, in the layout the recorder delivers
    (MultiIndex.from_product([range(n_hystereses), range(n_points)])); per-point results."""
    _dp, dc, _pc, _const = _imports()
    pts, pat = case["points"], case["pattern"]
    npts, nh = len(pts), len(pat)
    mi = pd.MultiIndex.from_product([range(nh), range(npts)], names=["hysteresis_index", "assessment_point_index"])
    df = pd.DataFrame({
        "P_RAM": [float(pts[k]["P"][h]) for h in range(nh) for k in range(npts)],
        "is_closed_hysteresis": [bool(pat[h][0]) for h in range(nh) for _k in range(npts)],
        "run_index": [int(pat[h][1]) for h in range(nh) for _k in range(npts)],
        "S_min": [0.0] * (nh * npts),
    }, index=mi)
    if case["vector"]:
        w = pd.Series({"P_RAM_Z": pd.Series([float(pt["PZ"]) for pt in pts]), "P_RAM_D": pd.Series([float(pt["PD"]) for pt in pts]),
                       "d_1": case["d1"], "d_2": case["d2"]}).woehler_P_RAM
    else:
        w = pd.Series({"P_RAM_Z": pts[0]["PZ"], "P_RAM_D": pts[0]["PD"], "d_1": case["d1"], "d_2": case["d2"]}).woehler_P_RAM
    with warnings.catch_warnings():
        warnings.simplefilter("ignore")
        with np.errstate(all="ignore"):
            calc = dc.DamageCalculatorPRAM(df, w)
            nseq = np.atleast_1d(np.asarray(calc.lifetime_n_times_load_sequence, dtype=float))
            ncyc = np.atleast_1d(np.asarray(calc.lifetime_n_cycles, dtype=float))
            x = np.atleast_1d(np.asarray(calc._x, dtype=float).squeeze())
            idx = np.atleast_1d(np.asarray(calc._n_cycles_until_damage).squeeze())
            inf = np.atleast_1d(np.asarray(calc.is_life_infinite))
            col = calc.collective
    for name, a in (("lifetime_n_times_load_sequence", nseq), ("lifetime_n_cycles", ncyc), ("_x", x),
                    ("_n_cycles_until_damage", idx), ("is_life_infinite", inf)):
        if len(a) != npts:
            raise ValueError(f"{name} has {len(a)} entries for {npts} assessment points")
    out = []
    for k in range(npts):
        sub = col.xs(k, level="assessment_point_index")
        out.append({"nseq": float(nseq[k]), "ncyc": float(ncyc[k]), "x": float(x[k]), "idx": int(idx[k]), "infinite": bool(inf[k]),
                    "D": [float(v) for v in sub["D"].values], "cum": [float(v) for v in sub["cumulative_damage"].values],
                    "early": int(idx[k]) < nh})
    return out


def life_line(r):
    return (f"{1 if r['early'] else 0} {r['idx']} {f2h(r['x'])} {f2h(r['nseq'])} {f2h(r['ncyc'])} "
            f"{1 if r['infinite'] else 0} | " + " ".join(f2h(d) for d in r["D"]))


def near_tie(cums, exact):
    """A prefix sum closer to one than summation-order rounding can resolve (never for the exact family)."""
    if exact:
        return False
    return any(abs(c - 1.0) < 1e-9 for c in cums)


# ------------------------------------------------------------------ generators
def logu(rng, lo, hi):
    return 10.0 ** rng.uniform(math.log10(lo), math.log10(hi))


def gen_pram_params(rng):
    if rng.random() < 0.3:
        g = GUIDELINE[rng.choice(GROUPS)]
        d1, d2 = g["d_1"], g["d_2"]
    else:
        d1, d2 = -rng.uniform(0.05, 1.2), -rng.uniform(0.05, 1.2)
    PZ = logu(rng, 20, 5000)
    PD = PZ * rng.choice([rng.uniform(0.02, 0.98), rng.uniform(0.9, 0.999999), 0.5])
    return {"d1": d1, "d2": d2, "PZ": PZ, "PD": PD}


def around(v):
    return [v, math.nextafter(v, INF), math.nextafter(v, -INF), v * (1 + 1e-9), v * (1 - 1e-9)]


def gen_pram_curve(rng):
    c = gen_pram_params(rng)
    ND = 1e3 * (c["PD"] / c["PZ"]) ** (1 / c["d2"])
    Ps = around(c["PD"]) + around(c["PZ"]) + [0.0, c["PD"] / 2, c["PZ"] * 3]
    Ps += [logu(rng, c["PD"] * 0.3, c["PZ"] * 30) for _ in range(6)]
    Ns = around(1e3) + around(ND) + [1.0, 0.5, ND * 10, "inf"]
    Ns += [logu(rng, 0.01, min(ND * 3, 1e300)) for _ in range(6)]
    c.update(kind="pram_curve", Ps=Ps, Ns=Ns)
    return c


def gen_praj_curve(rng):
    if rng.random() < 0.3:
        d = GUIDELINE[rng.choice(GROUPS)]["d_RAJ"]
    else:
        d = -rng.uniform(0.1, 1.5)
    PZ = logu(rng, 5, 5000)
    PD0 = PZ * logu(rng, 1e-5, 0.9)
    PD = PD0 if rng.random() < 0.5 else PD0 * rng.uniform(0.2, 1.0)   # lowered by update_P_RAJ_D
    ND = (PD0 / PZ) ** (1 / d)
    Ps = around(PD) + around(PD0) + around(PZ) + [0.0, PD / 2, PZ * 2]
    Ps += [logu(rng, PD * 0.3, PZ * 5) for _ in range(6)]
    Ns = around(ND) + around(1.0) + [0.25, ND * 10, "inf"] + [logu(rng, 0.01, min(ND * 3, 1e300)) for _ in range(6)]
    if PD < PD0:        # the band between the lowered and the initial endurance value, on both axes
        NDf = (PD / PZ) ** (1 / d)
        Ps += [math.sqrt(PD * PD0), PD0 * (1 - 1e-3), PD * (1 + 1e-3), rng.uniform(PD, PD0)]
        Ns += [math.sqrt(ND * NDf), ND * (1 + 1e-3), NDf * (1 - 1e-3), NDf, NDf * 2, rng.uniform(ND, NDf)]
    return {"kind": "praj_curve", "d": d, "PZ": PZ, "PD0": PD0, "PD": PD, "Ps": Ps, "Ns": Ns}


def gen_pram_row(rng):
    g = rng.choice(GROUPS)
    # incl. M_sigma ≈ 0 and (steel below R_m = 285.7) clearly negative M_sigma
    Rm = rng.choice([rng.uniform(150, 1600), 600.0, 285.714285714, 1000.0 / 0.35 * 0.1, rng.uniform(100, 280)])
    E = rng.choice([GUIDELINE[g]["E"], rng.uniform(5e4, 2.5e5)])
    rows = []
    for _ in range(rng.randint(1, 8)):
        mode = rng.choice(["pos", "neg", "zero_mean", "neg_disc", "zero_disc", "any"])
        Sa = rng.uniform(0, 600)
        ea = Sa / E * rng.uniform(1, 3) if rng.random() < 0.9 else 0.0
        if mode == "pos":
            Sm = rng.uniform(0, 500)
        elif mode == "neg":
            Sm = -rng.uniform(0, 500)
        elif mode == "zero_mean":
            Sm = rng.choice([0.0, -0.0])
        elif mode == "neg_disc":
            Sm = -rng.uniform(5, 60) * (Sa + 1)
        elif mode == "zero_disc":
            Sa, Sm = 0.0, 0.0
        else:
            Sm = rng.uniform(-2000, 2000)
        rows.append([Sa, Sm, ea])
    return {"kind": "pram_row", "group": g, "Rm": Rm, "E": E, "rows": rows}


def gen_life(rng):
    mode = rng.choice(["never", "never", "pass1", "pass2", "pass2b", "zero", "big", "exact", "exact"])
    if mode == "exact":
        # d_1 = -1, P = P_Z * 1000 / 2^k  =>  N = 2^k exactly, damages dyadic, all sums exact (ties at one possible)
        PZ = 2.0 ** rng.randint(0, 8)
        c = {"d1": -1.0, "d2": -rng.uniform(0.1, 0.6), "PZ": PZ, "PD": PZ * 0.5}
        n1, n2 = rng.randint(0, 5), rng.randint(1, 5)
        rows = []
        for i in range(n1 + n2):
            k = rng.randint(0, 6)
            rows.append([PZ * 1000.0 / 2 ** k, rng.random() < 0.6, 1 if i < n1 else 2])
        return dict(c, kind="life", exact=True, rows=rows)
    c = gen_pram_params(rng)
    n1, n2 = rng.choice([0, 1, 2, 5, 12]), rng.choice([1, 2, 3, 7, 20])
    if mode == "never":
        t1, t2 = logu(rng, 1e-5, 0.4), logu(rng, 1e-5, 0.5)
    elif mode == "pass1":
        n1 = max(n1, 1)
        t1, t2 = rng.uniform(1.05, 4), logu(rng, 1e-3, 2)
    elif mode == "pass2":
        t1, t2 = rng.uniform(0.0, 0.9), rng.uniform(1.05, 3)
    elif mode == "pass2b":      # both passes below one, together above: the reported lifetime jumps here
        t1 = rng.uniform(0.3, 0.95)
        t2 = rng.uniform(1.0 - t1, 1.0) + 0.02
        if rng.random() < 0.3:
            n1, n2 = rng.choice([5, 7]), rng.choice([1, 2, 3])     # first pass with more hystereses than the second
    elif mode == "big":
        t1, t2 = logu(rng, 1e-9, 1e-3), logu(rng, 1e-9, 1e-4)
    else:
        t1, t2 = logu(rng, 1e-4, 0.3), logu(rng, 1e-4, 0.3)
    rows = []
    for run, n, t in ((1, n1, t1), (2, n2, t2)):
        if n == 0:
            continue
        w = [rng.random() + 0.05 for _ in range(n)]
        s = sum(w)
        for wi in w:
            closed = rng.random() < 0.6
            D = t * wi / s
            N = (1.0 if closed else 0.5) / D
            # invert the curve by hand (slope d_1 below 1e3 cycles, d_2 above)
            P = c["PZ"] * (N / 1e3) ** (c["d1"] if N < 1e3 else c["d2"])
            rows.append([P, closed, run])
    if mode == "zero":
        for r in rows:
            if rng.random() < 0.5 or (r[2] == 2 and rng.random() < 0.3):
                r[0] = 0.0
        if rng.random() < 0.3:
            for r in rows:
                if r[2] == 2:
                    r[0] = 0.0
    if rng.random() < 0.15:     # rows exactly at the knee and at the endurance value
        rows[rng.randrange(len(rows))][0] = c["PZ"]
        rows[rng.randrange(len(rows))][0] = c["PD"]
    return dict(c, kind="life", exact=False, rows=rows)


def _targets(rng, mode):
    if mode == "never":
        return logu(rng, 1e-5, 0.4), logu(rng, 1e-5, 0.5)
    if mode == "pass1":
        return rng.uniform(1.05, 4), logu(rng, 1e-3, 2)
    if mode == "pass2":
        return rng.uniform(0.0, 0.9), rng.uniform(1.05, 3)
    if mode == "big":
        return logu(rng, 1e-9, 1e-3), logu(rng, 1e-9, 1e-4)
    return logu(rng, 1e-4, 0.3), logu(rng, 1e-4, 0.3)


def gen_life_multi(rng):
    """2-3 assessment points in one table (same hysteresis structure, as the recorder delivers it), each point with its own
    status (never / early in pass 1 / early in pass 2 / no damage / infinite life) and - `vector` - its own curve."""
    npts = rng.choice([2, 2, 3])
    exact = rng.random() < 0.4
    vector = rng.random() < 0.6
    n1, n2 = rng.randint(0, 4), rng.randint(1, 4)
    pat = [[rng.random() < 0.6, 1] for _ in range(n1)] + [[rng.random() < 0.6, 2] for _ in range(n2)]
    if exact:
        d1, d2 = -1.0, -rng.uniform(0.1, 0.6)
    else:
        c0 = gen_pram_params(rng)
        d1, d2 = c0["d1"], c0["d2"]
    points = []
    for k in range(npts):
        if k > 0 and not vector:
            PZ, PD = points[0]["PZ"], points[0]["PD"]
        elif exact:
            PZ = 2.0 ** rng.randint(0, 8)
            PD = PZ * 0.5
        else:
            PZ = logu(rng, 20, 5000)
            PD = PZ * rng.uniform(0.02, 0.98)
        # (the exact family stays on the d_1 branch: no "inf" point there, its rows would need the d_2 power)
        mode = rng.choice(["never", "pass1", "pass2", "zero", "big"] + ([] if exact else ["inf", "inf"]))
        if exact:
            lo, hi = {"never": (3, 9), "pass1": (0, 3), "pass2": (0, 4), "big": (6, 9)}.get(mode, (0, 8))
            P = []
            for closed, run in pat:
                kk = rng.randint(lo, hi) if not (mode == "pass1" and run == 2) and not (mode == "pass2" and run == 1) else rng.randint(3, 8)
                P.append(PZ * 1000.0 / 2 ** kk)
        else:
            t1, t2 = _targets(rng, mode)
            P = [0.0] * len(pat)
            for run, t in ((1, t1), (2, t2)):
                idxs = [i for i, q in enumerate(pat) if q[1] == run]
                w = [rng.random() + 0.05 for _ in idxs]
                for i, wi in zip(idxs, w):
                    D = t * wi / sum(w)
                    N = (1.0 if pat[i][0] else 0.5) / D
                    P[i] = PZ * (N / 1e3) ** (d1 if N < 1e3 else d2)
        if mode == "zero":
            P = [0.0 if (rng.random() < 0.5 or run == 2) else v for v, (_c, run) in zip(P, pat)]
        if mode == "inf":       # every hysteresis of the second pass at or below the endurance value
            P = [PD * rng.choice([1.0, 0.5, 0.999999]) if run == 2 else v for v, (_c, run) in zip(P, pat)]
        points.append({"PZ": PZ, "PD": PD, "P": P, "mode": mode})
    return {"kind": "life_multi", "exact": exact, "vector": vector, "d1": d1, "d2": d2, "pattern": pat, "points": points}


def gen_gamma_mesh(rng):
    """normal-distribution gamma_L on a mesh: MultiIndex (load_step, node_id) Series / one-column / two-column DataFrame,
    node ids not necessarily 0..n-1 nor ascending, with and without max_load_independently_for_nodes."""
    PA = rng.choice([p for p, _ in BETA_TABLE] + [0.3])
    PL = rng.choice([2.5, 50.0, 50])
    n = rng.randint(1, 4)
    steps = rng.randint(1, 5)
    ids = rng.choice([list(range(n)), rng.sample(range(1, 50), n), list(range(n))[::-1], [i + 1 for i in range(n)]])
    cols = []
    for _k in range(n):
        scale = rng.choice([1.0, 0.1, 3.0, 1e-3])
        col = [rng.choice([rng.uniform(-500, 500), float(rng.randint(-300, 300))]) * scale for _ in range(steps)]
        if all(v == 0 for v in col):
            col[0] = 1.0
        if rng.random() < 0.4:          # the extreme load is a negative one
            j = rng.randrange(steps)
            col[j] = -abs(max(col, key=abs)) * rng.choice([1.0, 1.5, 4.0])
        cols.append(col)
    return {"kind": "gamma", "which": "normal", "PA": PA, "PL": PL, "s": rng.choice([logu(rng, 1e-3, 50), 0.0, 10.0]),
            "loads": [cols[k][t] for t in range(steps) for k in range(n)],
            "mesh": {"ids": ids, "n": n, "indep": rng.random() < 0.6, "frame": rng.choice([0, 0, 1, 2])}}


# ------------------------------------------------------------------ sessions: state that goes stale / argument integrity
def fingerprint(o):
    """Bit-for-bit identity of what a caller owns: values (bytes), index, names, dtypes, columns."""
    if isinstance(o, pd.DataFrame):
        return ("D", [repr(c) for c in o.columns], [str(t) for t in o.dtypes], fingerprint(o.index), [fingerprint(o[c]) for c in o.columns])
    if isinstance(o, pd.Series):
        vals = tuple(fingerprint(v) for v in o.values) if o.dtype == object else np.ascontiguousarray(o.values).tobytes()
        return ("S", repr(o.name), str(o.dtype), fingerprint(o.index), vals)
    if isinstance(o, pd.Index):
        return ("I", type(o).__name__, tuple(repr(n) for n in o.names), tuple(repr(v) for v in o.tolist()))
    if isinstance(o, np.ndarray):
        return ("A", o.dtype.str, o.shape, np.ascontiguousarray(o).tobytes())
    if isinstance(o, (list, tuple)):
        return (type(o).__name__, tuple(fingerprint(v) for v in o))
    return repr(o)


def _val(v):
    if isinstance(v, (pd.Series, pd.DataFrame, np.ndarray, list, tuple)):
        return snap(v)
    if isinstance(v, (bool, np.bool_)):
        return "b%d" % bool(v)
    if isinstance(v, (int, float, np.integer, np.floating)):
        return f2h(float(v))
    return repr(v)


def snap(o):
    """What a later call with the same object depends on: VALUES and INDEX (labels, order) - not the name of a Series, not
    dtypes, not columns / keys somebody adds (those are counted, see `changed`)."""
    if isinstance(o, pd.DataFrame):
        return ("D", fingerprint(o.index), {repr(c): tuple(_val(v) for v in o[c].values) for c in o.columns})
    if isinstance(o, pd.Series):
        return ("S", {repr(k): _val(v) for k, v in zip(o.index.tolist(), o.values)}, tuple(repr(k) for k in o.index.tolist()))
    if isinstance(o, np.ndarray):
        return ("A", o.shape, tuple(_val(v) for v in o.reshape(-1)))
    return ("L", tuple(_val(v) for v in o))


def changed(before, o, extra=None):
    """None, or what changed in the caller's object relative to the snapshot `before`; columns of a frame / keys of a parameter
    Series that were ADDED are not a change of the argument (they are reported through `extra`, a list)."""
    now = snap(o)
    if before[0] == "D":
        if now[1] != before[1]:
            return "index"
        for c, v in before[2].items():
            if c not in now[2]:
                return f"column {c} removed"
            if now[2][c] != v:
                return f"values of column {c}"
        if extra is not None:
            extra.extend(c for c in now[2] if c not in before[2])
        return None
    if before[0] == "S":
        keys_b = [k for k in now[2] if k in before[1]]
        if keys_b != list(before[2]):
            return "index (labels / order)"
        for k, v in before[1].items():
            if now[1][k] != v:
                return f"value of {k}"
        if extra is not None:
            extra.extend(k for k in now[2] if k not in before[1])
        return None
    return None if now == before else "values"


def in_child(fn):
    """fn() evaluated in a forked child: the reference of a session must not see class- / module-level state (memos) that the
    live objects of the session leave behind - and must not leave any for them."""
    import os
    import pickle
    r, w = os.pipe()
    pid = os.fork()
    if pid == 0:
        code = 0
        try:
            os.close(r)
            try:
                out = ("ok", fn())
            except BaseException as e:      # noqa: BLE001 - reported to the parent
                out = ("exc", f"{type(e).__name__}: {e}")
            with os.fdopen(w, "wb") as f:
                pickle.dump(out, f)
        except BaseException:               # noqa: BLE001
            code = 1
        finally:
            os._exit(code)
    os.close(w)
    with os.fdopen(r, "rb") as f:
        data = f.read()
    os.waitpid(pid, 0)
    if not data:
        raise RuntimeError("reference child process died")
    return pickle.loads(data)


def canon(res):
    """a result as comparable bytes (scalars, arrays, Series alike); NaN-safe"""
    if isinstance(res, (pd.Series, pd.DataFrame)):
        return ("P", fingerprint(res.index), np.ascontiguousarray(np.asarray(res, dtype=float)).tobytes())
    a = np.asarray(res)
    if a.dtype == object:
        return ("O", repr(res))
    if a.dtype == bool:
        return ("B", a.shape, a.tobytes())
    a = np.asarray(res, dtype=float)
    return ("F", a.shape, np.ascontiguousarray(a).tobytes())


def as_arg(vals, how):
    if how == "series":
        return pd.Series([float(v) for v in vals], name="arg")
    if how == "list":
        return [float(v) for v in vals]
    return np.array([float(v) for v in vals])


def mk_curve(which, prm, state):
    """a FRESH curve object (own parameter Series) in the logical state `state` (= current P_RAJ_D or None)"""
    _imports()
    if which == "pram":
        ser = pd.Series({"P_RAM_Z": prm["PZ"], "P_RAM_D": prm["PD"], "d_1": prm["d1"], "d_2": prm["d2"]})
        return ser, ser.woehler_P_RAM
    ser = pd.Series({"P_RAJ_Z": prm["PZ"], "P_RAJ_D_0": prm["PD0"], "d_RAJ": prm["d"]})
    w = ser.woehler_P_RAJ
    if state is not None:
        w.update_P_RAJ_D(state)
    return ser, w


def curve_op(which, w, op, arg, how):
    """(canonical result, argument object handed in or None)"""
    a = None
    if op in ("N_a", "P_a"):
        a = as_arg(arg, how)
    if op == "N_s":
        return canon(w.calc_N(float(arg))), None
    if op == "N_a":
        return canon(w.calc_N(a)), a
    if op == "P_s":
        return canon(w.calc_P_RAM(float(arg)) if which == "pram" else w.calc_P_RAJ(float(arg))), None
    if op == "P_a":
        return canon(w.calc_P_RAM(a) if which == "pram" else w.calc_P_RAJ(a)), a
    if op == "limits":
        if which == "pram":
            return canon([w.fatigue_life_limit, w.fatigue_strength_limit, w.P_RAM_Z, w.P_RAM_D, w.d_1, w.d_2]), None
        return canon([w.fatigue_life_limit, w.fatigue_life_limit_final, w.fatigue_strength_limit, w.fatigue_strength_limit_final,
                      w.P_RAJ_Z, w.P_RAJ_D, w.d]), None
    if op == "upd":
        w.update_P_RAJ_D(float(arg))
        return canon(w.P_RAJ_D), None
    if op == "N_explicit":
        return canon(w.calc_N(float(arg[0]), P_RAJ_D=float(arg[1]))), None
    if op in ("mincopy", "deepcopy"):
        import copy
        c = w.get_woehler_curve_minimum_lifetime() if op == "mincopy" else copy.deepcopy(w)
        before = canon([c.fatigue_life_limit, c.fatigue_strength_limit] + ([c.fatigue_strength_limit_final, c.P_RAJ_D] if which == "praj" else []))
        probe = canon(c.calc_N(float(arg)))
        if which == "praj":
            c.update_P_RAJ_D(float(arg) * 0.37)          # the copy is the caller's: changing it must not reach the original
        return ("copy", before, probe, c is w), None
    raise ValueError(op)


def gen_curve_session(rng):
    which = rng.choice(["pram", "praj"])

    def prm():
        if which == "pram":
            return gen_pram_params(rng)
        c = gen_praj_curve(rng)
        return {"d": c["d"], "PZ": c["PZ"], "PD0": c["PD0"]}
    objs = [prm()] + ([prm()] if rng.random() < 0.6 else [])
    if len(objs) == 2 and rng.random() < 0.5:
        # the second object shares all parameters but one with the first (what a memo key might consist of)
        key = rng.choice(["PZ", "PD" if which == "pram" else "PD0", "d2" if which == "pram" else "d"])
        objs[1] = dict(objs[0], **{key: objs[0][key] * (rng.choice([2.0, 1.1]) if key == "PZ" else rng.choice([0.5, 0.9]))})   # stays admissible
    ops = []
    for _ in range(rng.randint(4, 12)):
        i = rng.randrange(len(objs))
        o = objs[i]
        lo = (o["PD"] if which == "pram" else o["PD0"]) * 0.3
        names = ["N_s", "N_a", "P_s", "P_a", "limits", "deepcopy"] + (["upd", "upd", "N_explicit", "mincopy"] if which == "praj" else [])
        op = rng.choice(names)
        if op in ("N_s", "deepcopy", "mincopy"):
            arg = logu(rng, lo, o["PZ"] * 3)
        elif op == "N_a":
            arg = [logu(rng, lo, o["PZ"] * 3) for _ in range(rng.randint(1, 5))] + [o["PZ"]]
        elif op == "P_s":
            arg = logu(rng, 0.1, 1e9)
        elif op == "P_a":
            arg = [logu(rng, 0.1, 1e9) for _ in range(rng.randint(1, 5))] + [1e3]
        elif op == "upd":
            arg = o["PD0"] * rng.uniform(0.2, 1.0)
        elif op == "N_explicit":
            arg = [logu(rng, lo, o["PZ"] * 3), o["PD0"] * rng.uniform(0.2, 1.2)]
        else:
            arg = None
        ops.append([i, op, arg, rng.choice(["ndarray", "series"])])
    return {"kind": "session", "what": "curve", "which": which, "objs": objs, "create_reversed": rng.random() < 0.5, "ops": ops}


def gen_calc_session(rng):
    c = gen_life(rng)
    while c.get("exact") and rng.random() < 0.5:
        c = gen_life(rng)
    qs = ["ncyc", "nseq", "inf", "pmax", "coll"]
    ops = []
    nmax_on = set()
    cur = 0
    for _ in range(rng.randint(4, 10)):
        r = rng.random()
        if r < 0.2:
            cur = 1 - cur               # the other calculator (built from the SAME frame and curve object)
            ops.append(["switch", cur])
        elif r < 0.45:
            ops.append(["nmax", rng.choice([1e-5, 7.2e-5, 1e-3, 2.3e-1, 0.5, logu(rng, 1e-6, 0.5)]), rng.random() < 0.3])
            nmax_on.add(cur)
        else:
            # (lifetime numbers of a calculator AFTER its own N_max_bearable are a reported witness on the unchanged tree
            #  - `nmax-bearable-changes-own-lifetime` - and are not asked here; everything else is)
            pool = [q for q in qs if not (cur in nmax_on and q in ("ncyc", "nseq", "coll"))]
            ops.append(["ask", rng.choice(pool)])
    return {"kind": "session", "what": "calc_pram", "life": c, "group": rng.choice(GROUPS), "ops": ops}


def gen_praj_calc_session(rng):
    return {"kind": "session", "what": "calc_praj", "seed": rng.randrange(10 ** 9), "group": rng.choice(GROUPS), "nh": rng.randint(2, 6),
            "nbins": rng.choice([5, 10, 50]), "ops": [rng.choice(["ncyc", "nseq", "inf", "pmax", "switch"]) for _ in range(rng.randint(3, 8))]}


def gen_load_session(rng):
    loads = [rng.choice([rng.uniform(-500, 500), float(rng.randint(-300, 300))]) for _ in range(rng.randint(1, 8))]
    if all(v == 0 for v in loads):
        loads[0] = 1.0
    ops = []
    for _ in range(rng.randint(3, 10)):
        op = rng.choice(["gamma_normal", "gamma_lognormal", "gamma_blanket", "scaled_normal", "scaled_lognormal", "scaled_blanket", "beta",
                         "maxabs", "scaled_const"])
        ops.append([op, rng.choice([p for p, _b in BETA_TABLE]) if op != "beta" else logu(rng, 1e-8, 0.5)])
    return {"kind": "session", "what": "load", "loads": loads, "PL": rng.choice([2.5, 50.0]), "s": logu(rng, 1e-2, 20), "lsd": logu(rng, 1e-3, 0.3),
            "with_flag": rng.random() < 0.4, "ops": ops}


def gen_dp_session(rng):
    return {"kind": "session", "what": "dp", "row": gen_pram_row(rng), "times": rng.randint(2, 3)}


def gen_beta(rng):
    m = rng.random()
    if m < 0.5:
        PA = logu(rng, 1e-9, 0.5)
    elif m < 0.7:
        PA = rng.choice([p for p, _ in BETA_TABLE] + [2.5e-2, 0.5, 0.4999999, 1e-9])
    elif m < 0.85:
        PA = logu(rng, 1e-100, 1e-9)
    elif m < 0.93:
        PA = rng.uniform(0.01, 0.5)
    else:
        PA = rng.uniform(0.47, 0.5)      # beta close to 0: the root search from x0 = -0.6 of the code before 763ab65 was fragile here
    return {"kind": "beta", "PA": PA}


def gen_gamma(rng):
    m = rng.random()
    if m < 0.6:
        PA = rng.choice([p for p, _ in BETA_TABLE])
        if rng.random() < 0.3:
            PA *= 1 + rng.choice([-1, 1]) * 10 ** rng.uniform(-9, -4.5)     # around the isclose boundary
    elif m < 0.8:
        PA = logu(rng, 1e-8, 0.5)
    else:
        PA = rng.choice([1.05e-7, 1.2e-7, 0.9e-7, 1.005e-6, 1.02e-6])        # absolute tolerance 1e-8 matters
    PL = rng.choice([2.5, 50.0, 50, 2.5 * (1 + 1e-6), 2.5 * (1 + 2e-5), 2.50001, 10.0, 0.0, 97.5])
    which = rng.choice(["normal", "lognormal", "blanket"])
    n = rng.randint(1, 9)
    loads = [rng.choice([rng.uniform(-500, 500), float(rng.randint(-300, 300))]) for _ in range(n)]
    if all(v == 0 for v in loads):
        loads[0] = 1.0
    s = rng.choice([logu(rng, 1e-3, 50), 0.0]) if which == "normal" else rng.choice([logu(rng, 1e-4, 0.5), 0.0])
    return {"kind": "gamma", "which": which, "PA": PA, "PL": PL, "s": s, "loads": loads}


# ------------------------------------------------------------------ the property
class C09(Prop):
    ID = "C09"
    PARALLEL = 8          # impl_lines / oracle are sharded over forked processes by core.pmap
    SOURCES = SOURCES
    LEAN_MODULES = ["Proofs.C09", "Proofs.BridgeC09"]
    THEOREMS = [f"PylifeVerif.C09.{t}" for t in [
        "pram_curve_inverse", "pram_branch_consistency", "pram_continuous", "pram_strictAnti_finite",
        "pram_infinite_below_endurance",
        "praj_curve_inverse_partial", "praj_curve_inverse_fresh", "praj_updated_band", "praj_updated_band_refuted",
        "praj_branch_consistency", "praj_continuous", "praj_strictAnti_finite",
        "praj_infinite_below_endurance",
        "pRAM_formula", "constants_eq_guideline", "pRAM_group_formula",
        "rowD_nonneg", "early_failure_index", "lifetime_eq_accumulation_partial", "lifetime_early_failure",
        "lifetime_vs_literal_passes", "lifetime_early_pass2_refuted", "lifetime_cycles_convention",
        "lifetime_eq_accumulation_rows", "isLifeInfinite_iff", "zero_second_pass_damage_is_infinite",
        "damagePRAMBatch_eq_single", "pointRows_length",
        "getBeta_table", "gammaL_formulas", "maxAbs_spec", "maxAbsMesh_spec", "gammaL_normal_of_loads",
        "beta_is_neg_quantile_partial"]] + [
        f"PylifeVerif.Bridge.{t}" for t in [      # generated (translated) definitions = hand model
        "pram_fatigue_strength_limit_eq", "pram_fatigue_life_limit_eq", "pram_calc_N_eq", "pram_calc_P_RAM_eq",
        "praj_limits_eq", "praj_calc_N_eq", "praj_calc_N_explicit_eq", "praj_calc_P_RAJ_eq",
        "beta_table_eq", "get_beta_eq", "gamma_L_normal_eq", "gamma_L_lognormal_eq", "gamma_L_blanket_eq",
        "constants_eq_c09"]]
    PARTIAL = {
        "PylifeVerif.C09.praj_curve_inverse_partial":
            "P(N(P)) = P is proved for P above BOTH the current and the initial endurance value; missing = the band "
            "(P_RAJ_D, P_RAJ_D_0] of a curve lowered by update_P_RAJ_D, where the statement is false for the code "
            "(praj_updated_band, praj_updated_band_refuted; open finding praj-updated-endurance-band); without an update the full "
            "statement is praj_curve_inverse_fresh",
        "PylifeVerif.C09.lifetime_eq_accumulation_partial":
            "lifetime = literal accumulation is proved for tables whose damage sum stays below one within the two recorded passes "
            "(D1 + D2 < 1) and D2 > 0; missing = D1 < 1 <= D1 + D2, where the code reports 0 passes instead of 1 + (1 - D1)/D2 "
            "(lifetime_vs_literal_passes, lifetime_early_pass2_refuted; open finding early-failure-zero-repetitions); what the code "
            "reports there is lifetime_early_failure; D2 = 0 is zero_second_pass_damage_is_infinite",
        "PylifeVerif.C09.beta_is_neg_quantile_partial":
            "proved for an abstract strictly increasing (and symmetric) Phi: the solution x of Phi(x) = P_A is unique (equivalently the "
            "residual |Phi(x) - P_A| vanishes exactly there) and beta = -x, Phi(beta) = 1 - P_A, beta >= 0 for P_A <= 1/2; NOT proved: "
            "that the number the code obtains for x IS that solution for the standard normal Phi (REPAIRED code, "
            "/repo commit 763ab65: scipy.stats.norm.ppf; code before the repair: scipy.optimize.root, hybrid Powell "
            "from x0 = -0.6 on the non-smooth residual, which does NOT converge for every P_A in (0, 0.5] - finding class "
            "beta-root-search-fails, fixed by 763ab65, witness P_A = 0.4915868354632816) - measured per run: compute_beta vs an independent quantile "
            "(series / continued fraction + bisection in the driver) and vs math.erfc in the oracle, P_A in [1e-100, 0.5]",
    }
    RULE = ("case = one of: P_RAM curve parameters + parameter / cycle values (incl. exactly P_Z, P_D, 1e3, N_D and their neighbours); "
            "P_RAJ curve likewise (with lowered P_RAJ_D); material group + R_m + rows (S_a, S_m, eps_a); hysteresis table "
            "(P_RAM, closed?, run) + curve, also 2-3 assessment points in one table (own status and own curve per point, layout of "
            "the recorder); P_A; gamma_L inputs incl. meshes (MultiIndex Series / DataFrames, arbitrary node ids, per-node or global "
            "L_max); constants of a group; literals published in the repo's own tests (guideline example 2.7.1, gamma_L, beta, "
            "material curve values); SESSIONS: sequences of calls on long-lived / shared objects (curves, calculators, load series, "
            "parameter Series) compared call by call with fresh objects, and value / index integrity of every argument.  Correspondence: model (Float) vs real code, "
            "bit-exact for constants, P_RAM rows, table look-ups and the exact (dyadic) damage tables, relative 1e-11 where "
            "pow/log are involved.  Oracle: the property's relations on the real code (round trips, monotonicity, limits at the "
            "knees, sqrt formula with guideline constants, literal damage accumulation, erfc residual of beta, scalar return of "
            "compute_beta for a float / numpy scalar / one-element array, list and Series with the same value, guideline gamma_L "
            "formulas).  Non-trivial = every case (distinct cases counted)")
    ASSUMPTIONS = [
        "C09: theorems are over the reals (Real.rpow, Real.sqrt); IEEE rounding of np.power / division is not modelled, the "
        "correspondence measures agreement of the same formulas at Float with relative tolerance 1e-11",
        "C09: admissible curve = what _validate accepts (P_Z > P_D, negative slopes) plus P_D > 0, which the code does not test",
        "C09: multi-point tables are generated in the layout the recorder documents and delivers (MultiIndex.from_product("
        "[range(n_hystereses), range(n_points)]), 'both counting from 0 upwards', same closed/run pattern for all points - the HCM "
        "decisions are taken on the first node); other assessment_point_index labels are outside the admissible tables (with a "
        "per-point curve the code then mis-aligns is_life_infinite or raises; the related C10 finding batch-node-order, about the order of the "
        "node_id labels in maximum_absolute_load, is fixed by /repo commit 64dfe3b); run-1 rows precede run-2 "
        "rows; tables without a run-2 row are rejected by the code (IndexError) and are not generated",
        "C09 FORMALISATION CHOICE (number of cycles): the property text's 'number of cycles' is read as eq. (2.6-91) of the guideline, "
        "(1 + x) passes times the number n2 = H0 of hystereses of the repeated pass - NOT the count n1 + x*n2 of hystereses literally "
        "accumulated; the two differ by the constant n2 - n1 (theorem lifetime_cycles_convention).  The choice is pinned by an "
        "external literal: guideline example 2.7.1 (tests/strength/test_damage_calculator.py: 14618 cycles, 3655 passes, n1 = 3, "
        "n2 = 4; n1 + x*n2 would be 14617) - corpus/C09/literal_example_271_life.json.  In the early-failure case the code reports the "
        "hysteresis count (index of the failing hysteresis in the recorded table); the oracle demands exactly that count.  The two "
        "conventions do not fit together when n1 != n2 (e.g. n1 = 5, n2 = 3: 7 cycles just above, 6 just below D1 + D2 = 1) - "
        "reported to C10 (monotonicity), not a C09 clause",
        "C09 (number of passes, early failure): for D1 < 1 <= D1 + D2 the literal accumulation of the property text gives "
        "1 + (1 - D1)/D2 passes, the code 0: open finding early-failure-zero-repetitions.  For D1 >= 1 (failure within the first "
        "pass) the property text is SILENT on which fraction of a pass is meant; the code's 0 (no complete pass) is accepted",
        "C09 SESSIONS (state that goes stale / argument integrity; oracle only, no model): ONE WoehlerCurvePRAM / WoehlerCurvePRAJ object "
        "(or TWO with different parameters alive at once, created in either order, calls interleaved) answers a random sequence of "
        "calc_N / calc_P / limits / update_P_RAJ_D / calc_N(P, P_RAJ_D=...) / deepcopy / get_woehler_curve_minimum_lifetime calls "
        "(scalars, ndarrays, Series) exactly like a FRESH object in the same logical state; DamageCalculatorPRAM / PRAJ: the same "
        "collective + curve object used for two calculators, each asked repeatedly (lifetimes, is_life_infinite, P_max, "
        "N_max_bearable with several P_A) = a fresh calculator on fresh inputs; load series + parameter Series reused over "
        "gamma_L / scaled_load_sequence of the three accessors, maximum_absolute_load, compute_beta; P_RAM(collective, parameters) "
        "called repeatedly.  Argument integrity = VALUES and INDEX (labels, order) of every array / Series / frame the caller hands "
        "in are unchanged afterwards.  OUTSIDE the property (counted in the stats as "
        "session_caller_object_got_additional_columns_or_keys, no failure): columns / keys ADDED to a caller's object "
        "(DamageCalculatorPRAJ works on the caller's frame and adds `cumulative_damage`; gamma_L of the normal case stores its "
        "default `max_load_independently_for_nodes = False` in the caller's parameter Series, which also turns its dtype into "
        "object), names and dtypes.  NOT asked (reported witness on the unchanged tree): lifetime_n_cycles / "
        "lifetime_n_times_load_sequence / collective of a DamageCalculatorPRAM AFTER its own N_max_bearable(P_A) - that call "
        "overwrites the calculator's N and D columns, the same calculator then reports the reduced-curve lifetime "
        "(7040.3 before, 882.4 after N_max_bearable(1e-3))",
        "C09: P_L outside {2.5 %, 50 %} is outside the guideline's domain: normal / log-normal silently use the 50 % formula, blanket "
        "raises; the oracle makes no claim there for normal / log-normal (the correspondence still follows the code)",
        "C09: np.searchsorted on the cumulative damages is modelled as 'first index with prefix sum >= 1' (numpy contract for a "
        "non-decreasing array); pandas' groupby sum/cumsum are modelled as plain sums (Kahan compensation changes ulps only): "
        "tables whose prefix sums come closer than 1e-9 to one without being exactly representable ties are compared without the index",
        "C09: P_RAM: strain amplitude and E non-negative (numpy sqrt of a negative product under a non-negative factor is NaN)",
        "C09: compute_beta is sampled for P_A in [1e-100, 0.5] (denser towards 0.5, where the root search of the code before /repo "
        "commit 763ab65 failed for about 1 % of the values in (0.48, 0.5)); the model is the REPAIRED behaviour (the quantile itself).  "
        "The VALUE is compared with the model for a Python float argument only (the harness wraps the result in float()); the RETURN "
        "TYPE is observed by the oracle only (/repo commit 007797f): compute_beta(float), (np.float64), (np.array([p])), ([p]) and "
        "(pd.Series([p])) must all return a scalar (np.ndim == 0) with the same value bit for bit (failure class "
        "compute-beta-array-return).  Array-likes with more than one element, or with none, are outside the property: since /repo "
        "commit 125ac37 the code refuses them with ValueError (before it, the beta of the FIRST element was returned silently, class "
        "compute-beta-first-element, a label of the record only); they are not generated, so 125ac37 itself is not exercised by the check",
        "C09: of constants.py only the keys C09 reads are tied to the model and the guideline here (E, a_M, b_M, d_1, d_2, "
        "a/b_PZ/PD_RAM, d_RAJ, a/b_PZ/PD_RAJ): correspondence, Bridge.constants_eq_c09, C09.constants_eq_guideline, oracle and the "
        "published material-curve literals of the corpus; the rest of the table (k_st, a_RP, f_25..., read by the assessment) is "
        "Proofs/BridgeConstsAll.lean, listed by C10 (Bridge.constants_eq, Bridge.constants_keys_complete)",
        "C09: gamma_L takes beta from the tabulated list (_get_beta, np.isclose matching), not from compute_beta - modelled as coded",
        "C09: a P_RAJ curve whose endurance value has been lowered (update_P_RAJ_D, done by the P_RAJ damage calculation) is in scope: "
        "calc_N uses the current value, calc_P_RAJ / fatigue_life_limit the initial one; on (P_RAJ_D, P_RAJ_D_0] resp. "
        "[N_D, N_D,final) the curve is neither inverse nor strictly decreasing: open finding praj-updated-endurance-band (no small "
        "safe repair: the updated value is a per-node Series in the assessment, calc_P_RAJ is evaluated on N arrays for plotting)",
        "C09: P_RAJ damage parameter row function (crack opening loop) and DamageCalculatorPRAJ are not modelled here (C10 models the P_RAJ pipeline from the recorded hysteresis table on: harness/praj.py + Model/PRAJ.lean, case kind praj; what lies before the table is judged by C10's oracle on the real code)",
    ]

    # tie T (DESIGN 1.1): lean/Generated/<name>.lean are regenerated from the current python source before the build;
    # Proofs.BridgeC09 proves them equal to the hand model the property theorems are about
    TRANSLATED = ["WoehlerFkmNonlinear", "FkmLoadDistribution", "FkmConstants"]

    def setup(self, log):
        import os
        import sys
        tdir = os.path.join(core.VERIF, "translate")
        sys.path.insert(0, tdir)
        try:
            import translate as T
            ok, msg = T.run_modules(self.TRANSLATED, core.REPO, core.LEAN)
        except Exception as e:      # the translator itself is broken: every bridge obligation counts as broken
            ok, msg = False, f"translator crashed: {type(e).__name__}: {e}"
            for n in self.TRANSLATED:
                with open(os.path.join(core.LEAN, "Generated", n + "Status.lean"), "w") as f:
                    f.write('#eval (throw (IO.userError "translator crashed") : IO Unit)\n')
        finally:
            sys.path.remove(tdir)
        self.stats["translator"] = msg
        log(("translator: " + msg) if ok else ("TRANSLATOR FAILED (broken proof obligation): " + msg))

    def __init__(self):
        self.stats = {}
        self.exhaustive = False

    def _count(self, key, n=1):
        self.stats[key] = self.stats.get(key, 0) + n

    # -------------------------------------------------------------- generation
    def generate(self, rng, tier):
        big = tier != "quick"
        for g in GROUPS:
            yield {"kind": "consts", "group": g}
        for p, _b in BETA_TABLE:
            yield {"kind": "beta", "PA": p}
            for pl in (2.5, 50.0):
                yield {"kind": "gamma", "which": "normal", "PA": p, "PL": pl, "s": 10.0, "loads": [100.0, -150.0, 120.0]}
                yield {"kind": "gamma", "which": "lognormal", "PA": p, "PL": pl, "s": 0.01, "loads": [1.0]}
        # the auditor's mesh (the extreme load is negative and sits on one node only)
        for indep in (False, True):
            yield {"kind": "gamma", "which": "normal", "PA": 1e-3, "PL": 50.0, "s": 10.0,
                   "loads": [100.0, 50.0, -300.0, -20.0, 120.0, 30.0], "mesh": {"ids": [0, 1], "n": 2, "indep": indep, "frame": 0}}
        for pl in (2.5, 50.0, 10.0):
            yield {"kind": "gamma", "which": "blanket", "PA": 1e-5, "PL": pl, "s": 0.0, "loads": [1.0]}
        # P_A log grid
        ngrid = 60 if not big else 600
        for i in range(ngrid + 1):
            yield {"kind": "beta", "PA": 10.0 ** (-9 + i * (9 + math.log10(0.5)) / ngrid)}
        counts = {"pram_curve": 120, "praj_curve": 80, "pram_row": 150, "life": 400, "life_multi": 150, "beta": 200, "gamma": 250,
                  "gamma_mesh": 120, "s_curve": 60, "s_calc": 30, "s_praj": 8, "s_load": 40, "s_dp": 15}
        if big:
            counts = {k: v * 8 for k, v in counts.items()}
        gens = {"pram_curve": gen_pram_curve, "praj_curve": gen_praj_curve, "pram_row": gen_pram_row, "life": gen_life,
                "life_multi": gen_life_multi, "beta": gen_beta, "gamma": gen_gamma, "gamma_mesh": gen_gamma_mesh,
                "s_curve": gen_curve_session, "s_calc": gen_calc_session, "s_praj": gen_praj_calc_session, "s_load": gen_load_session,
                "s_dp": gen_dp_session}
        for kind, n in counts.items():
            for _ in range(n):
                yield gens[kind](rng)

    # -------------------------------------------------------------- correspondence: model side
    def model_lines(self, case):
        k = case["kind"]
        if k == "consts":
            return [f"c09.consts {case['group']}"]
        if k == "pram_curve":
            c = f"{f2h(case['d1'])} {f2h(case['d2'])} {f2h(case['PZ'])} {f2h(case['PD'])}"
            return ([f"c09.pramND {c}"] + [f"c09.pramN {c} {f2h(p)}" for p in case["Ps"]]
                    + [f"c09.pramP {c} {fl(n)}" for n in case["Ns"]])
        if k == "praj_curve":
            c = f"{f2h(case['d'])} {f2h(case['PZ'])} {f2h(case['PD0'])} {f2h(case['PD'])}"
            return ([f"c09.prajND {c}"] + [f"c09.prajN {c} {f2h(p)}" for p in case["Ps"]]
                    + [f"c09.prajP {c} {fl(n)}" for n in case["Ns"]])
        if k == "pram_row":
            return [f"c09.pram {case['group']} {f2h(case['Rm'])} {f2h(case['E'])} {f2h(r[0])} {f2h(r[1])} {f2h(r[2])}"
                    for r in case["rows"]]
        if k == "life":
            c = f"{f2h(case['d1'])} {f2h(case['d2'])} {f2h(case['PZ'])} {f2h(case['PD'])}"
            rows = " ".join(f"{f2h(r[0])} {1 if r[1] else 0} {int(r[2])}" for r in case["rows"])
            return [f"c09.life {c} {rows}"]
        if k == "life_multi":
            n = len(case["points"])
            cs = " ".join(f"{f2h(pt['PZ'])} {f2h(pt['PD'])}" for pt in case["points"])
            rows = " ".join(f"{f2h(case['points'][j]['P'][h])} {1 if c else 0} {int(r)}"
                            for h, (c, r) in enumerate(case["pattern"]) for j in range(n))
            return [f"c09.lifeB {j} {n} {f2h(case['d1'])} {f2h(case['d2'])} {cs} {rows}" for j in range(n)]
        if k == "beta":
            return [f"c09.beta {f2h(case['PA'])}", f"c09.getbeta {f2h(case['PA'])}"]
        if k == "gamma":
            w = case["which"]
            if case.get("mesh"):
                m = case["mesh"]
                head = f"c09.gLnM {f2h(case['PA'])} {f2h(case['PL'])} {f2h(case['s'])}"
                tail = " ".join(f2h(v) for v in case["loads"])
                if m["indep"]:
                    return [f"{head} 1 {j} {m['n']} {tail}" for j in range(m["n"])]
                return [f"{head} 0 0 {m['n']} {tail}"]
            if w == "normal":
                return [f"c09.gLn {f2h(case['PA'])} {f2h(case['PL'])} {f2h(case['s'])} " + " ".join(f2h(v) for v in case["loads"])]
            if w == "lognormal":
                return [f"c09.gLl {f2h(case['PA'])} {f2h(case['PL'])} {f2h(case['s'])}"]
            return [f"c09.gLb {f2h(case['PL'])}"]
        return []

    # -------------------------------------------------------------- correspondence: implementation side
    def impl_lines(self, case):
        dp, dc, pc, const = _imports()
        k = case["kind"]
        self._count("cases_" + k)
        with warnings.catch_warnings():
            warnings.simplefilter("ignore")
            if k == "consts":
                col = const.all_constants[case["group"]]
                out = []
                for key in CONST_KEYS:
                    v = float(col[key])
                    out.append("none" if (v != v or v == INF) else f2h(v))
                return [" ".join(out)]
            if k == "pram_curve":
                w = pram_curve(case)
                out = [f2h(float(w.fatigue_life_limit))]
                for p in case["Ps"]:
                    n = float(w.calc_N(p))
                    self._count("pramN_" + ("inf" if n == INF else "d1" if p >= case["PZ"] else "d2"))
                    out.append(fl(n))
                for n in case["Ns"]:
                    nn = INF if n == "inf" else n
                    out.append(f2h(float(w.calc_P_RAM(nn))))
                return out
            if k == "praj_curve":
                w = praj_curve(case)
                out = [f"{f2h(float(w.fatigue_life_limit))} {f2h(float(w.fatigue_life_limit_final))}"]
                for p in case["Ps"]:
                    out.append(fl(float(w.calc_N(p))))
                for n in case["Ns"]:
                    nn = INF if n == "inf" else n
                    out.append(f2h(float(w.calc_P_RAJ(nn))))
                return out
            if k == "pram_row":
                rows = case["rows"]
                coll = pd.DataFrame({"S_a": [r[0] for r in rows], "S_m": [r[1] for r in rows], "epsilon_a": [r[2] for r in rows]})
                ap = pd.Series({"MatGroupFKM": case["group"], "R_m": case["Rm"], "E": case["E"]})
                obj = dp.P_RAM(coll, ap)
                M = float(obj._M_sigma)
                vals = [float(v) for v in obj.collective["P_RAM"].values]
                for r, v in zip(rows, vals):
                    self._count("pram_" + ("zero" if v == 0 else "pos_mean" if r[1] >= 0 else "neg_mean"))
                return [f"{f2h(M)} {f2h(v)}" for v in vals]
            if k == "life":
                r = run_life(case)
                self._count("life_" + ("early_pass1" if r["early"] and case["rows"][r["idx"]][2] == 1 else
                                       "early_pass2" if r["early"] else
                                       "inf" if r["nseq"] == INF else "never"))
                if case.get("exact"):
                    self._count("life_exact_family")
                    if any(c == 1.0 for c in r["cum"]):
                        self._count("life_exact_tie_at_one")
                if r["infinite"]:
                    self._count("life_is_infinite")
                return [life_line(r)]
            if k == "life_multi":
                rs = run_life_multi(case)
                self._count("life_multi_points", len(rs))
                self._count("life_multi_vector_curve" if case["vector"] else "life_multi_shared_curve")
                for r in rs:
                    self._count("life_multi_point_" + ("early" if r["early"] else "inf" if r["nseq"] == INF else
                                                        "infinite_verdict" if r["infinite"] else "never"))
                if len({(r["early"], r["infinite"], r["nseq"] == INF) for r in rs}) > 1:
                    self._count("life_multi_mixed_status")
                return [life_line(r) for r in rs]
            if k == "beta":
                ser = pd.Series([1.0])
                try:
                    gb = f2h(float(ser.fkm_load_sequence._get_beta(pd.Series({"P_A": case["PA"]}))))
                    self._count("getbeta_hit")
                except ValueError:
                    gb = "ValueError"
                try:
                    b = f2h(float(pc.compute_beta(case["PA"])))
                except RuntimeError as e:
                    if "Could not compute the value of beta" not in str(e):
                        raise
                    self._count("compute_beta_RuntimeError")
                    b = "RuntimeError"
                return [b, gb]
            if k == "gamma":
                if case.get("mesh"):
                    return self._gamma_mesh_impl(case)[0]
                return [self._gamma_impl(case)]
        return []

    def _mesh_obj(self, case):
        m = case["mesh"]
        n = m["n"]
        steps = len(case["loads"]) // n
        mi = pd.MultiIndex.from_product([range(steps), m["ids"]], names=["load_step", "node_id"])
        ser = pd.Series([float(v) for v in case["loads"]], index=mi, name="load")
        if m["frame"] == 1:
            return ser.to_frame("col0")
        if m["frame"] == 2:
            return pd.DataFrame({"col0": ser, "col1": np.arange(float(len(ser)))})
        return ser

    def _gamma_mesh_impl(self, case, count=True):
        """([per-node or single gamma tokens], scaled object or None)"""
        m = case["mesh"]
        obj = self._mesh_obj(case)
        par = pd.Series({"P_A": case["PA"], "P_L": case["PL"], "s_L": case["s"], "max_load_independently_for_nodes": bool(m["indep"])})
        nl = m["n"] if m["indep"] else 1
        try:
            g = obj.fkm_safety_normal_from_stddev.gamma_L(par.copy())
            scaled = obj.fkm_safety_normal_from_stddev.scaled_load_sequence(par.copy())
        except ValueError as e:
            if "has to be one of" not in str(e):
                raise
            if count:
                self._count("gamma_mesh_ValueError")
            return ["ValueError"] * nl, None
        if count:
            self._count("gamma_mesh_" + ("per_node" if m["indep"] else "global") + f"_frame{m['frame']}")
        if m["indep"]:
            if isinstance(g, pd.DataFrame):
                g = g.iloc[:, 0]
            return [f2h(float(g.loc[i])) for i in m["ids"]], scaled
        return [f2h(float(g))], scaled

    def _gamma_impl(self, case, count=True):
        ser = pd.Series([float(v) for v in case["loads"]], name="load")
        w = case["which"]
        try:
            if w == "normal":
                g = ser.fkm_safety_normal_from_stddev.gamma_L(pd.Series({"P_A": case["PA"], "P_L": case["PL"], "s_L": case["s"]}))
            elif w == "lognormal":
                g = ser.fkm_safety_lognormal_from_stddev.gamma_L(pd.Series({"P_A": case["PA"], "P_L": case["PL"], "LSD_s": case["s"]}))
            else:
                g = ser.fkm_safety_blanket.gamma_L(pd.Series({"P_L": case["PL"]}))
        except ValueError:
            if count:
                self._count("gamma_ValueError_" + w)
            return "ValueError"
        if count:
            self._count("gamma_" + w)
        return f2h(float(g))

    # -------------------------------------------------------------- comparison
    def compare(self, case, model_out, impl_out):
        if len(model_out) != len(impl_out):
            return f"length {len(model_out)} vs {len(impl_out)}"
        k = case["kind"]
        exact = k in ("consts", "pram_row") or (k in ("life", "life_multi") and case.get("exact"))
        rtol = 0.0 if exact else 1e-11
        for i, (a, b) in enumerate(zip(model_out, impl_out)):
            if a == b:
                continue
            ta, tb = a.split(), b.split()
            if k == "consts" and len(ta) == len(tb) == len(CONST_KEYS):
                # only the keys C09 reads (the whole table is C10's: Proofs/BridgeConstsAll.lean + its correspondence)
                keep = [j for j, key in enumerate(CONST_KEYS) if key in GUIDELINE["Steel"]]
                ta, tb = [ta[j] for j in keep], [tb[j] for j in keep]
                if ta == tb:
                    continue
            if len(ta) != len(tb):
                return f"line {i}: model={a[:300]!r} impl={b[:300]!r}"
            if k == "life_multi":
                d = self._compare_life(multi_subcase(case, i), ta, tb)
                if d:
                    return f"point {i}: {d}: model={a[:300]!r} impl={b[:300]!r}"
                continue
            if k == "life":
                d = self._compare_life(case, ta, tb)
                if d:
                    return f"line {i}: {d}: model={a[:300]!r} impl={b[:300]!r}"
                continue
            for j, (x, y) in enumerate(zip(ta, tb)):
                if x == y:
                    continue
                if HEX16.match(x) and HEX16.match(y):
                    fx, fy = h2f(x), h2f(y)
                    if k == "beta" and i == 0:
                        if abs(fx - fy) <= 1e-9 * max(1.0, abs(fy)):
                            continue
                    elif close(fx, fy, rtol=rtol):
                        continue
                    return f"line {i} token {j}: model={fx!r} impl={fy!r}"
                return f"line {i} token {j}: model={x!r} impl={y!r}"
        return None

    def _compare_life(self, case, ta, tb):
        """tokens: early idx x nSeq nCycles infinite | D…"""
        exact = bool(case.get("exact"))
        Dm, Di = [h2f(t) for t in ta[7:]], [h2f(t) for t in tb[7:]]
        for j, (x, y) in enumerate(zip(Dm, Di)):
            if not close(x, y, rtol=0.0 if exact else 1e-11):
                return f"damage of row {j}: model={x!r} impl={y!r}"
        if ta[5] != tb[5]:
            return "is_life_infinite differs"
        cum, acc = [], 0.0
        for d in Di:
            acc += d
            cum.append(acc)
        if near_tie(cum, exact):
            self._count("life_near_tie_relaxed")
            return None
        if ta[0] != tb[0] or ta[1] != tb[1]:
            return "early-failure decision / index differs"
        D1 = sum(d for d, r in zip(Di, case["rows"]) if r[2] == 1)
        # error propagation of the summation order through (1 - D1) / D2
        rt = 0.0 if exact else 1e-10 * (1.0 + abs(D1) / max(abs(1.0 - D1), 1e-300))
        for name, x, y in (("x", ta[2], tb[2]), ("n_times_load_sequence", ta[3], tb[3]), ("n_cycles", ta[4], tb[4])):
            fx, fy = h2f(x), h2f(y)
            if not close(fx, fy, rtol=max(rt, 4e-16)):
                return f"{name}: model={fx!r} impl={fy!r}"
        return None

    def nontrivial(self, case, model_out):
        return json.dumps(case, sort_keys=True)

    # -------------------------------------------------------------- direct property oracle (real code only)
    def oracle(self, case):
        _imports()          # registers the pandas accessors (every forked worker needs it before its first case)
        k = case["kind"]
        with warnings.catch_warnings():
            warnings.simplefilter("ignore")
            if k == "consts":
                return self._oracle_consts(case)
            if k == "pram_curve":
                return self._oracle_curve(case, "pram")
            if k == "praj_curve":
                return self._oracle_curve(case, "praj")
            if k == "pram_row":
                return self._oracle_row(case)
            if k == "life":
                return self._oracle_life(case)
            if k == "life_multi":
                return self._oracle_life_multi(case)
            if k == "literal":
                return self._oracle_literal(case)
            if k == "beta":
                return self._oracle_beta(case)
            if k == "gamma":
                return self._oracle_gamma(case)
            if k == "session":
                with np.errstate(all="ignore"):
                    return getattr(self, "_session_" + case["what"])(case)
        return None

    # -------------------------------------------------------------- sessions (oracle only)
    def _session_curve(self, case):
        which = case["which"]
        n = len(case["objs"])
        order = list(range(n))[::-1] if case["create_reversed"] else list(range(n))
        def refs_of(i):
            st, out = None, {}
            for step, (j, op, arg, how) in enumerate(case["ops"]):
                if j != i:
                    continue
                if op == "upd":
                    st = float(arg)
                out[step] = curve_op(which, mk_curve(which, case["objs"][i], st)[1], op, arg, how)[0]
            return out
        refs = {}
        for i in range(n):          # every object's reference in its own process: sees no other object, no earlier call
            tag, val = in_child(lambda i=i: refs_of(i))
            if tag != "ok":
                return (f"{which} curve session: a fresh object of parameters {case['objs'][i]!r} fails on its own: {val}", "session-stale-state")
            refs.update(val)
        live, sers, fps, state = {}, {}, {}, {}
        for i in order:
            sers[i], live[i] = mk_curve(which, case["objs"][i], None)
            fps[i] = snap(sers[i])
            state[i] = None
        for step, (i, op, arg, how) in enumerate(case["ops"]):
            self._count("session_curve_op_" + op)
            got, a = curve_op(which, live[i], op, arg, how)
            fa = None
            if op == "upd":
                state[i] = float(arg)
            want = refs[step]
            where = f"{which} curve session, step {step} (object {i} of {n}, op {op}, arg {arg!r} as {how})"
            if got != want:
                return (f"{where}: the long-lived object answers differently from a fresh object in the same logical state "
                        f"(P_RAJ_D = {state[i]!r}); earlier steps {case['ops'][:step]!r}", "session-stale-state")
            if a is not None and changed(snap(as_arg(arg, how)), a):
                return (f"{where}: the argument handed in was modified ({changed(snap(as_arg(arg, how)), a)})", "session-argument-modified")
            for j in live:
                if changed(fps[j], sers[j]):
                    return (f"{where}: the parameter Series of curve object {j} was modified ({changed(fps[j], sers[j])})", "session-argument-modified")
        return None

    def _calc_pram_inputs(self, case):
        c = case["life"]
        return life_table(c), pd.Series({"P_RAM_Z": c["PZ"], "P_RAM_D": c["PD"], "d_1": c["d1"], "d_2": c["d2"]})

    @staticmethod
    def _ask_pram(calc, q):
        if q == "ncyc":
            return canon(calc.lifetime_n_cycles)
        if q == "nseq":
            return canon(calc.lifetime_n_times_load_sequence)
        if q == "inf":
            return canon(calc.is_life_infinite)
        if q == "pmax":
            return canon(calc.P_RAM_max)
        return ("coll", fingerprint(calc.collective))

    def _session_calc_pram(self, case):
        _dp, dc, _pc, _const = _imports()
        df, cser = self._calc_pram_inputs(case)
        fdf, fcs = snap(df), snap(cser)
        w = cser.woehler_P_RAM
        ap = pd.Series({"MatGroupFKM": case["group"]})
        fap = snap(ap)
        def refs_all():
            out = []
            for op in case["ops"]:
                if op[0] == "switch":
                    out.append(None)
                    continue
                rdf, rcs = self._calc_pram_inputs(case)
                ref = dc.DamageCalculatorPRAM(rdf, rcs.woehler_P_RAM)
                if op[0] == "nmax":
                    Nr, _Fr = ref.get_lifetime_functions(pd.Series({"MatGroupFKM": case["group"]}))
                    out.append(canon(Nr(op[1], clip_gamma=op[2])))
                else:
                    out.append(self._ask_pram(ref, op[1]))
            return out
        tag, refs = in_child(refs_all)
        if tag != "ok":
            raise RuntimeError("reference calculators: " + refs)
        calcs = {0: dc.DamageCalculatorPRAM(df, w)}
        cur = 0
        history = {0: [], 1: []}            # the N_max_bearable calls each calculator has seen
        for step, op in enumerate(case["ops"]):
            where = f"DamageCalculatorPRAM session, step {step} {op!r} (calculator {cur}; earlier {case['ops'][:step]!r})"
            if op[0] == "switch":
                cur = op[1]
                if cur not in calcs:
                    calcs[cur] = dc.DamageCalculatorPRAM(df, w)       # same frame, same curve object
                continue
            want = refs[step]
            if op[0] == "nmax":
                self._count("session_calc_nmax")
                N, _F = calcs[cur].get_lifetime_functions(ap)
                got = canon(N(op[1], clip_gamma=op[2]))
                history[cur].append(op[1])
            else:
                self._count("session_calc_ask_" + op[1])
                got = self._ask_pram(calcs[cur], op[1])
            if got != want:
                return (f"{where}: differs from a fresh calculator on fresh inputs (N_max_bearable calls seen by this calculator: "
                        f"{history[cur]!r}, by the other: {history[1 - cur]!r})", "session-stale-state")
            extra = []
            ch = changed(fdf, df, extra) or changed(fcs, cser, extra) or changed(fap, ap, extra)
            if ch:
                return (f"{where}: the collective / curve parameters / assessment parameters handed in by the caller were modified: {ch}",
                        "session-argument-modified")
            if extra:
                self._count("session_caller_object_got_additional_columns_or_keys")
        return None

    def _praj_inputs(self, case):
        import random
        _dp, _dc, _pc, const = _imports()
        r = random.Random(case["seed"])
        col = const.all_constants[case["group"]]
        d, E = float(col["d_RAJ"]), float(col["E"])
        pz, pd0, nb, nh = 300.0, 0.5, case["nbins"], case["nh"]
        m = -1 / d
        C = 1e-5 * (5e5) ** m * E ** (-m)
        a0 = (0.5 ** (1 - m) - (1 - m) * C * pz ** m) ** (1 / (1 - m))
        ls = E / 5e6 / pd0 - a0
        pde = pd0 * (a0 + ls) / (0.5 + ls)
        kmax = pd0 * 40.0
        Ps = [math.exp(r.uniform(math.log(pde * 1.01), math.log(kmax))) for _ in range(nh)]
        n1 = r.choice([0, 1, nh // 2])
        df = pd.DataFrame({"S_min": 0.0, "P_RAJ": np.array(Ps), "D": np.array([r.uniform(0.0, 0.01) for _ in range(nh)]),
                           "P_RAJ_D": np.array([pd0 * r.uniform(0.9, 1.0) for _ in range(nh)]),
                           "run_index": np.array([1 if i < n1 else 2 for i in range(nh)], dtype=np.int64)},
                          index=pd.MultiIndex.from_product([range(nh), [0]], names=["hysteresis_index", "assessment_point_index"]))
        ap = pd.Series({"MatGroupFKM": case["group"], "P_RAJ_Z": pz, "P_RAJ_D_0": pd0, "d_RAJ": d, "n_bins": nb, "a_0": a0, "a_end": 0.5,
                        "l_star": ls, "P_RAJ_D_e": pde, "P_RAJ_klass_max": kmax})
        return df, ap

    @staticmethod
    def _ask_praj(calc, q):
        if q == "ncyc":
            return canon(calc.lifetime_n_cycles)
        if q == "nseq":
            return canon(calc.lifetime_n_times_load_sequence)
        if q == "inf":
            return canon(calc.is_life_infinite)
        return canon(calc.P_RAJ_max)

    def _session_calc_praj(self, case):
        _dp, dc, _pc, _const = _imports()
        df, ap = self._praj_inputs(case)
        # (the calculator documents that it works ON the collective handed in - it adds `cumulative_damage` to it; what must
        #  not change are the columns the caller filled in, the index and the parameter Series)
        fdf, fap = snap(df), snap(ap)
        def refs_all():
            out = []
            for q in case["ops"]:
                if q == "switch":
                    out.append(None)
                    continue
                rdf, rap = self._praj_inputs(case)
                out.append(self._ask_praj(dc.DamageCalculatorPRAJ(rdf, rap, rap[["P_RAJ_Z", "P_RAJ_D_0", "d_RAJ"]].woehler_P_RAJ), q))
            return out
        tag, refs = in_child(refs_all)
        if tag != "ok":
            raise RuntimeError("reference calculators: " + refs)
        curve = ap[["P_RAJ_Z", "P_RAJ_D_0", "d_RAJ"]].woehler_P_RAJ
        calcs = {0: dc.DamageCalculatorPRAJ(df, ap, curve)}
        cur = 0
        for step, q in enumerate(case["ops"]):
            where = f"DamageCalculatorPRAJ session, step {step} {q!r} (calculator {cur}; earlier {case['ops'][:step]!r})"
            if q == "switch":
                cur = 1 - cur
                if cur not in calcs:
                    calcs[cur] = dc.DamageCalculatorPRAJ(df, ap, curve)
                continue
            self._count("session_praj_ask_" + q)
            if self._ask_praj(calcs[cur], q) != refs[step]:
                return (f"{where}: differs from a fresh calculator on fresh inputs", "session-stale-state")
            extra = []
            ch = changed(fdf, df, extra) or changed(fap, ap, extra)
            if ch:
                return (f"{where}: the caller's collective or assessment parameters were modified: {ch}", "session-argument-modified")
            if extra:
                self._count("session_caller_object_got_additional_columns_or_keys")
        return None

    def _session_load(self, case):
        _dp, _dc, pc, _const = _imports()

        def mk():
            ser = pd.Series([float(v) for v in case["loads"]], name="load")
            d = {"P_A": 1e-3, "P_L": case["PL"], "s_L": case["s"], "LSD_s": case["lsd"]}
            if case["with_flag"]:
                d["max_load_independently_for_nodes"] = False
            return ser, pd.Series(d)

        def run(ser, par, op, pa):
            if op == "beta":
                return canon(pc.compute_beta(pa))
            if op == "maxabs":
                return canon(ser.fkm_load_sequence.maximum_absolute_load())
            if op == "scaled_const":
                return canon(ser.fkm_load_sequence.scaled_by_constant(1.25))
            par["P_A"] = pa                         # the caller sets the probability, then asks
            kind, dist = op.split("_")
            acc = getattr(ser, {"normal": "fkm_safety_normal_from_stddev", "lognormal": "fkm_safety_lognormal_from_stddev",
                                "blanket": "fkm_safety_blanket"}[dist])
            return canon(acc.gamma_L(par) if kind == "gamma" else acc.scaled_load_sequence(par))
        tag, refs = in_child(lambda: [run(*mk(), op, pa) for op, pa in case["ops"]])
        if tag != "ok":
            raise RuntimeError("reference load objects: " + refs)
        ser, par = mk()
        fser = snap(ser)
        for step, (op, pa) in enumerate(case["ops"]):
            self._count("session_load_" + op)
            where = f"load-distribution session, step {step} ({op}, P_A = {pa!r}; earlier {case['ops'][:step]!r})"
            got = run(ser, par, op, pa)
            if got != refs[step]:
                return (f"{where}: the long-lived load series / parameters answer differently from fresh ones", "session-stale-state")
            if changed(fser, ser):
                return (f"{where}: the caller's load series was modified ({changed(fser, ser)})", "session-argument-modified")
            # the caller's parameters: values and keys as the caller left them (P_A as last set); keys ADDED by the call
            # (gamma_L of the normal case stores its default max_load_independently_for_nodes = False) are only counted
            extra = []
            ch = changed(snap(pd.Series(dict(mk()[1], P_A=par["P_A"]))), par, extra)
            if ch:
                return (f"{where}: the caller's parameter Series was modified ({ch}): {dict(par)!r}", "session-argument-modified")
            if extra:
                self._count("session_caller_object_got_additional_columns_or_keys")
        return None

    def _session_dp(self, case):
        dp, _dc, _pc, _const = _imports()
        row = case["row"]
        rows = row["rows"]

        def mk():
            return (pd.DataFrame({"S_a": [r[0] for r in rows], "S_m": [r[1] for r in rows], "epsilon_a": [r[2] for r in rows]}),
                    pd.Series({"MatGroupFKM": row["group"], "R_m": row["Rm"], "E": row["E"]}))
        tag, want = in_child(lambda: fingerprint(dp.P_RAM(*mk()).collective))
        if tag != "ok":
            raise RuntimeError("reference P_RAM: " + want)
        coll, ap = mk()
        fc, fa = snap(coll), snap(ap)
        for t in range(case["times"]):
            got = fingerprint(dp.P_RAM(coll, ap).collective)
            if got != want:
                return (f"P_RAM(collective, parameters) called the {t + 1}. time on the same objects differs from a fresh call", "session-stale-state")
            extra = []
            ch = changed(fc, coll, extra) or changed(fa, ap, extra)
            if ch:
                return (f"P_RAM(collective, parameters), call {t + 1}: the caller's collective or parameter Series was modified: {ch}",
                        "session-argument-modified")
            if extra:
                self._count("session_caller_object_got_additional_columns_or_keys")
        return None

    def _oracle_consts(self, case):
        _dp, _dc, _pc, const = _imports()
        col = const.all_constants[case["group"]]
        for key, v in GUIDELINE[case["group"]].items():
            if float(col[key]) != v:
                return (f"constants[{case['group']}][{key}] = {float(col[key])!r}, guideline value {v!r}", "constants-table")
        return None

    def _oracle_curve(self, case, which):
        RT = 1e-9
        if which == "pram":
            w = pram_curve(case)
            calcN, calcP = (lambda p: float(w.calc_N(p))), (lambda n: float(w.calc_P_RAM(n)))
            PD_N, PD_P, PZ = case["PD"], case["PD"], case["PZ"]
            knee_N, knee_P = 1e3, case["PZ"]
        else:
            w = praj_curve(case)
            calcN, calcP = (lambda p: float(w.calc_N(p))), (lambda n: float(w.calc_P_RAJ(n)))
            PD_N, PD_P, PZ = case["PD"], case["PD0"], case["PZ"]
            knee_N, knee_P = 1.0, case["PZ"]
        ND = float(w.fatigue_life_limit)
        lowered = which == "praj" and 0 < PD_N < PD_P
        NDf = float(w.fatigue_life_limit_final) if which == "praj" else ND
        # admissibility as the property quantifies it
        if not (0 < PD_P < PZ):
            return None
        # (a) P -> N -> P, infinite at / below endurance, finite above
        pts = []
        for p in case["Ps"]:
            n = calcN(p)
            if p <= PD_N:
                if n != INF:
                    return (f"{which}: calc_N({p!r}) = {n!r} at/below the endurance value {PD_N!r}: not infinite", "curve-endurance")
                continue
            if not (0 < n < INF):
                return (f"{which}: calc_N({p!r}) = {n!r} above the endurance value {PD_N!r}: not finite positive", "curve-endurance")
            pts.append((p, n))
            if p > PD_P * (1 + 1e-7):
                back = calcP(n)
                if not close(back, p, rtol=RT):
                    return (f"{which}: calc_P(calc_N({p!r})) = {back!r}", "curve-inverse")
                if not n < ND * (1 + 1e-9):
                    return (f"{which}: calc_N({p!r}) = {n!r} not below the life limit {ND!r}", "curve-branch")
            elif lowered and p < PD_P * (1 - 1e-7):
                # the band between the lowered and the initial endurance value: finite life (checked above), so the
                # property demands the inverse here as well
                self._count("praj_band_P")
                if not (ND * (1 - 1e-9) < n < NDf * (1 + 1e-9)):
                    return (f"praj: calc_N({p!r}) = {n!r} outside [N_D, N_D,final) = [{ND!r}, {NDf!r})", "curve-branch")
                back = calcP(n)
                if not close(back, p, rtol=RT):
                    d = (f"praj after update_P_RAJ_D({PD_N!r}) (P_RAJ_D_0 = {PD_P!r}): calc_N({p!r}) = {n!r} is finite but "
                         f"calc_P_RAJ of it = {back!r}")
                    # the recorded mechanism and nothing else: calc_N right, calc_P_RAJ answers the initial endurance value
                    if back == PD_P and close(n, (p / PZ) ** (1 / case["d"]), rtol=1e-11):
                        if not self.known(K_BAND, d):
                            return (d, K_BAND)
                    else:
                        return (d, "curve-inverse")
            if which == "pram" and ((p > PZ * (1 + 1e-9) and not n < 1e3) or (p < PZ * (1 - 1e-9) and not n > 1e3)):
                return (f"pram: calc_N({p!r}) = {n!r} on the wrong side of 1e3 (P_Z = {PZ!r})", "curve-branch")
        # strictly decreasing N(P)
        pts.sort()
        for (p1, n1), (p2, n2) in zip(pts, pts[1:]):
            if p2 > p1 * (1 + 1e-7) and not n2 < n1:
                return (f"{which}: calc_N not strictly decreasing: N({p1!r}) = {n1!r}, N({p2!r}) = {n2!r}", "curve-monotone")
        # (b) N -> P -> N, horizontal beyond the life limit
        qts = []
        for n in case["Ns"]:
            nn = INF if n == "inf" else n
            p = calcP(nn)
            if lowered and nn >= ND * (1 + 1e-9):
                # finite-life range of the lowered curve: N < N_D,final (calc_N takes these values); at and beyond N_D,final the
                # endurance value the curve now has
                if nn <= NDf * (1 - 1e-9):
                    want = PZ * nn ** case["d"]
                    self._count("praj_band_N")
                elif nn >= NDf * (1 + 1e-9):
                    want = PD_N
                else:
                    continue
                if not close(p, want, rtol=RT):
                    d = (f"praj after update_P_RAJ_D({PD_N!r}) (P_RAJ_D_0 = {PD_P!r}, N_D = {ND!r}, N_D,final = {NDf!r}): "
                         f"calc_P_RAJ({nn!r}) = {p!r}, the curve calc_N uses has {want!r}")
                    if p == PD_P:
                        if not self.known(K_BAND, d):
                            return (d, K_BAND)
                    else:
                        return (d, "curve-endurance")
                continue
            if nn >= ND * (1 + 1e-9):
                if p != PD_P:
                    return (f"{which}: calc_P({nn!r}) = {p!r} beyond the life limit {ND!r}, endurance value {PD_P!r}", "curve-endurance")
                continue
            if nn <= ND * (1 - 1e-9):
                qts.append((nn, p))
                if not p > PD_P:
                    return (f"{which}: calc_P({nn!r}) = {p!r} not above the endurance value below the life limit", "curve-branch")
                if PD_N <= PD_P:
                    back = calcN(p)
                    if not close(back, nn, rtol=RT):
                        return (f"{which}: calc_N(calc_P({nn!r})) = {back!r}", "curve-inverse")
        qts.sort()
        for (n1, p1), (n2, p2) in zip(qts, qts[1:]):
            if n2 > n1 * (1 + 1e-7) and not p2 < p1:
                return (f"{which}: calc_P not strictly decreasing: P({n1!r}) = {p1!r}, P({n2!r}) = {p2!r}", "curve-monotone")
        # (c) continuity at the knees: values just left / right of the knee agree with the knee value
        for n0, p0 in ((knee_N, knee_P), (ND, PD_P)):
            for f in (1 - 1e-10, 1.0, 1 + 1e-10):
                v = calcP(n0 * f)
                if not close(v, p0, rtol=1e-8):
                    return (f"{which}: calc_P jumps at N = {n0!r}: calc_P({n0 * f!r}) = {v!r}, expected about {p0!r}", "curve-continuity")
        for f in (1 - 1e-10, 1.0, 1 + 1e-10):
            if knee_P * f > PD_N:
                v = calcN(knee_P * f)
                if not close(v, knee_N, rtol=1e-7):
                    return (f"{which}: calc_N jumps at P = {knee_P!r}: calc_N({knee_P * f!r}) = {v!r}, expected about {knee_N!r}", "curve-continuity")
        return None

    def _oracle_row(self, case):
        dp, _dc, _pc, _const = _imports()
        rows = case["rows"]
        coll = pd.DataFrame({"S_a": [r[0] for r in rows], "S_m": [r[1] for r in rows], "epsilon_a": [r[2] for r in rows]})
        ap = pd.Series({"MatGroupFKM": case["group"], "R_m": case["Rm"], "E": case["E"]})
        got = [float(v) for v in dp.P_RAM(coll, ap).collective["P_RAM"].values]
        g = GUIDELINE[case["group"]]
        M = g["a_M"] * 1e-3 * case["Rm"] + g["b_M"]
        for (Sa, Sm, ea), v in zip(rows, got):
            kf = M * (M + 2) if Sm >= 0 else M / 3 * (M / 3 + 2)
            fac = Sa + kf * Sm
            prod = fac * ea * case["E"]
            scale = (abs(Sa) + abs(kf * Sm)) * ea * case["E"]
            if abs(prod) <= 1e-12 * scale:      # sign of the product not resolvable
                if not abs(v) <= math.sqrt(1e-12 * scale) * 1.01:
                    return (f"P_RAM = {v!r} for a vanishing product (S_a={Sa!r}, S_m={Sm!r}, eps_a={ea!r})", "pram-formula")
                continue
            want = math.sqrt(prod) if prod > 0 else 0.0
            if not close(v, want, rtol=1e-9):
                return (f"P_RAM = {v!r}, sqrt((S_a + k S_m) eps_a E) = {want!r} (S_a={Sa!r}, S_m={Sm!r}, eps_a={ea!r}, "
                        f"group {case['group']}, R_m={case['Rm']!r})", "pram-formula")
        return None

    def _oracle_life(self, case):
        res = self._oracle_life_eval(case, run_life(case))
        if res is None and case.get("expect"):
            res = self._oracle_life_expect(case)
        return res

    def _oracle_life_expect(self, case):
        """A table with published results (guideline worked example): the code AND the oracle's own reference accumulation
        have to reproduce the published numbers; records which reading of 'number of cycles' the literal supports."""
        r = run_life(case)
        e = case["expect"]
        rows = case["rows"]
        w = pram_curve(case)
        ds = [(1.0 if c else 0.5) / (1e3 * (P / case["PZ"]) ** (1 / (case["d1"] if P >= case["PZ"] else case["d2"]))) for P, c, _r in rows]
        D1 = sum(d for d, row in zip(ds, rows) if row[2] == 1)
        D2 = sum(d for d, row in zip(ds, rows) if row[2] == 2)
        n1 = sum(1 for row in rows if row[2] == 1)
        n2 = sum(1 for row in rows if row[2] == 2)
        x = (1 - D1) / D2
        ref_seq, ref_cyc, alt_cyc = 1 + x, (1 + x) * n2, n1 + x * n2
        for name, got in (("lifetime_n_times_load_sequence of the code", r["nseq"]), ("reference accumulation (passes)", ref_seq)):
            if round(got) != e["nseq_round"]:
                return (f"{e['source']}: {name} = {got!r}, published {e['nseq_round']}", "literal-guideline-example")
        for name, got in (("lifetime_n_cycles of the code", r["ncyc"]), ("reference accumulation (cycles = passes x n2)", ref_cyc)):
            if round(got) != e["ncyc_round"]:
                return (f"{e['source']}: {name} = {got!r}, published {e['ncyc_round']}", "literal-guideline-example")
        pmax = max(P for P, _c, run in rows if run == 2)
        if not close(pmax, e["P_RAM_max"], rtol=1e-2) or not close(float(w.fatigue_strength_limit), e["P_RAM_D"], rtol=1e-2):
            return (f"{e['source']}: P_RAM_max {pmax!r} / endurance value {float(w.fatigue_strength_limit)!r}, published "
                    f"{e['P_RAM_max']} / {e['P_RAM_D']}", "literal-guideline-example")
        self._count("literal_cycles_reading_passes_x_n2_only" if round(alt_cyc) != e["ncyc_round"] else "literal_cycles_reading_undecided")
        return None

    def _oracle_life_multi(self, case):
        rs = run_life_multi(case)
        n = len(rs)
        for k, r in enumerate(rs):
            sub = multi_subcase(case, k)
            res = self._oracle_life_eval(sub, r)
            if res is not None:
                return (f"assessment point {k} of {n} in one table: " + res[0], res[1])
            # the point alone
            a = run_life(sub)
            cums, acc = [], 0.0
            for d in a["D"]:
                acc += d
                cums.append(acc)
            tie = near_tie(cums, bool(case.get("exact")))
            for name in ("nseq", "ncyc", "infinite") + (() if tie else ("idx",)):
                u, v = r[name], a[name]
                same = (u == v) if isinstance(u, (bool, int)) else close(u, v, rtol=1e-12)
                if not same and not (tie and name != "infinite"):
                    return (f"assessment point {k} of {n}: {name} = {u!r} in the common table, {v!r} when the point is assessed alone "
                            f"(P_RAM_Z = {sub['PZ']!r}, P_RAM_D = {sub['PD']!r}, rows {sub['rows']!r})", "multipoint-differs-from-single")
        return None

    def _oracle_life_eval(self, case, r):
        rows = case["rows"]
        exact = bool(case.get("exact"))
        # infinite life <=> the component curve gives infinite life for every hysteresis of the second pass
        w = pram_curve(case)
        want_inf = all(float(w.calc_N(P)) == INF for P, _c, run in rows if run == 2)
        if r["infinite"] != want_inf:
            return (f"is_life_infinite = {r['infinite']} but calc_N of the second-pass hystereses is "
                    f"{'infinite for all' if want_inf else 'finite for some'}", "lifetime-infinite")
        # damages of the hystereses, computed here from the curve parameters: closed 1/N, half 0.5/N
        ds = []
        for P, closed, _run in rows:
            if P == 0:
                ds.append(0.0)
                continue
            N = 1e3 * (P / case["PZ"]) ** (1 / (case["d1"] if P >= case["PZ"] else case["d2"]))
            ds.append((1.0 if closed else 0.5) / N)
        # literal accumulation through the recorded table
        acc, fail_at, cums = 0.0, None, []
        for i, d in enumerate(ds):
            acc += d
            cums.append(acc)
            if fail_at is None and acc >= 1.0:
                fail_at = i
        if near_tie(cums, exact):
            return None
        D1 = sum(d for d, row in zip(ds, rows) if row[2] == 1)
        D2 = sum(d for d, row in zip(ds, rows) if row[2] == 2)
        n1 = sum(1 for row in rows if row[2] == 1)
        n2 = sum(1 for row in rows if row[2] == 2)
        if fail_at is not None:
            # number of cycles: the literal hysteresis count up to the failing hysteresis
            if r["ncyc"] != fail_at:
                return (f"damage sum reaches one at hysteresis {fail_at} of the recorded table, but lifetime_n_cycles = {r['ncyc']!r}",
                        "lifetime-early")
            if fail_at < n1:
                # failure within the first pass: the text does not say which fraction of a pass is meant; no complete pass = 0
                self._count("oracle_early_pass1")
                if r["nseq"] != 0:
                    return (f"damage sum reaches one at hysteresis {fail_at} of the first pass, but lifetime_n_times_load_sequence = "
                            f"{r['nseq']!r}", "lifetime-early")
                return None
            # failure within the second recorded pass: first pass once, then the fraction of the second pass that is bearable
            self._count("oracle_early_pass2")
            want = 1.0 + (1.0 - D1) / D2
            if not close(r["nseq"], want, rtol=1e-8 * (1.0 + D1 / max(1 - D1, 1e-300))):
                d = (f"literal accumulation: first pass D1 = {D1!r}, second pass D2 = {D2!r}: the sum reaches one after "
                     f"1 + (1 - D1)/D2 = {want!r} passes, lifetime_n_times_load_sequence = {r['nseq']!r}")
                # the recorded finding and nothing else: exactly 0 passes
                if r["nseq"] == 0 and D1 < 1.0 <= D1 + D2:
                    if not self.known(K_EARLY, d):
                        return (d, K_EARLY)
                else:
                    return (d, "lifetime-early")
            return None
        if D2 == 0:
            if r["nseq"] != INF or r["ncyc"] != INF:
                return (f"no damage in the second pass but lifetime = {r['nseq']!r} sequences / {r['ncyc']!r} cycles", "lifetime-accumulation")
            return None
        # repeat the second pass literally until the sum reaches one (acc already holds pass 1 + one pass 2)
        reps = 1
        guess = (1 - D1) / D2
        cond = 1.0 + D1 / max(1 - D1, 1e-300)
        if guess <= 3e5:
            while acc + D2 < 1.0:
                acc += D2
                reps += 1
            x_lit = reps + (1.0 - acc) / D2
            tol = 1e-8 * cond + reps * 1e-15
        else:
            # too many repetitions to add one by one (and for tiny D2 a float sum would not move at all): all whole
            # repetitions that stay below one in one block, in exact rational arithmetic on the float damages
            from fractions import Fraction
            F1, F2 = Fraction(D1), Fraction(D2)
            reps = (1 - F1) // F2
            if F1 + reps * F2 >= 1:
                reps -= 1
            accF = F1 + reps * F2
            x_lit = float(reps + (1 - accF) / F2)
            tol = 1e-7 * cond
        if not close(r["nseq"], 1.0 + x_lit, rtol=tol):
            return (f"literal accumulation: failure after 1 + {x_lit!r} passes, lifetime_n_times_load_sequence = {r['nseq']!r}", "lifetime-accumulation")
        if not close(r["ncyc"], (1.0 + x_lit) * n2, rtol=tol):
            return (f"literal accumulation: {(1.0 + x_lit) * n2!r} cycles, lifetime_n_cycles = {r['ncyc']!r}", "lifetime-accumulation")
        return None

    def _oracle_beta(self, case):
        _dp, _dc, pc, _const = _imports()
        PA = case["PA"]
        try:
            b = float(pc.compute_beta(PA))
        except RuntimeError as e:
            if "Could not compute the value of beta" not in str(e):
                raise
            return (f"compute_beta({PA!r}) raises RuntimeError ('the optimizer did not find a solution') for a failure probability "
                    f"in (0, 0.5]", "beta-root-search-fails")
        # Phi(-beta) = P_A with Phi(x) = erfc(-x / sqrt 2) / 2
        got = 0.5 * math.erfc(b / math.sqrt(2.0))
        if not close(got, PA, rtol=1e-8):
            return (f"compute_beta({PA!r}) = {b!r} but Phi(-beta) = {got!r}", "beta-quantile")
        if PA <= 0.5 and b < -1e-9:
            return (f"compute_beta({PA!r}) = {b!r} negative", "beta-quantile")
        # the RETURN TYPE (/repo commit 007797f): a float, a numpy scalar and every one-element array-like give a scalar
        # (np.ndim == 0, as the root search of the original code did) with the value of the float call
        for name, arg in (("float", float(PA)), ("np.float64", np.float64(PA)), ("np.array([p])", np.array([PA])), ("[p]", [PA]),
                          ("pd.Series([p])", pd.Series([PA]))):
            self._count("beta_return_type_calls")
            try:
                r = pc.compute_beta(arg)
            except Exception as e:     # noqa: BLE001  (the kind of exception is the observable)
                return (f"compute_beta({name}) with p = {PA!r} raises {type(e).__name__}: {str(e)[:100]}; the float call returns {b!r}",
                        "compute-beta-array-return")
            if np.ndim(r) != 0:
                return (f"compute_beta({name}) with p = {PA!r} returns {r!r} ({type(r).__name__}, ndim {np.ndim(r)}), not a scalar; "
                        f"the float call returns {b!r}", "compute-beta-array-return")
            if float(r) != b:
                return (f"compute_beta({name}) with p = {PA!r} returns {float(r)!r}, the float call {b!r}", "compute-beta-array-return")
        return None

    def _oracle_gamma(self, case):
        if case.get("mesh"):
            return self._oracle_gamma_mesh(case)
        got = self._gamma_impl(case, count=False)
        PA, PL, s = case["PA"], case["PL"], case["s"]
        if case["which"] != "blanket" and not (abs(PL - 2.5) <= 1e-8 + 2.5e-5 or abs(PL - 50) <= 1e-8 + 50e-5):
            return None         # P_L outside the guideline's {2.5 %, 50 %}: no claim (ASSUMPTIONS)

        def isclose(a, b):
            return abs(a - b) <= 1e-8 + 1e-5 * abs(b)
        beta = next((b for p, b in BETA_TABLE if isclose(PA, p)), None)
        w = case["which"]
        if w == "blanket":
            want = 1.1 if isclose(PL, 2.5) else 1.0 if isclose(PL, 50) else None
        elif beta is None:
            want = None
        else:
            alpha = (0.7 * beta - 2) * s if isclose(PL, 2.5) else 0.7 * beta * s
            if w == "normal":
                Lmax = max(abs(v) for v in case["loads"])
                want = (Lmax + alpha) / Lmax
            else:
                want = max(1.0, 10.0 ** alpha)
        if want is None:
            if got != "ValueError":
                return (f"gamma_L ({w}) for P_A={PA!r}, P_L={PL!r} outside the guideline's values returned {h2f(got)!r} instead of raising", "gamma-L")
            return None
        if got == "ValueError" or not close(h2f(got), want, rtol=1e-12):
            return (f"gamma_L ({w}) = {got if got == 'ValueError' else h2f(got)!r}, guideline formula gives {want!r} "
                    f"(P_A={PA!r}, P_L={PL!r}, s={s!r})", "gamma-L")
        return None

    def _oracle_gamma_mesh(self, case):
        m = case["mesh"]
        n, ids = m["n"], m["ids"]
        PA, PL, s = case["PA"], case["PL"], case["s"]
        toks, scaled = self._gamma_mesh_impl(case, count=False)

        def isclose(a, b):
            return abs(a - b) <= 1e-8 + 1e-5 * abs(b)
        beta = next((b for p, b in BETA_TABLE if isclose(PA, p)), None)
        if beta is None:
            if any(t != "ValueError" for t in toks):
                return (f"gamma_L (normal, mesh) for P_A={PA!r} outside the guideline's values did not raise", "gamma-L")
            return None
        alpha = (0.7 * beta - 2) * s if isclose(PL, 2.5) else 0.7 * beta * s
        cols = [[case["loads"][t * n + k] for t in range(len(case["loads"]) // n)] for k in range(n)]
        node_max = [max(abs(v) for v in col) for col in cols]
        lmaxs = node_max if m["indep"] else [max(node_max)] * n
        wants = [(L + alpha) / L for L in lmaxs]
        gots = toks if m["indep"] else toks * n
        for k in range(n):
            if gots[k] == "ValueError" or not close(h2f(gots[k]), wants[k], rtol=1e-12):
                return (f"gamma_L (normal, mesh, node_id {ids[k]}, max_load_independently_for_nodes={m['indep']}) = "
                        f"{gots[k] if gots[k] == 'ValueError' else h2f(gots[k])!r}, guideline formula with L_max = {lmaxs[k]!r} "
                        f"(greatest absolute load) gives {wants[k]!r} (P_A={PA!r}, P_L={PL!r}, s_L={s!r}, node loads {cols[k]!r})", "gamma-L")
        # the scaled load sequence: every load of a node times that node's gamma_L, further columns untouched
        first = scaled.iloc[:, 0] if isinstance(scaled, pd.DataFrame) else scaled
        for t in range(len(case["loads"]) // n):
            for k in range(n):
                v = float(first.loc[(t, ids[k])])
                if not close(v, cols[k][t] * wants[k], rtol=1e-12, atol=1e-300):
                    return (f"scaled_load_sequence at load_step {t}, node_id {ids[k]} = {v!r}, load {cols[k][t]!r} times gamma_L "
                            f"{wants[k]!r} = {cols[k][t] * wants[k]!r}", "gamma-L-scaling")
        if isinstance(scaled, pd.DataFrame) and scaled.shape[1] > 1:
            if list(scaled.iloc[:, 1].values) != list(np.arange(float(len(scaled)))):
                return ("scaled_load_sequence changed a column that is not the load", "gamma-L-scaling")
        return None

    def _oracle_literal(self, case):
        """Numbers published in the repo's own tests / docs (taken from the guideline's worked examples and tables): the
        oracle's reference formulas (GUIDELINE, BETA_TABLE, erfc, the gamma_L formulas) AND the code have to reproduce them."""
        dp, dc, pc, const = _imports()
        what, src = case["what"], case["source"]
        if what == "gamma":
            sub = {"kind": "gamma", "which": case["which"], "PA": case["PA"], "PL": case["PL"], "s": case["s"], "loads": case["loads"]}
            r = self._oracle_gamma(sub)                     # code = reference formula
            if r is not None:
                return r
            got = h2f(self._gamma_impl(sub, count=False))
            if not close(got, case["expect"], rtol=case["rtol"]):
                return (f"{src}: gamma_L = {got!r}, published {case['expect']!r}", "literal-gamma")
            return None
        if what == "beta":
            b = float(pc.compute_beta(case["PA"]))
            ref = 0.5 * math.erfc(case["expect"] / math.sqrt(2.0))      # the oracle's Phi(-beta) at the published beta
            if not close(b, case["expect"], rtol=case["rtol"], atol=1e-8) or not close(ref, case["PA"], rtol=2e-5):
                return (f"{src}: compute_beta({case['PA']!r}) = {b!r}, published {case['expect']!r} (Phi(-published) = {ref!r})", "literal-beta")
            return None
        if what == "material_curve":
            g = GUIDELINE[case["group"]]
            col = const.all_constants[case["group"]]
            fam = case["family"]
            f25 = F25[case["group"]][fam]
            for tab, name in ((g, "the oracle's guideline table"), ({k: float(col[k]) for k in g}, "constants.py")):
                pz = f25 * tab[f"a_PZ_{fam}"] * case["Rm"] ** tab[f"b_PZ_{fam}"]
                pd_ = f25 * tab[f"a_PD_{fam}"] * case["Rm"] ** tab[f"b_PD_{fam}"]
                if not close(pz, case["PZ_WS"], rtol=1e-3) or not close(pd_, case["PD_WS"], rtol=1e-3):
                    return (f"{src}: {name} gives P_{fam}_Z_WS = {pz!r}, P_{fam}_D_WS = {pd_!r} for {case['group']}, R_m = {case['Rm']!r}; "
                            f"published {case['PZ_WS']!r}, {case['PD_WS']!r}", "literal-constants")
                slopes = (tab["d_1"], tab["d_2"]) if fam == "RAM" else (tab["d_RAJ"],)
                if list(slopes) != list(case["slopes"]):
                    return (f"{src}: {name} has slopes {slopes!r}, published {case['slopes']!r}", "literal-constants")
            return None
        return (f"unknown literal {what!r}", "harness")

    # -------------------------------------------------------------- shrinking
    def shrink(self, case, still_fails):
        cur = dict(case)
        if cur.get("kind") == "life_multi":
            return self._shrink_multi(cur, still_fails)
        for key in ("rows", "Ps", "Ns", "loads"):
            if key not in cur or (key == "loads" and cur.get("mesh")):
                continue
            changed = True
            while changed and len(cur[key]) > 1:
                changed = False
                for i in range(len(cur[key])):
                    cand = dict(cur, **{key: cur[key][:i] + cur[key][i + 1:]})
                    if key == "rows" and cur["kind"] == "life" and not any(r[2] == 2 for r in cand["rows"]):
                        continue
                    try:
                        if still_fails(cand):
                            cur, changed = cand, True
                            break
                    except Exception:
                        continue
        return cur

    def _shrink_multi(self, cur, still_fails):
        def ok(c):
            try:
                return still_fails(c)
            except Exception:
                return False
        changed = True
        while changed:
            changed = False
            for k in range(len(cur["points"])):             # drop an assessment point
                if len(cur["points"]) <= 1:
                    break
                cand = dict(cur, points=cur["points"][:k] + cur["points"][k + 1:])
                if ok(cand):
                    cur, changed = cand, True
                    break
            if changed:
                continue
            for h in range(len(cur["pattern"])):            # drop a hysteresis (in every point)
                pat = cur["pattern"][:h] + cur["pattern"][h + 1:]
                if not any(r == 2 for _c, r in pat):
                    continue
                cand = dict(cur, pattern=pat, points=[dict(pt, P=pt["P"][:h] + pt["P"][h + 1:]) for pt in cur["points"]])
                if ok(cand):
                    cur, changed = cand, True
                    break
        return cur
