"""C17: equivalent stresses (pylife.stress.equistress) - rotation invariance, principal forms,
inequalities, signed variants, positive homogeneity, accessor = plain functions row by row.

A case is a small batch of stress tensors (rows of the six Voigt components) together with one
orthogonal matrix Q, one positive scale factor and an index layout.  From it the harness derives,
deterministically, the rotated rows (Q S Q^T computed with numpy) and the scaled rows.

Correspondence (K): for every base / rotated / scaled tensor the real functions are called on three
paths - scalar arguments, column (ndarray) arguments, the DataFrame accessor - and every result is
compared bit for bit (NaN = NaN, -0.0 = 0.0) with the compiled Lean model, which receives the six
components and the eigenvalue triple the real `principals` returned on the same path.

Oracle: the property's own relations on the real code, with eigenvalues obtained independently
(the constructing eigenvalues of the case, or numpy's general non-symmetric solver `eigvals`)."""
import itertools
import json
import math

import numpy as np
import pandas as pd

from . import core
from .core import Prop

SOURCES = ["src/pylife/stress/equistress.py", "src/pylife/stress/stresssignal.py"]
COLS = ["S11", "S22", "S33", "S12", "S13", "S23"]
# order of the values in one answer line of the driver op `equi`
FUNCS = ["mises", "signed_mises_trace", "signed_mises_abs_max_principal", "tresca", "signed_tresca_trace",
         "signed_tresca_abs_max_principal", "abs_max_principal", "max_principal", "min_principal"]
TOL = 1e-9          # relative to the magnitude of the tensor
_E = None


def eqs():
    global _E
    if _E is None:
        import pylife.stress.equistress as E
        _E = E
    return _E


# ------------------------------------------------------------------ tensors
def mat(row):
    s11, s22, s33, s12, s13, s23 = row
    return np.array([[s11, s12, s13], [s12, s22, s23], [s13, s23, s33]], dtype=float)


def voigt(m):
    return [float(m[0, 0]), float(m[1, 1]), float(m[2, 2]),
            float(0.5 * (m[0, 1] + m[1, 0])), float(0.5 * (m[0, 2] + m[2, 0])), float(0.5 * (m[1, 2] + m[2, 1]))]


def rotate(row, q):
    q = np.array(q, dtype=float).reshape(3, 3)
    return voigt(q @ mat(row) @ q.T)


def scale_of(row):
    return max(abs(x) for x in row)


def rand_orth(rng):
    a = np.array([[rng.gauss(0, 1) for _ in range(3)] for _ in range(3)])
    q, r = np.linalg.qr(a)
    q = q * np.sign(np.diag(r))
    if rng.random() < 0.7 and np.linalg.det(q) < 0:   # mostly proper rotations, some reflections
        q[:, 0] = -q[:, 0]
    return [float(x) for x in q.reshape(-1)]


EXACT_Q = [
    [1, 0, 0, 0, 1, 0, 0, 0, 1],
    [0, -1, 0, 1, 0, 0, 0, 0, 1],          # 90 deg about z
    [0, 0, 1, 1, 0, 0, 0, 1, 0],           # cyclic permutation of the axes
    [1, 0, 0, 0, 0, -1, 0, 1, 0],          # 90 deg about x
    [-1, 0, 0, 0, 1, 0, 0, 0, 1],          # reflection
    [0.6, -0.8, 0, 0.8, 0.6, 0, 0, 0, 1],  # 3-4-5 rotation about z
]

KINDS = ["random", "uniaxial", "pure_shear", "hydrostatic", "near_hydrostatic", "repeated", "zero", "plane",
         "integer", "deviatoric", "tie_absmax", "near_tie_absmax", "compressive", "magnitude", "tiny"]


def gen_row(rng, kind):
    """-> (row, constructing eigenvalues or None)"""
    u = lambda a=10.0: rng.uniform(-a, a)
    if kind == "random":
        return [u() for _ in range(6)], None
    if kind == "uniaxial":
        r = [0.0] * 6
        r[rng.randrange(3)] = rng.choice([u(), float(rng.randint(-5, 5)), 3.3])
        return r, None
    if kind == "pure_shear":
        r = [0.0] * 6
        r[3 + rng.randrange(3)] = rng.choice([u(), float(rng.randint(-5, 5))])
        return r, None
    if kind == "hydrostatic":
        v = rng.choice([u(100.0), 3.3, 19.375884220223, 7.7, -3.3, 1e6 / 3, float(rng.randint(-9, 9)) / 10])
        return [v, v, v, 0.0, 0.0, 0.0], [v, v, v]
    if kind == "near_hydrostatic":
        v = u(100.0)
        d = 10.0 ** rng.randint(-9, -1)
        return [v + d * u(1), v + d * u(1), v + d * u(1), d * u(1), d * u(1), d * u(1)], None
    if kind == "repeated":      # two equal eigenvalues, rotated into a general position
        a, b = u(), u()
        lam = sorted([a, a, b])
        q = np.array(rand_orth(rng)).reshape(3, 3)
        return voigt(q @ np.diag(lam) @ q.T), lam
    if kind == "zero":
        return [0.0] * 6, [0.0, 0.0, 0.0]
    if kind == "plane":
        return [u(), u(), 0.0, u(), 0.0, 0.0], None
    if kind == "integer":
        return [float(rng.randint(-3, 3)) for _ in range(6)], None
    if kind == "deviatoric":    # trace exactly zero in floating point: the `+1 for a zero indicator` rule
        a, b = float(rng.randint(-8, 8)), float(rng.randint(-8, 8))
        return [a, b, -(a + b), float(rng.randint(-3, 3)), float(rng.randint(-3, 3)), float(rng.randint(-3, 3))], None
    if kind == "tie_absmax":    # |w_min| = |w_max| exactly: diagonal / axis-permuted, dyadic values
        a = float(rng.randint(0, 6)) / 2
        m = rng.choice([0.0, a / 2, -a / 2, a, -a])
        lam = [-a, m, a]
        perm = rng.sample(range(3), 3)
        d = [lam[perm[0]], lam[perm[1]], lam[perm[2]]]
        return d + [0.0, 0.0, 0.0], sorted(lam)
    if kind == "near_tie_absmax":   # |w_min| and |w_max| differ by a relative gap of 1e-7 .. 1e-3 (far above rounding)
        a = abs(u()) + 0.5
        d = 10.0 ** rng.uniform(-7, -3)
        lam = sorted(rng.choice([[-a * (1 + d), u(0.4), a], [-a, u(0.4), a * (1 + d)]]))
        q = np.array(rand_orth(rng)).reshape(3, 3)
        return voigt(q @ np.diag(lam) @ q.T), lam
    if kind == "tiny":              # every eigenvalue far below 1e-8: absolute tolerances in the code would show
        f = 10.0 ** rng.randint(-14, -9)
        lam = sorted([-abs(u()) - 10.0, u(5.0), abs(u(5.0))]) if rng.random() < 0.5 else sorted([u(), u(), u()])
        lam = [f * x for x in lam]
        q = np.array(rand_orth(rng)).reshape(3, 3)
        return voigt(q @ np.diag(lam) @ q.T), lam
    if kind == "compressive":   # negative eigenvalue of largest magnitude
        lam = sorted([-abs(u()) - 10.0, u(5.0), abs(u(5.0))])
        q = np.array(rand_orth(rng)).reshape(3, 3)
        return voigt(q @ np.diag(lam) @ q.T), lam
    if kind == "magnitude":
        f = 10.0 ** rng.randint(-6, 8)
        return [f * u(1.0) for _ in range(6)], None
    raise ValueError(kind)


# ------------------------------------------------------------------ calling the real code
def _f(x):
    return float(np.asarray(x, dtype=float))


def call_scalar(row):
    E = eqs()
    w = [float(x) for x in E.principals(*row)]
    return w, [_f(getattr(E, f)(*row)) for f in FUNCS]


def call_column(rows):
    E = eqs()
    cols = [np.array([r[i] for r in rows], dtype=float) for i in range(6)]
    w = np.asarray(E.principals(*cols), dtype=float)
    vals = [np.asarray(getattr(E, f)(*cols), dtype=float) for f in FUNCS]
    return [[float(x) for x in w[i]] for i in range(len(rows))], [[float(v[i]) for v in vals] for i in range(len(rows))]


def make_index(kind, n):
    if kind == "range":
        return pd.RangeIndex(n)
    if kind == "reversed":
        return pd.Index(list(range(n - 1, -1, -1)))
    if kind == "offset":
        return pd.Index([7 + 3 * i for i in range(n)])
    if kind == "string":
        return pd.Index([f"n{i}" for i in range(n)])
    if kind == "multi":
        return pd.MultiIndex.from_tuples([(i // 2, i % 2) for i in range(n)], names=["element_id", "node_id"])
    raise ValueError(kind)


# column layouts of the frames handed to the accessor: the six Voigt columns in any order, other columns anywhere
CANONICAL = COLS + ["other"]
EXTRA_VALUES = {"other": 1.0, "S1": 11.0, "S111": -7.0, "S21": 5.0, "s11": 3.0, "S12_x": 2.5, "node": "n", "T": 300.0}
COLUMN_ORDERS = [
    ["S11", "S22", "S33", "S12", "S23", "S13"],     # swap inside the shear block
    ["S11", "S22", "S33", "S13", "S12", "S23"],
    ["S11", "S22", "S33", "S23", "S13", "S12"],
    ["S12", "S13", "S23", "S11", "S22", "S33"],     # shear first
    ["S23", "S13", "S12", "S33", "S22", "S11"],     # reversed
    ["S22", "S11", "S33", "S12", "S13", "S23"],     # swap inside the normal block
    ["S33", "S22", "S11", "S12", "S13", "S23"],
    ["S11", "S12", "S13", "S22", "S23", "S33"],     # row-major upper triangle: normal / shear mixed
    ["S12", "S22", "S33", "S11", "S13", "S23"],     # one normal / shear mix-up
    ["S11", "S22", "S23", "S12", "S13", "S33"],
]


def gen_colorder(rng):
    r = rng.random()
    if r < 0.15:
        order = list(COLS)
    elif r < 0.75:
        order = list(rng.choice(COLUMN_ORDERS))
    else:
        order = rng.sample(COLS, 6)
    extras = rng.sample(sorted(EXTRA_VALUES), rng.choice([0, 0, 1, 2, 3]))
    for e in extras:
        order.insert(rng.choice([0, len(order), rng.randrange(len(order) + 1)]), e)
    return order


def frame(rows, index_kind, colorder=None, extra=False):
    """DataFrame of the tensors; `colorder` = column names in frame order (Voigt columns and extra columns)"""
    if colorder is None:
        colorder = CANONICAL if extra else COLS
    data = {}
    for c in colorder:
        data[c] = [r[COLS.index(c)] for r in rows] if c in COLS else [EXTRA_VALUES[c]] * len(rows)
    return pd.DataFrame(data, index=make_index(index_kind, len(rows)), columns=list(colorder))


def accessor_values(df):
    """All accessor methods on the frame `df` -> (w per row, values per row, problems with index/name)"""
    acc = df.equistress
    problems = []
    pr = acc.principals()
    if not pr.index.equals(df.index):
        problems.append("principals(): index differs from the frame's index")
    if list(pr.columns) != ["min_principal", "med_principal", "max_principal"]:
        problems.append(f"principals(): columns {list(pr.columns)}")
    w = pr.to_numpy(dtype=float)
    vals = []
    for f in FUNCS:
        s = getattr(acc, f)()
        if not isinstance(s, pd.Series) or len(s) != len(df):
            problems.append(f"{f}(): not a Series of the frame's length")
        if not s.index.equals(df.index):
            problems.append(f"{f}(): index differs from the frame's index")
        if s.name != f:
            problems.append(f"{f}(): name {s.name!r}")
        vals.append(s.to_numpy(dtype=float))
    return [[float(x) for x in w[i]] for i in range(len(df))], \
        [[float(v[i]) for v in vals] for i in range(len(df))], problems


def call_accessor(rows, index_kind, colorder=None):
    return accessor_values(frame(rows, index_kind, colorder or CANONICAL))


def call_lists(rows):
    """plain functions with python lists (one entry per row) as arguments"""
    E = eqs()
    cols = [[r[i] for r in rows] for i in range(6)]
    w = np.asarray(E.principals(*cols), dtype=float).reshape(len(rows), 3)
    vals = [np.asarray(getattr(E, f)(*cols), dtype=float).reshape(len(rows)) for f in FUNCS]
    return [[float(x) for x in w[i]] for i in range(len(rows))], [[float(v[i]) for v in vals] for i in range(len(rows))]


def same(a, b):
    return a == b or (a != a and b != b)


# ------------------------------------------------------------------ reference values (oracle side)
def ref_eigs(row, lam=None):
    """ascending eigenvalues, not via eigvalsh: the constructing values, or the general solver"""
    if lam is not None:
        return sorted(float(x) for x in lam)
    return sorted(float(x) for x in np.linalg.eigvals(mat(row)).real)


def sos_mises(row):
    s11, s22, s33, s12, s13, s23 = row
    return math.sqrt(0.5 * ((s11 - s22) ** 2 + (s22 - s33) ** 2 + (s33 - s11) ** 2) + 3.0 * (s12 ** 2 + s13 ** 2 + s23 ** 2))


def expanded_mises(row):
    """the formula of the unrepaired code (finding F-13), evaluated as the code evaluates it"""
    s11, s22, s33, s12, s13, s23 = row
    r = s11 ** 2 + s22 ** 2 + s33 ** 2 - s11 * s22 - s11 * s33 - s22 * s33 + 3 * (s12 ** 2 + s13 ** 2 + s23 ** 2)
    return math.sqrt(r) if r >= 0 else math.nan


def is_cancellation(row, code_mises):
    """True iff the code's Mises value is what the expanded polynomial gives in floating point AND that is
    NaN / away from the well-conditioned sum-of-squares evaluation: the failure class of finding F-13."""
    if not same(abs(code_mises), expanded_mises(row)):
        return False
    return code_mises != code_mises or abs(abs(code_mises) - sos_mises(row)) > 0.25 * TOL * scale_of(row)


def principal_mises(l):
    return math.sqrt(0.5 * ((l[0] - l[1]) ** 2 + (l[1] - l[2]) ** 2 + (l[2] - l[0]) ** 2))


class C17(Prop):
    ID = "C17"
    SOURCES = SOURCES
    LEAN_MODULES = ["Proofs.C17", "Proofs.BridgeC17"]
    THEOREMS = ["PylifeVerif.C17." + t for t in [
        "misesRadicandExpanded_eq_sum_of_squares", "misesRadicandExpanded_nonneg", "misesExpanded_eq_mises",
        "mises_sq_eq_invariants", "mises_eq_sqrt_invariants", "mises_rotation_invariant",
        "eigTriple_exists", "eigTriple_rotation_invariant", "eigTriple_are_eigenvalues", "mises_eq_principal_form",
        "tresca_eq_max_sub_min", "tresca_def", "maxPrincipal_def", "minPrincipal_def", "absMaxPrincipal_def",
        "principalMises_le_tresca_le", "mises_le_tresca_le",
        "signTrace_def", "signAbsMax_def",
        "signedMisesTrace_def", "signedTrescaTrace_def", "signedMisesAbsMax_def", "signedTrescaAbsMax_def",
        "signed_zero_indicator",
        "mises_smul", "eigTriple_smul", "principal_functions_smul", "signed_functions_smul",
        "equistress_positively_homogeneous",
        "equistress_rotation_invariant", "accessor_rowwise"]] + [
        "PylifeVerif.Bridge.mises_eq"]      # generated (translated) mises = hand model
    PARTIAL = {}
    RULE = ("case = (1-6 stress tensors of 15 kinds incl. uniaxial, pure shear, hydrostatic, near-hydrostatic, repeated "
            "eigenvalues, zero, zero trace, |w_min| = |w_max|; one orthogonal Q (exact or random, proper or reflection); "
            "one positive scale factor; index layout; column layout of the frame = the six Voigt columns "
            "in canonical / permuted order with 0-3 other columns anywhere); every base / rotated / scaled tensor is evaluated on the scalar, "
            "column and accessor path and in further batch layouts (alone as a column of length 1, columns of length 2 and 3, "
            "next to 1-4 all-zero rows, as a one-row frame df.iloc[[i]]) and all 9 function values are compared bit for bit "
            "with the Lean model fed with the eigenvalues `principals` returned; non-trivial = at least one non-zero tensor; distinct by case")
    ASSUMPTIONS = [
        "numpy.linalg.eigvalsh is modelled by its contract (IsEigTriple: ascending roots of the characteristic polynomial, "
        "proved to exist, to be unique, rotation invariant and to scale with the tensor); the eigenvalue based model "
        "functions take the triple returned by the real `principals` as input; the oracle checks that triple against "
        "independently obtained eigenvalues to 1e-9 x tensor magnitude",
        "theorems are over the reals; the floating-point evaluation of the same expressions is tied by bit-exact "
        "correspondence (only + - x / sqrt, abs, comparisons are involved) and the oracle's tolerance 1e-9 x magnitude",
        "model `mises` is the repaired sum-of-squares formula (tools/fixes/C17-mises-sum-of-squares.diff); over the reals "
        "it equals the expanded formula of the unrepaired code (theorem misesExpanded_eq_mises)",
        "pandas accessor registration / DataFrame column access are glue, checked by K and the oracle only",
    ]

    # tie T (DESIGN 1.1): lean/Generated/<name>.lean are regenerated from the current python source before the build;
    # Proofs.BridgeC17 proves them equal to the hand model the property theorems are about
    TRANSLATED = ["Equistress"]

    def setup(self, log):
        import os
        import sys
        tdir = os.path.join(core.VERIF, "translate")
        sys.path.insert(0, tdir)
        try:
            import translate as T
            ok, msg = T.run_modules(self.TRANSLATED, core.REPO, core.LEAN)
        except Exception as e:      # the translator itself is broken: every bridge obligation counts as broken
            ok, msg = False, f"translator crashed: {type(e).__name__}: {e}"
            for n in self.TRANSLATED:
                with open(os.path.join(core.LEAN, "Generated", n + "Status.lean"), "w") as f:
                    f.write('#eval (throw (IO.userError "translator crashed") : IO Unit)\n')
        finally:
            sys.path.remove(tdir)
        self.stats["translator"] = msg
        log(("translator: " + msg) if ok else ("TRANSLATOR FAILED (broken proof obligation): " + msg))

    def __init__(self):
        self.exhaustive = False
        self._cache = {}
        self.stats = {"cases": 0, "tensors": 0, "by_kind": {}, "q_kind": {}, "index_kind": {}, "factor_log10": {},
                      "neg_trace": 0, "zero_trace": 0, "neg_absmax": 0, "zero_absmax_indicator": 0,
                      "magnitude_log10": {}, "missing_column_checks": 0}

    # -------------------------------------------------------------- generation
    def generate(self, rng, tier):
        n_cases = 1300 if tier == "quick" else 12000
        # every kind x every exact rotation once (single row), then random batches
        for kind in KINDS:
            for q in EXACT_Q:
                row, lam = gen_row(rng, kind)
                yield self._case(rng, [row], [lam], [kind], [float(x) for x in q], "exact", frames=True)
        # enumerated scope: every tensor with components in {-1, 0, 1} (729 tensors; many exact ties of the
        # sign indicators and repeated eigenvalues), in batches of 9 rows, with the exact rotations
        small = [[float(x) for x in t] for t in itertools.product([-1, 0, 1], repeat=6)]
        qs = EXACT_Q if tier != "quick" else None
        for b in range(0, len(small), 9):
            rows = small[b:b + 9]
            for q in (qs if qs is not None else [EXACT_Q[(b // 9) % len(EXACT_Q)]]):
                yield self._case(rng, rows, [None] * len(rows), ["enumerated"] * len(rows), [float(x) for x in q], "exact",
                                 frames=False)
        self.stats["enumerated_scope"] = ("all 729 tensors with components in {-1,0,1} x " +
                                          ("one" if qs is None else "all 6") + " exact orthogonal matrices")
        for _ in range(n_cases):
            n = rng.choice([1, 1, 2, 3, 6])
            kinds = [rng.choice(KINDS) for _ in range(n)]
            rows, lams = [], []
            for k in kinds:
                r, l = gen_row(rng, k)
                rows.append(r)
                lams.append(l)
            if rng.random() < 0.25:
                q, qk = [float(x) for x in rng.choice(EXACT_Q)], "exact"
            else:
                q, qk = rand_orth(rng), "random"
            yield self._case(rng, rows, lams, kinds, q, qk)

    def _case(self, rng, rows, lams, kinds, q, qk, frames=None):
        factor = rng.choice([2.0, 0.5, 3.7, 1e-3, 1e4, 1e-9, rng.uniform(0.1, 10.0)])
        idx = rng.choice(["range", "reversed", "offset", "string", "multi"])
        return {"rows": rows, "lam": lams, "kinds": kinds, "q": q, "q_kind": qk, "factor": factor, "index": idx,
                "drop": rng.choice(COLS), "pad": rng.choice([1, 2, 3, 4]),
                "frames": frames if frames is not None else rng.random() < 0.25,
                "colorder": gen_colorder(rng)}

    # -------------------------------------------------------------- derived tensors
    @staticmethod
    def tensors(case):
        """[(tag, row)] base, rotated and scaled rows, in a fixed order"""
        base = [[float(x) for x in r] for r in case["rows"]]
        rot = [rotate(r, case["q"]) for r in base]
        sc = [[case["factor"] * x for x in r] for r in base]
        return base, rot, sc

    def _evaluate(self, case):
        """Real code on all three paths; cached per case (correspondence and oracle share it)."""
        key = id(case)
        hit = self._cache.get(key)
        if hit is not None and hit[0] is case:      # the case object is kept alive, so its id is not reused
            return hit[1]
        base, rot, sc = self.tensors(case)
        allrows = base + rot + sc
        out = {"rows": allrows, "n": len(base)}
        try:
            out["scalar"] = [call_scalar(r) for r in allrows]
            cw, cv = call_column(allrows)
            out["column"] = list(zip(cw, cv))
            aw, av, problems = call_accessor(allrows, case["index"], case.get("colorder"))
            out["accessor"] = list(zip(aw, av))
            out["problems"] = problems
            out["layouts"] = self._layouts(case, allrows, len(base), out)
            out["error"] = None
        except Exception as e:  # the real code raised on valid input
            out["error"] = f"{type(e).__name__}: {e}"
        if len(self._cache) > 50000:
            self._cache.clear()
        self._cache[key] = (case, out)
        return out

    def _layouts(self, case, allrows, n, out):
        """The same tensors in other batch layouts: every result must be the number the tensor gets on its own.
        -> [(label, tensor index or None for a zero padding row, row, w, vals)]"""
        lay = []
        # every tensor alone as a column of length 1 (one-element lists, the style of the repository's tests)
        for i, r in enumerate(allrows):
            w, v = call_lists([r])
            lay.append(("column of length 1 (one-element lists)", i, r, w[0], v[0]))
        # columns of length 2 and 3 (prefixes of the full column)
        for m in (2, 3):
            w, v = call_column(allrows[:m])
            for i in range(m):
                lay.append((f"column of length {m} (first {m} tensors of the case)", i, allrows[i], w[i], v[i]))
        # a loaded row followed by / preceded by zero rows
        pad = int(case.get("pad", 2))
        zero = [0.0] * 6
        for i in range(n):
            for label, rows, pos in ((f"column: the tensor followed by {pad} all-zero rows", [allrows[i]] + [zero] * pad, 0),
                                     (f"column: {pad} all-zero rows followed by the tensor", [zero] * pad + [allrows[i]], pad)):
                w, v = call_column(rows)
                for j in range(len(rows)):
                    lay.append((label, i if j == pos else None, rows[j], w[j], v[j]))
        # every base row of the frame evaluated alone as a one-row frame (df.iloc[[i]]) through the accessor
        # (pandas is slow: in a quarter of the random cases, for at most two rows)
        if not case.get("frames", True):
            return lay
        df = frame(allrows, case["index"], case.get("colorder") or CANONICAL)
        for i in sorted({0, pad % n}):
            one = df.iloc[[i]]
            w, v, problems = accessor_values(one)
            out["problems"] = out["problems"] + [f"one-row frame df.iloc[[{i}]]: {p}" for p in problems]
            lay.append((f"accessor on the one-row frame df.iloc[[{i}]]", i, allrows[i], w[0], v[0]))
        # the padded layout through the accessor as well (first base row only)
        w, v, problems = accessor_values(frame([allrows[0]] + [zero] * pad, case["index"], case.get("colorder") or CANONICAL))
        out["problems"] = out["problems"] + [f"padded frame: {p}" for p in problems]
        for j in range(pad + 1):
            lay.append((f"accessor: frame with the tensor in row 0 followed by {pad} all-zero rows", 0 if j == 0 else None,
                        allrows[0] if j == 0 else zero, w[j], v[j]))
        return lay

    def _entries(self, ev):
        """(label, row, w, vals) of every evaluation of the case, in the order of the protocol lines"""
        ent = []
        for path in ("scalar", "column", "accessor"):
            for i, (row, (w, vals)) in enumerate(zip(ev["rows"], ev[path])):
                ent.append((f"{path} path, tensor #{i}", row, w, vals))
        for label, i, row, w, vals in ev["layouts"]:
            ent.append((f"{label}, " + (f"tensor #{i}" if i is not None else "zero row"), row, w, vals))
        return ent

    # -------------------------------------------------------------- correspondence
    def model_lines(self, case):
        ev = self._evaluate(case)
        if ev["error"]:
            return ["equi " + " ".join(core.f2h(x) for x in ev["rows"][0] + [0.0, 0.0, 0.0])]
        return ["equi " + " ".join(core.f2h(x) for x in row + w) for _l, row, w, _v in self._entries(ev)]

    def impl_lines(self, case):
        ev = self._evaluate(case)
        if ev["error"]:
            return ["error " + ev["error"]]
        return [" ".join(core.f2h(x) for x in vals) for _l, _row, _w, vals in self._entries(ev)]

    def compare(self, case, model_out, impl_out):
        if len(model_out) != len(impl_out):
            return f"length {len(model_out)} vs {len(impl_out)}"
        ev = self._evaluate(case)
        labels = [e[0] for e in self._entries(ev)] if not ev["error"] else []
        for i, (a, b) in enumerate(zip(model_out, impl_out)):
            if b.startswith("error"):
                return f"implementation raised on valid input: {b}"
            try:
                m = [core.h2f(x) for x in a.split()]
                p = [core.h2f(x) for x in b.split()]
            except Exception:
                return f"line {i}: model={a[:200]!r} impl={b[:200]!r}"
            for k, f in enumerate(FUNCS):
                if not same(m[k], p[k]):
                    path = labels[i] if i < len(labels) else "?"
                    note = ""
                    if f.endswith("mises") or "mises" in f:
                        if same(abs(m[9]), abs(p[0])) and FUNCS[k] == "mises":
                            note = " (the implementation equals the model's UNREPAIRED expanded formula)"
                    return (f"{f} [{path}]: model={m[k]!r} impl={p[k]!r}{note}")
        return None

    def nontrivial(self, case, model_out):
        if all(x == 0 for r in case["rows"] for x in r):
            return None
        return json.dumps([case["rows"], case["q"], case["factor"]])

    # -------------------------------------------------------------- oracle
    def oracle(self, case):
        st = self.stats
        st["cases"] += 1
        st["q_kind"][case.get("q_kind", "?")] = st["q_kind"].get(case.get("q_kind", "?"), 0) + 1
        st["index_kind"][case["index"]] = st["index_kind"].get(case["index"], 0) + 1
        fk = str(int(math.floor(math.log10(case["factor"]))))
        st["factor_log10"][fk] = st["factor_log10"].get(fk, 0) + 1
        for k in case.get("kinds", []):
            st["by_kind"][k] = st["by_kind"].get(k, 0) + 1

        q = np.array(case["q"], dtype=float).reshape(3, 3)
        if np.max(np.abs(q.T @ q - np.eye(3))) > 1e-12:
            raise RuntimeError("generator produced a non-orthogonal Q")   # infrastructure, not a verdict
        ev = self._evaluate(case)
        if ev["error"]:
            return (f"the implementation raised on valid input: {ev['error']}", "raises-on-valid-input")
        n = ev["n"]
        rows = ev["rows"]
        st["tensors"] += len(rows)
        lams = case.get("lam") or [None] * n
        c = case["factor"]

        # (a) scalar = column = accessor, row by row, bit for bit; index / names kept
        for p in ev["problems"]:
            return (f"accessor: {p}", "accessor-glue")
        colorder = case.get("colorder") or CANONICAL
        ck = ("canonical" if [c for c in colorder if c in COLS] == COLS else "permuted") + \
            ("+extra" if len(colorder) > 6 else "")
        st.setdefault("frame_column_layout", {})
        st["frame_column_layout"][ck] = st["frame_column_layout"].get(ck, 0) + 1
        named = lambda r: ", ".join(f"{c}={x!r}" for c, x in zip(COLS, r))
        for i in range(len(rows)):
            (ws, vs), (wc, vc), (wa, va) = ev["scalar"][i], ev["column"][i], ev["accessor"][i]
            for k, f in enumerate(FUNCS):
                if not (same(vs[k], vc[k]) and same(vs[k], va[k])):
                    return (f"{f}: plain function with scalars {vs[k]!r}, with columns {vc[k]!r}, but df.equistress.{f}() gives "
                            f"{va[k]!r} in row {i} ({named(rows[i])}) of a frame whose columns are {colorder}", "accessor-differs")
            if not all(same(a, b) and same(a, d) for a, b, d in zip(ws, wc, wa)):
                return (f"principals: plain function with scalars {ws}, with columns {wc}, but df.equistress.principals() gives "
                        f"{wa} in row {i} ({named(rows[i])}) of a frame whose columns are {colorder}", "accessor-differs")

        # (a'') row by row: the number a tensor gets must not depend on the batch it is evaluated in - alone as a
        # column of length 1, in columns of length 2 and 3, next to all-zero rows, as a one-row frame df.iloc[[i]]
        st["layout_evaluations"] = st.get("layout_evaluations", 0) + len(ev["layouts"])
        for label, i, row, w, v in ev["layouts"]:
            if i is None:
                if any(x != 0 for x in w) or any(x != 0 for x in v):
                    return (f"{label}: an all-zero row gets principals {w}, values {dict(zip(FUNCS, v))}", "batch-dependent")
                continue
            ws, vs = ev["scalar"][i]
            if not all(same(a, b) for a, b in zip(w, ws)):
                return (f"principals of the tensor {tuple(row)} depend on the batch: {label}: {w}; scalar call: {ws}; "
                        f"inside the full column of {len(rows)} rows: {ev['column'][i][0]}", "batch-dependent")
            for k, f in enumerate(FUNCS):
                if not same(v[k], vs[k]):
                    return (f"{f} of the tensor {tuple(row)} depends on the batch: {label}: {v[k]!r}; scalar call: {vs[k]!r}; "
                            f"inside the full column of {len(rows)} rows: {ev['column'][i][1][k]!r}; "
                            f"inside the full frame: {ev['accessor'][i][1][k]!r}", "batch-dependent")

        # (a') integer arguments (the style of the repository's own tests) give the same numbers as float arguments
        E = eqs()
        for i in range(n):
            if all(x == int(x) and abs(x) < 1e6 for x in rows[i]):
                st["integer_argument_checks"] = st.get("integer_argument_checks", 0) + 1
                ints = [int(x) for x in rows[i]]
                for k, f in enumerate(FUNCS):
                    vi = _f(getattr(E, f)(*ints))
                    if not same(vi, ev["scalar"][i][1][k]):
                        return (f"{f}{tuple(ints)} = {vi!r} with int arguments but {ev['scalar'][i][1][k]!r} with float arguments",
                                "int-vs-float-arguments")

        # (b) per tensor: finiteness, principal forms, inequalities, signs
        for i, row in enumerate(rows):
            w, v = ev["scalar"][i]
            val = dict(zip(FUNCS, v))
            scale = scale_of(row)
            tol = TOL * scale
            mk = str(int(math.floor(math.log10(scale)))) if scale > 0 else "zero"
            st["magnitude_log10"][mk] = st["magnitude_log10"].get(mk, 0) + 1
            if i < n:
                lam = ref_eigs(row, lams[i])
            elif i < 2 * n:
                lam = ref_eigs(row, lams[i - n])             # rotation keeps the eigenvalues
            else:
                lam = ref_eigs(row, None if lams[i - 2 * n] is None else [c * x for x in lams[i - 2 * n]])
            pm = principal_mises(lam)
            m_ok = abs(sos_mises(row) - pm) <= tol
            for f in FUNCS:
                if not math.isfinite(val[f]):
                    klass = "mises-cancellation" if ("mises" in f and m_ok and is_cancellation(row, val["mises"])) \
                        else "non-finite-result"
                    return (f"{f}{tuple(row)} = {val[f]!r} on a finite symmetric tensor", klass)
            if not (w[0] <= w[1] <= w[2]) or max(abs(a - b) for a, b in zip(w, lam)) > tol:
                return (f"principals{tuple(row)} = {w}, eigenvalues are {lam}", "eigenvalues-wrong")
            if abs(val["mises"] - pm) > tol:
                klass = "mises-cancellation" if m_ok and is_cancellation(row, val["mises"]) else "mises-wrong"
                return (f"mises{tuple(row)} = {val['mises']!r}, principal form gives {pm!r} (tolerance {tol:.3g})", klass)
            if abs(val["tresca"] - (lam[2] - lam[0])) > tol:
                return (f"tresca{tuple(row)} = {val['tresca']!r}, w_max - w_min = {lam[2]-lam[0]!r}", "tresca-wrong")
            if abs(val["max_principal"] - lam[2]) > tol or abs(val["min_principal"] - lam[0]) > tol:
                return (f"max/min_principal{tuple(row)} = {val['max_principal']!r}/{val['min_principal']!r}, eigenvalues {lam}",
                        "principal-wrong")
            # absolute maximum principal: eigenvalue of largest magnitude with its sign
            am = val["abs_max_principal"]
            ind = lam[2] + lam[0]
            if abs(ind) <= 2 * tol:
                st["zero_absmax_indicator"] += 1
                ok = min(abs(am - lam[2]), abs(am - lam[0])) <= tol
                if ind == 0 and w[2] + w[0] == 0 and am != w[2]:
                    ok = False                                   # exact tie: the positive one (+1 for a zero indicator)
            else:
                ok = abs(am - (lam[2] if ind > 0 else lam[0])) <= tol
                if ind < 0:
                    st["neg_absmax"] += 1
            if not ok or abs(abs(am) - max(abs(x) for x in lam)) > tol:
                return (f"abs_max_principal{tuple(row)} = {am!r}, eigenvalues {lam}", "absmax-wrong")
            # inequalities
            if val["mises"] > val["tresca"] * (1 + 1e-12) + tol or \
                    val["tresca"] > 2.0 / math.sqrt(3.0) * val["mises"] * (1 + 1e-12) + tol:
                klass = "mises-cancellation" if m_ok and is_cancellation(row, val["mises"]) else "inequality-violated"
                return (f"Mises <= Tresca <= 2/sqrt(3) Mises violated on {tuple(row)}: mises={val['mises']!r} tresca={val['tresca']!r}",
                        klass)
            # signed variants: magnitude exactly that of the unsigned one; documented sign
            tr = row[0] + row[1] + row[2]
            if tr < 0:
                st["neg_trace"] += 1
            if tr == 0:
                st["zero_trace"] += 1
            s_tr = 1.0 if tr >= 0 else -1.0
            for f, g in (("signed_mises_trace", "mises"), ("signed_tresca_trace", "tresca")):
                if not same(val[f], s_tr * val[g]):
                    return (f"{f}{tuple(row)} = {val[f]!r}, expected sign(trace={tr!r}; +1 at 0) x {g} = {s_tr * val[g]!r}",
                            "signed-trace-wrong")
            for f, g in (("signed_mises_abs_max_principal", "mises"), ("signed_tresca_abs_max_principal", "tresca")):
                if abs(val[f]) != val[g]:
                    return (f"|{f}{tuple(row)}| = {abs(val[f])!r} differs from {g} = {val[g]!r}", "signed-absmax-wrong")
                if abs(ind) > 2 * tol and val[g] > 0 and (val[f] > 0) != (ind > 0):
                    return (f"{f}{tuple(row)} = {val[f]!r} has the wrong sign: eigenvalue of largest magnitude is "
                            f"{lam[2] if ind > 0 else lam[0]!r}", "signed-absmax-wrong")
                if ind == 0 and w[2] + w[0] == 0 and val[f] != val[g]:
                    return (f"{f}{tuple(row)} = {val[f]!r}: a zero indicator must give +{g}", "signed-absmax-wrong")

        # (c) rotation invariance and positive homogeneity against the base tensor
        for i in range(n):
            base = dict(zip(FUNCS, ev["scalar"][i][1]))
            scale = scale_of(rows[i])
            tol = TOL * scale
            lam = ref_eigs(rows[i], lams[i])
            tr = rows[i][0] + rows[i][1] + rows[i][2]
            ind = lam[2] + lam[0]
            for what, j, fac in (("rotation", n + i, 1.0), ("scaling", 2 * n + i, c)):
                other = dict(zip(FUNCS, ev["scalar"][j][1]))
                for f in FUNCS:
                    a, b = fac * base[f], other[f]
                    # a sign indicator within rounding of zero may flip when the tensor is rotated / scaled in floating
                    # point (the computed eigenvalues carry rounding noise): compare magnitudes then
                    if ("trace" in f and abs(tr) <= 3 * tol) or ("abs_max" in f and abs(ind) <= 3 * tol):
                        a, b = abs(a), abs(b)
                    if abs(a - b) > fac * tol * 2:
                        canc = "mises" in f and (is_cancellation(rows[i], base["mises"]) or
                                                 is_cancellation(rows[j], other["mises"]))
                        klass = "mises-cancellation" if canc else f"{what}-variant"
                        return (f"{f} is not invariant under {what}: {f}{tuple(rows[i])} = {base[f]!r}"
                                f"{'' if fac == 1.0 else f' (x {fac!r} = {a!r})'} but {f}{tuple(rows[j])} = {other[f]!r}"
                                f" [Q = {case['q']}]" if what == "rotation" else
                                f"{f} does not scale with the factor {fac!r}: {f}{tuple(rows[i])} = {base[f]!r} "
                                f"but {f}{tuple(rows[j])} = {other[f]!r}", klass)

        # (d) the accessor validates its columns
        st["missing_column_checks"] += 1
        df = frame(rows[:n], case["index"], case.get("colorder") or CANONICAL).drop(columns=[case["drop"]])
        try:
            df.equistress
            return (f"df.equistress accepted a frame without column {case['drop']}", "accessor-glue")
        except AttributeError:
            pass
        return None

    # -------------------------------------------------------------- shrinking
    def shrink(self, case, still_fails):
        cur = case
        # single row
        if len(cur["rows"]) > 1:
            for i in range(len(cur["rows"])):
                c2 = dict(cur, rows=[cur["rows"][i]], lam=[(cur.get("lam") or [None] * len(cur["rows"]))[i]],
                          kinds=[cur["kinds"][i]] if cur.get("kinds") else [])
                if still_fails(c2):
                    cur = c2
                    break
        for patch in ({"q": [float(x) for x in EXACT_Q[0]], "q_kind": "exact"}, {"factor": 2.0}, {"index": "range"},
                      {"colorder": list(CANONICAL)},
                      {"colorder": [c for c in (cur.get("colorder") or CANONICAL) if c in COLS]}):
            c2 = dict(cur, **patch)
            if still_fails(c2):
                cur = c2
        # round the components
        for digits in (0, 1, 3):
            c2 = dict(cur, rows=[[round(x, digits) for x in r] for r in cur["rows"]], lam=[None] * len(cur["rows"]))
            if still_fails(c2):
                cur = c2
                break
        return cur
